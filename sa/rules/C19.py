"""C19 Directory contents round-trip.

Decided: writer/reader agreement of the directory serialisation (entry fields,
framing, rwcap layout, codecs), name normalisation at every store into a
children dict, the deep-immutable refusals (DESIGN.md section 5, C19)."""
import itertools

from sa.h import *
from sa.index import Module
from sa.cfg import reaching_defs
from sa.tables import ConstEval, _Return

EXPLANATION = (
    "Decided (table agreement + path rules): (1) _pack_normalized_children joins exactly as many netstring-framed "
    "fields as _unpack_contents splits (4), in the same role order (name, ro cap, rw cap, metadata), with "
    "encode/decode codec, json.dumps/json.loads and the (node, metadata) tuple order agreeing; (2) outer framing: "
    "every appended entry is netstring(entry), joined with b''; the reader splits one netstring at `position`, "
    "advances `position` from the result, parses that element, and caches exactly it as the aux entry; "
    "(3) rwcap layout: _encrypt_rw_uri returns salt+ciphertext+mac, _decrypt_rwcapdata slices [:IVLEN] and "
    "[IVLEN:-len(mac)] with IVLEN = truncation of the salt hash (16) and len(mac) = 32, both sides derive the key "
    "with mutable_rwcap_key_hash(salt, writekey) and use the AES encryptor/decryptor pair; (4) every key stored "
    "into / deleted from a children dict in dirnode.py is normalize(..) (or self.name bound to normalize(..) in the "
    "constructor); (5) immutable refusal: entries.append is reached only after 'not deep_immutable or "
    "child.is_allowed_in_immutable_directory()' for that child, create_immutable_directory packs with "
    "deep_immutable=True and pack_children forwards it; the reader refuses a non-empty rwcap and mutable children "
    "when the directory is immutable and creates children with deep_immutable=not self.is_mutable(); (6) "
    "unknown-cap prefixes: strip_prefix_for_ro strips a prefix only after startswith of the same prefix, keeps "
    "'imm.' only when not deep_immutable, and UnknownNode re-adds / converts prefixes under the matching tests "
    "(path-wise; `X.startswith((P, Q))` counts as `P or Q`: one of them on the true edge, neither on the false edge). "
    "(7) every node class (DirectoryNode, Mutable/Immutable/Literal file nodes, ProhibitedNode, UnknownNode) answers "
    "is_allowed_in_immutable_directory() exactly as 'not is_mutable()' - for unknown nodes exactly as 'raise_error() "
    "passes and get_write_uri() is empty' - decided by evaluating the predicate methods' CFGs over every truth "
    "assignment of their leaf expressions (self-calls inlined, delegation to a wrapped node's predicate taken as that "
    "node's 'not is_mutable()'); (8) is_mutable() of those classes is a constant agreeing with the declared "
    "IMutableFileNode/IImmutableFileNode interface, an unconditional refusal, or exactly the wrapped object's "
    "is_mutable(), never is_readonly() or another capability predicate; (9) writer gates: a cap read from the child "
    "(get_write_uri / get_readonly_uri) is overwritten by a default only on an edge saying it is None/empty; the rw slot "
    "is the plain empty netstring only on an edge saying writekey is None; _encrypt_rw_uri is called as (writekey, "
    "<value derived from get_write_uri()>); child.raise_error() precedes every append (children of an AuxValueDict are "
    "exempt while Adder.modify checks raise_error() before its store); MustBeDeepImmutableError is raised only after "
    "'deep_immutable' and 'not is_allowed_in_immutable_directory()'; (10) reader gates: a result other than the parsed "
    "container is an empty container returned only on an edge saying the data is empty; the scan starts at offset 0; "
    "every path to the node factory decrypts the rw field or passed an edge saying the directory is read-only; the "
    "rw/ro slot expressions of the factory are not unconditionally empty (x and None); after an edge saying the "
    "directory is mutable or the child is allowed, the entry is stored before the next entry / the return; "
    "create_immutable_directory uploads Data(<the packed children>, ..); (11) UnknownNode.__init__ is executed "
    "abstractly for all 512 combinations of (rw given, ro given, deep_immutable, the two prefix tests of each cap, "
    "parsed cap is UnknownURI, it recorded an error): no exception / unset attribute; a write cap offered to an "
    "immutable directory is refused; rw_uri stays None under deep_immutable; a recorded constraint error is never "
    "ignored (and the parse is told deep_immutable); ro-only, rw+ro (mutable parent, ro not imm.) and a single prefixed "
    "cap keep their caps in the expected slots without error; caps vanish only together with an error; (12) "
    "uri.from_string is interpreted (the engine's bounded AST interpreter, extended by try/except/isinstance and class "
    "tokens) on a well-formed cap string of every cap class (BASE_STRING) x {no prefix, 'ro.', 'imm.'} x deep_immutable: "
    "whenever the context permits the kind (constant is_readonly()/is_mutable() of the class: immutable kinds always, "
    "read-only mutable kinds unless 'imm.'/deep_immutable, writeable kinds only bare in a mutable context) the result "
    "is that class and no error, and a mutable kind in an immutable context carries an error; (13) the key of a new "
    "directory's initial children: create_new_mutable_directory packs them inside the contents callable with "
    "<node>.get_writekey() (not deep_immutable, the given children, the packed string returned), create_mutable_file "
    "hands that callable to create_with_keys, create_with_keys stores the attribute get_writekey() reads on every "
    "path before it invokes the callable (directly or through a method that calls its parameter) with self, and "
    "uploads its result; pack_children forwards its writekey; DirectoryNode._pack_contents and _decrypt_rwcapdata "
    "use the same key expression; (14) the normalize() that dirnode.py applies to every child name (C19.4) is "
    "util.encodingutil.normalize, nothing in dirnode.py re-binds the name, and that function - executed abstractly over "
    "its CFG, each local carrying 'the name as given' / 'NFC of it' / 'something else', a path flag for 'known to be "
    "ASCII-only or already NFC' - returns on every path unicodedata.normalize('NFC', <the name, possibly decoded>) "
    "(directly, or through a one-argument package function judged the same way) and the name itself only after "
    "isascii(), unicodedata.is_normalized('NFC', .), all(ord(c) < 128 ..) or a passed encode('ascii') said so: any "
    "other shortcut (no combining marks, short, Latin-1 ..) leaves names un-normalised that NFC rewrites; "
    "(15) the method create_from_cap hands uri.from_string's result to (found by that role) is interpreted - isinstance "
    "chains, loops over module-level tables, dicts keyed by type(cap), getattr(self, name) and helper methods alike - on a "
    "cap of every non-verifier cap class that from_string returns for a well-formed string (the set is enumerated from "
    "uri.py: BASE_STRING + init_from_string, not declared IVerifierURI): a file cap gives a file node built from that cap "
    "whose is_mutable() (constant, or the wrapped cap's) and declared I(Im)mutableFileNode interface agree with the cap "
    "class's is_mutable(); a directory cap (class with INNER_URI_CLASS) gives a DirectoryNode wrapping exactly one file "
    "node that is right for the INNER_URI_CLASS cap; none gives None / an exception; (16) uri.wrap_dirnode_cap, interpreted on "
    "the INNER_URI_CLASS cap of every non-verifier directory cap class, constructs that class. "
    "Undecided: that get_filenode_cap() of a directory cap returns a cap of its INNER_URI_CLASS (taken from the class "
    "attribute), node constructors' bodies and the node cache / blacklist wrapping in create_from_cap, verify caps (not "
    "every verifier class has a node type in the current code); JSON and Unicode library behaviour (that unicodedata.normalize('NFC', .) is idempotent and stable), netstring codec itself (covered by its unit tests), AES; which "
    "exception type / message a refusal carries; the contents of the MAC (readers ignore it); the modifiers' own "
    "semantics (must_exist, overwrite, metadata merging - not part of the round trip); whether "
    "_create_and_validate_node raises for a child that recorded an error or leaves it to the caller's "
    "is_allowed_in_immutable_directory() filter; the values of the prefixes inside UnknownNode (C19.6 decides the "
    "tests around each prefix operation, not which prefix a stored cap ends up with beyond that); whether a cap "
    "string that is not well-formed for its class is handled (BadURIError path), and the regular expressions of the "
    "cap classes (C19.12 takes K.init_from_string of a well-formed string to succeed); that derive_mutable_keys gives "
    "the right key (C19.13 decides only that the key is stored before the callable runs).")
TECHNIQUE = ("static analysis: writer/reader table agreement over def-use closures, CFG gate rules, constant folding, "
             "truth-table equivalence of predicate methods, exhaustive abstract execution of UnknownNode.__init__, "
             "AST interpretation of uri.from_string over every cap kind and context, must-precede of the key store "
             "before the initial-contents callable, abstract execution of normalize() over (value tag, NFC-known) states, "
             "AST interpretation of the node factory and wrap_dirnode_cap over every cap class enumerated from uri.py")

DN = "dirnode:DirectoryNode"
PACK = "dirnode:_pack_normalized_children"
ROLES = ["name", "ro", "rw", "md"]


# ------------------------------------------------------------------ helpers
def closure(fn, roots, cut_tails=()):
    """Backward def-use closure (names/attr paths, calls outside cuts, cut calls)."""
    defs = def_exprs(fn)
    seen, calls, cuts, done = set(), [], [], set()

    def scan(e):
        stack = [e]
        while stack:
            x = stack.pop()
            if isinstance(x, ast.Call):
                if call_tail(x) in cut_tails:
                    cuts.append(x)
                    continue
                calls.append(x)
            if isinstance(x, ast.Attribute):
                p = attr_path(x)
                if p:
                    use(p)
                    continue
            if isinstance(x, ast.Name):
                use(x.id)
                continue
            if isinstance(x, (ast.FunctionDef, ast.AsyncFunctionDef, ast.ClassDef)):
                continue
            stack.extend(ast.iter_child_nodes(x))

    def use(name):
        if name in seen:
            return
        seen.add(name)
        root = name.split(".", 1)[0]
        if root != name:
            use(root)
        for v in defs.get(name, []):
            if id(v) not in done:
                done.add(id(v))
                scan(v)
    for r in roots:
        scan(r)
    return seen, calls, cuts


def node_of(cfg, sub):
    for n in cfg.nodes:
        for e in node_exprs(n):
            if any(x is sub for x in ast.walk(e)):
                return n
    raise AnalysisError("expression not found in CFG")


def reachable_returns(fn):
    cfg = fn.cfg()
    live = cfg.reachable_nodes()
    return [n for n in cfg.find(is_return) if n.id in live]


def follow_copy(fn, e, hops=4):
    """rv = E; return rv  ->  E (only through names with a single definition)."""
    defs = def_exprs(fn)
    for _ in range(hops):
        if isinstance(e, ast.Name) and len(defs.get(e.id, [])) == 1 and e.id not in fn.params:
            e = defs[e.id][0]
    return e


def flat_add(e):
    out = []

    def go(x):
        if isinstance(x, ast.BinOp) and isinstance(x.op, ast.Add):
            go(x.left)
            go(x.right)
        else:
            out.append(x)
    go(e)
    return out


def is_const_join(c):
    return isinstance(c, ast.Call) and isinstance(c.func, ast.Attribute) and c.func.attr == "join" \
        and isinstance(c.func.value, ast.Constant) and len(c.args) == 1 and not c.keywords


def is_empty_bytes_join(c):
    return is_const_join(c) and c.func.value.value == b""


def fold_int(idx, fn, e):
    try:
        v = get_folder(idx).fold(e, fn.module, fn.cls)
    except NotConstant as ex:
        raise AnalysisError("cannot fold %s in %s: %s" % (ast.unparse(e), short(fn), ex))
    if not isinstance(v, int) or isinstance(v, bool):
        raise AnalysisError("%s in %s is not an integer constant" % (ast.unparse(e), short(fn)))
    return v


# ---- truth-table evaluation of small predicate methods (C19.7 / C19.8) -------
RAISES = "raises"
ALLOWED = "is_allowed_in_immutable_directory"


class _TT(dict):
    """Truth assignment to leaf expressions; unknown leaves are recorded."""

    def __init__(self, *a):
        dict.__init__(self, *a)
        self.missing = []

    def leaf(self, key):
        if key not in self:
            if key not in self.missing:
                self.missing.append(key)
            return False
        return self[key]


class PredEval:
    """Evaluates side-effect-free predicate methods (no loops, no parameters) under a truth assignment to their
    leaf expressions, walking the CFG.  `self.m()` is dispatched on the class under analysis and inlined;
    `R.is_allowed_in_immutable_directory()` on another object R is taken as `not R.is_mutable()` (every
    implementation is held to that by C19.7, so the induction is sound); `X is None` is read as `not X`
    (the attributes compared this way are None-or-truthy)."""

    def __init__(self):
        self._fn = {}

    def fnorm(self, fn):
        k = fn.qual
        if k not in self._fn:
            self._fn[k] = FlowNorm(fn)
        return self._fn[k]

    def truth(self, ci, fn, node, e, env, depth):
        fnm = self.fnorm(fn)
        e = fnm.resolve(node, e)
        if isinstance(e, ast.Constant):
            return bool(e.value)
        if isinstance(e, ast.BoolOp):
            is_and = isinstance(e.op, ast.And)
            for v in e.values:
                t = self.truth(ci, fn, node, v, env, depth)
                if t is RAISES:
                    return RAISES
                if t != is_and:
                    return t
            return is_and
        if isinstance(e, ast.UnaryOp) and isinstance(e.op, ast.Not):
            t = self.truth(ci, fn, node, e.operand, env, depth)
            return RAISES if t is RAISES else (not t)
        if isinstance(e, ast.IfExp):
            t = self.truth(ci, fn, node, e.test, env, depth)
            if t is RAISES:
                return RAISES
            return self.truth(ci, fn, node, e.body if t else e.orelse, env, depth)
        if isinstance(e, ast.Compare) and len(e.ops) == 1 and isinstance(e.ops[0], (ast.Is, ast.IsNot)):
            sides = [e.left, e.comparators[0]]
            none = [s for s in sides if isinstance(s, ast.Constant) and s.value is None]
            rest = [s for s in sides if not (isinstance(s, ast.Constant) and s.value is None)]
            if len(none) == 1 and len(rest) == 1:
                t = self.truth(ci, fn, node, rest[0], env, depth)
                if t is RAISES:
                    return RAISES
                return (not t) if isinstance(e.ops[0], ast.Is) else t
        if isinstance(e, ast.Call) and isinstance(e.func, ast.Name) and e.func.id == "bool" and len(e.args) == 1 \
                and not e.keywords:
            return self.truth(ci, fn, node, e.args[0], env, depth)
        if isinstance(e, ast.Call) and isinstance(e.func, ast.Attribute) and not e.args and not e.keywords:
            recv = e.func.value
            if isinstance(recv, ast.Name) and recv.id == "self":
                m = ci.lookup(e.func.attr)
                if m is not None and len(m.params) == 1:
                    if depth <= 0:
                        raise AnalysisError("predicate %s.%s() recurses too deeply" % (ci.name, e.func.attr))
                    return self.run(ci, m, env, depth - 1)
            elif e.func.attr == ALLOWED:
                twin = ast.Call(func=ast.Attribute(value=recv, attr="is_mutable", ctx=ast.Load()), args=[], keywords=[])
                return not env.leaf(fnm.norm(node, twin))
        return env.leaf(fnm.norm(node, e))

    def run(self, ci, fn, env, depth=4):
        """True / False / RAISES: the outcome of calling the method under `env`."""
        cfg = fn.cfg()
        n = cfg.entry
        for _step in range(400):
            if n is cfg.exit:
                return False            # falls off the end: None
            if n is cfg.raise_exit:
                return RAISES
            succ = cfg.successors(n)
            if n.kind == "test":
                t = self.truth(ci, fn, n, n.ast, env, depth)
                if t is RAISES:
                    return RAISES
                want = "T" if t else "F"
                nxt = [d for (d, l) in succ if isinstance(l, tuple) and l[0] == want]
            elif n.kind in ("entry", "stmt"):
                a = n.ast
                if isinstance(a, ast.Return):
                    return False if a.value is None else self.truth(ci, fn, n, a.value, env, depth)
                if isinstance(a, ast.Raise):
                    return RAISES
                if a is not None and not isinstance(a, (ast.Pass, ast.Expr)) and not (
                        isinstance(a, ast.Assign) and all(isinstance(t, ast.Name) for t in a.targets)):
                    raise AnalysisError("%s is not a simple predicate (statement %s)" % (short(fn), src(fn, a)))
                nxt = [d for (d, l) in succ if l is None]
            else:
                raise AnalysisError("%s is not a simple predicate (%s node)" % (short(fn), n.kind))
            if len(nxt) != 1:
                raise AnalysisError("%s: cannot follow the control flow of the predicate at %r" % (short(fn), n))
            n = nxt[0]
        raise AnalysisError("%s: predicate evaluation does not terminate" % short(fn))

    def rows(self, evals):
        """All truth assignments over the leaves the evaluators touch -> (leaves, [(assignment, values)])."""
        leaves = []
        while True:
            out, grew = [], False
            for bits in itertools.product((False, True), repeat=len(leaves)):
                env = _TT(zip(leaves, bits))
                vals = [ev(env) for ev in evals]
                if env.missing:
                    leaves.extend(k for k in env.missing if k not in leaves)
                    grew = True
                    break
                out.append((dict(env), vals))
            if not grew:
                return leaves, out
            if len(leaves) > 8:
                raise AnalysisError("predicate depends on more than 8 leaves: %s" % leaves)


# ---- edge-fact predicates shared by the gate rules ---------------------------
def is_none_fact(f, forms):
    """The edge says: X is None / X == None / X is falsy, for X one of `forms`."""
    if not f:
        return False
    op, a, b = f
    if op == "false" and a in forms:
        return True
    return op in ("is", "==") and ((a == "None" and b in forms) or (b == "None" and a in forms))


def is_empty_fact(f, var):
    """The edge says that the bytes variable `var` is empty."""
    if not f:
        return False
    op, a, b = f
    ln = "len(%s)" % var
    if op == "false" and a in (var, ln):
        return True
    if op == "==" and {a, b} in ({ln, "0"}, {var, "b''"}):
        return True
    if op == "<=" and a == ln and b == "0":
        return True
    return op == "<" and a == ln and b == "1"


def startswith_fact(f):
    """An edge fact about `X.startswith(P)` / `X.startswith((P, Q, ..))` -> (holds, normal form of X, [normal forms
    of the prefixes]); the tuple form is the disjunction of its members: on the true edge one of them is there, on
    the false edge none.  Any other fact -> None.  (The fact's normal form is parsed, never the source.)"""
    if not f or f[0] not in ("truth", "false") or f[2] is not None:
        return None
    try:
        c = ast.parse(f[1], mode="eval").body
    except (SyntaxError, ValueError):
        return None
    if not (isinstance(c, ast.Call) and isinstance(c.func, ast.Attribute) and c.func.attr == "startswith"
            and len(c.args) == 1 and not c.keywords):
        return None
    a = c.args[0]
    ms = list(a.elts) if isinstance(a, ast.Tuple) else [a]
    if not ms or any(isinstance(m, ast.Starred) for m in ms):
        return None
    return (f[0] == "truth", norm_plain(c.func.value), [norm_plain(m) for m in ms])


# What a path knows about the prefixes of one local: facts (x, kind, polarity); kind is a prefix (normal form) or, for
# the true edge of a tuple test that was not told apart yet, a frozenset of prefixes ("one of these is there").
def pfx_learn(facts, x, names, pol, disjoint=None):
    """The facts after the edge `x.startswith(<names>)` is pol; None when that contradicts what the path knows.
    disjoint: {prefix: prefixes that cannot be there as well}."""
    disjoint = disjoint or {}
    facts = set(facts)
    todo = [(frozenset(names), True)] if pol else [(frozenset([nm]), False) for nm in names]
    while todo:
        ks, p = todo.pop()
        if p:
            rem = frozenset(nm for nm in ks if (x, nm, False) not in facts)
            if not rem:
                return None
            if len(rem) == 1:
                nm = next(iter(rem))
                if (x, nm, True) in facts:
                    continue
                facts.add((x, nm, True))
                facts -= {f for f in facts if f[0] == x and isinstance(f[1], frozenset) and nm in f[1]}
                todo.extend((frozenset([o]), False) for o in sorted(disjoint.get(nm, ())))
            elif not any((x, nm, True) in facts for nm in rem):
                facts.add((x, rem, True))
        else:
            (nm,) = ks
            if (x, nm, True) in facts:
                return None
            if (x, nm, False) in facts:
                continue
            facts.add((x, nm, False))
            for f in [f for f in facts if f[0] == x and isinstance(f[1], frozenset) and nm in f[1]]:
                facts.discard(f)
                todo.append((f[1] - {nm}, True))
    return frozenset(facts)


def pfx_found(facts, x, ok):
    """The path found `x` to start with a prefix satisfying `ok` (whichever of a tuple test's members it was)."""
    return any(f[0] == x and f[2] and (all(ok(m) for m in f[1]) if isinstance(f[1], frozenset) else ok(f[1]))
               for f in facts)


def prefix_knowledge(cfg, fnm, x, target, disjoint=None):
    """[(facts, Witness)]: every feasible way to arrive at the node `target`, with what the path knows about the
    prefixes of the local `x` as it is there (re-binding x forgets).  Infeasible paths (contradictory prefix tests
    of the same string) are not followed."""
    def transfer(n, lab, nxt, st):
        sf = startswith_fact(fnm.edge_fact(n, lab))
        if sf is not None and sf[1] == x:
            st = pfx_learn(st, x, sf[2], sf[0], disjoint)
            if st is None:
                return None
        if st and x in node_stores(n):
            st = frozenset()
        return st

    def key(ps):
        return (ps[0], sorted((sorted(k) if isinstance(k, frozenset) else [k], p) for (_x, k, p) in ps[1]))
    visited, parent = explore(cfg, frozenset(), transfer)
    return [(st, witness(cfg, parent, (nid, st))) for (nid, st) in sorted(visited, key=key) if nid == target.id]


def never_truthy(e):
    """The expression cannot evaluate to a truthy value whatever its variables hold (x and None, b'' ...)."""
    if isinstance(e, ast.Constant):
        return not e.value
    if isinstance(e, ast.BoolOp):
        if isinstance(e.op, ast.And):
            return any(never_truthy(v) for v in e.values)
        return all(never_truthy(v) for v in e.values)
    if isinstance(e, ast.IfExp):
        return never_truthy(e.body) and never_truthy(e.orelse)
    return False


# ---- abstract execution of UnknownNode.__init__ (C19.11) ------------------------
CRASH = "crash"
UNSET = ("unset",)
IMM_P = "ALLEGED_IMMUTABLE_PREFIX"
RO_P = "ALLEGED_READONLY_PREFIX"
L_RW, L_RO, L_DEEP = "rw cap given", "ro cap given", "deep_immutable"
L_UNK, L_ERR = "from_string(ro) is UnknownURI", "UnknownURI.get_error() is set"
INIT_LEAVES = [L_RW, L_RO, L_DEEP, "rw.startswith(%s)" % IMM_P, "rw.startswith(%s)" % RO_P,
               "ro.startswith(%s)" % IMM_P, "ro.startswith(%s)" % RO_P, L_UNK, L_ERR]


class _Crash(Exception):
    pass


class InitEval:
    """Runs the constructor of UnknownNode over abstract values: a cap is ('cap', 'rw'|'ro') (which constructor
    argument the bytes came from; prefix surgery keeps the origin - the prefixes themselves are C19.6's business),
    errors are ('err',), the parsed read cap is ('readcap', origin, constrained).  Tests are answered from a truth
    assignment to: which caps are given, deep_immutable, the startswith() tests of each cap, whether the parsed
    cap is an UnknownURI and whether it recorded a constraint error.  Anything outside this vocabulary is an
    analysis error (fail closed)."""

    def __init__(self, fn):
        self.fn = fn
        self.cfg = fn.cfg()
        pos = first_positional_params(fn)
        if len(pos) < 2 or "deep_immutable" not in fn.params:
            raise AnchorVanished("%s no longer takes (rw_uri, ro_uri, deep_immutable)" % short(fn))
        self.p_rw, self.p_ro = pos[0], pos[1]

    def bad(self, what, e=None):
        raise AnalysisError("%s: cannot execute %s abstractly%s" % (
            short(self.fn), what, (": " + src(self.fn, e)) if e is not None else ""))

    def truthy(self, v, e=None):
        if v is None or v is False:
            return False
        if v is True:
            return True
        if isinstance(v, tuple) and v[0] in ("cap", "err", "readcap"):
            return True
        if isinstance(v, tuple) and v[0] == "lit":
            return bool(v[1])
        if v is UNSET:
            raise _Crash()
        self.bad("the truth value of", e)

    def ev(self, e, st, env):
        if isinstance(e, ast.Constant):
            if e.value is None or isinstance(e.value, bool):
                return e.value
            return ("lit", e.value)
        if isinstance(e, ast.Name):
            if e.id in st:
                if st[e.id] is UNSET:
                    raise _Crash()
                return st[e.id]
            return ("sym", e.id)
        if isinstance(e, ast.Attribute):
            p = attr_path(e)
            if p and p.startswith("self."):
                v = st.get(p, UNSET)
                if v is UNSET:
                    raise _Crash()
                return v
            if p:
                return ("sym", p.rsplit(".", 1)[-1])
            self.bad("attribute", e)
        if isinstance(e, ast.BoolOp):
            is_and = isinstance(e.op, ast.And)
            v = None
            for x in e.values:
                v = self.ev(x, st, env)
                if self.truthy(v, x) != is_and:
                    return v
            return v
        if isinstance(e, ast.UnaryOp) and isinstance(e.op, ast.Not):
            return not self.truthy(self.ev(e.operand, st, env), e.operand)
        if isinstance(e, ast.IfExp):
            t = self.truthy(self.ev(e.test, st, env), e.test)
            return self.ev(e.body if t else e.orelse, st, env)
        if isinstance(e, ast.Compare) and len(e.ops) == 1 and isinstance(e.ops[0], (ast.Is, ast.IsNot, ast.Eq, ast.NotEq)):
            a, b = self.ev(e.left, st, env), self.ev(e.comparators[0], st, env)
            if a is not None and b is not None:
                self.bad("comparison", e)
            same = a is None and b is None
            return same if isinstance(e.ops[0], (ast.Is, ast.Eq)) else not same
        if isinstance(e, ast.BinOp) and isinstance(e.op, ast.Add):
            a, b = self.ev(e.left, st, env), self.ev(e.right, st, env)
            if a is None or b is None:
                raise _Crash()
            caps = [x for x in (a, b) if isinstance(x, tuple) and x[0] == "cap"]
            if len(caps) > 1:
                self.bad("concatenation of two caps", e)
            return caps[0] if caps else ("sym", "+")
        if isinstance(e, ast.Subscript):
            v = self.ev(e.value, st, env)
            if v is None:
                raise _Crash()
            if isinstance(v, tuple) and v[0] == "cap" and isinstance(e.slice, ast.Slice):
                return v
            self.bad("subscript", e)
        if isinstance(e, ast.Tuple) and not any(isinstance(x, ast.Starred) for x in e.elts):
            return ("tup", tuple(self.ev(x, st, env) for x in e.elts))       # only startswith() knows what to do with it
        if isinstance(e, ast.Call):
            return self.call(e, st, env)
        self.bad("expression", e)

    def call(self, e, st, env):
        tail = call_tail(e)
        if tail.endswith("Error") or tail.endswith("Exception"):
            return ("err",)
        if tail == "startswith" and isinstance(e.func, ast.Attribute) and len(e.args) == 1:
            v = self.ev(e.func.value, st, env)
            p = self.ev(e.args[0], st, env)
            if v is None:
                raise _Crash()
            # X.startswith((P, Q, ..)) is X.startswith(P) or X.startswith(Q) or ..
            ps = list(p[1]) if (isinstance(p, tuple) and p[0] == "tup") else [p]
            if isinstance(v, tuple) and v[0] == "cap" and all(isinstance(q, tuple) and q[0] == "sym" for q in ps):
                hits = [env.leaf("%s.startswith(%s)" % (v[1], q[1])) for q in ps]      # every leaf is asked for
                return any(hits)
            self.bad("startswith", e)
        if tail == "isinstance" and len(e.args) == 2:
            v = self.ev(e.args[0], st, env)
            t = attr_path(e.args[1]) or ""
            if isinstance(v, tuple) and v[0] == "readcap":
                if t.rsplit(".", 1)[-1] == "UnknownURI":
                    return env.leaf(L_UNK)
                self.bad("isinstance of the parsed cap", e)
            if t == "bytes":
                return isinstance(v, tuple) and v[0] == "cap"
            self.bad("isinstance", e)
        if tail == "from_string" and e.args:
            v = self.ev(e.args[0], st, env)
            if v is None:
                raise _Crash()
            if not (isinstance(v, tuple) and v[0] == "cap"):
                self.bad("from_string of a non-cap", e)
            di = kwarg(e, "deep_immutable") or arg(e, 1)
            dv = self.ev(di, st, env) if di is not None else False
            return ("readcap", v[1], dv is env.leaf(L_DEEP) or (dv is True))
        if tail == "get_error" and isinstance(e.func, ast.Attribute) and not e.args:
            v = self.ev(e.func.value, st, env)
            if isinstance(v, tuple) and v[0] == "readcap":
                if not env.leaf(L_UNK):
                    raise _Crash()             # only UnknownURI has get_error()
                # a parse that was not told about deep_immutable cannot report the deep-immutable constraint
                return ("err",) if (env.leaf(L_ERR) and v[2]) else None
            self.bad("get_error", e)
        if tail == "len" and len(e.args) == 1:
            return ("sym", "len")
        self.bad("call", e)

    def run(self, env):
        """-> CRASH or dict(error=bool, rw=value, ro=value, validated=bool)."""
        for k in INIT_LEAVES:
            env.leaf(k)
        cfg = self.cfg
        st = {self.p_rw: ("cap", "rw") if env.leaf(L_RW) else None,
              self.p_ro: ("cap", "ro") if env.leaf(L_RO) else None,
              "deep_immutable": bool(env.leaf(L_DEEP))}
        for p in self.fn.params:
            if p not in st and p != "self":
                st[p] = ("sym", p)
        n = cfg.entry
        try:
            for _step in range(600):
                if n is cfg.exit:
                    break
                if n is cfg.raise_exit:
                    return CRASH
                succ = cfg.successors(n)
                if n.kind == "test":
                    t = self.truthy(self.ev(n.ast, st, env), n.ast)
                    nxt = [d for (d, l) in succ if isinstance(l, tuple) and l[0] == ("T" if t else "F")]
                elif n.kind in ("entry", "stmt"):
                    a = n.ast
                    if isinstance(a, ast.Return):
                        if a.value is not None and not (isinstance(a.value, ast.Constant) and a.value.value is None):
                            self.bad("return of a value", a)
                        break
                    if isinstance(a, ast.Raise):
                        return CRASH
                    if isinstance(a, ast.Assign):
                        v = self.ev(a.value, st, env)
                        for t in a.targets:
                            p = attr_path(t)
                            if not p or not isinstance(t, (ast.Name, ast.Attribute)) or (
                                    isinstance(t, ast.Attribute) and not p.startswith("self.")):
                                self.bad("assignment target", t)
                            st[p] = v
                    elif isinstance(a, ast.Expr):
                        if not isinstance(a.value, ast.Constant):
                            self.ev(a.value, st, env)
                    elif a is not None and not isinstance(a, ast.Pass):
                        self.bad("statement", a)
                    nxt = [d for (d, l) in succ if l is None]
                else:
                    self.bad("%s node" % n.kind)
                if len(nxt) != 1:
                    self.bad("control flow at %r" % n)
                n = nxt[0]
            else:
                self.bad("non-terminating control flow")
        except _Crash:
            return CRASH
        err = st.get("self.error", UNSET)
        rw = st.get("self.rw_uri", UNSET)
        ro = st.get("self.ro_uri", UNSET)
        if err is UNSET or rw is UNSET or ro is UNSET:
            return CRASH                   # raise_error() / get_write_uri() would fail with AttributeError
        return {"error": self.truthy(err), "rw": rw, "ro": ro}


# ---- concrete interpretation of uri.from_string (C19.12) --------------------------
class _Raised(Exception):
    def __init__(self, exc):
        Exception.__init__(self, "raised")
        self.exc = exc


class _LoopBreak(Exception):
    pass


class _LoopContinue(Exception):
    pass


class CapParseEval(ConstEval):
    """The engine's bounded AST interpreter, extended just far enough to run uri.from_string on a concrete cap
    string: try/except/raise, isinstance, and tokens for the package's classes.  `K.init_from_string(..)` / `K(..)` of
    a cap class gives ('parsed', K) without looking into the class (the probes are well-formed by assumption),
    `UnknownURI(u, error=E)` gives ('unknown', E), an exception class gives ('exc', name).  Module-level helper
    functions are interpreted too, so the parse may be split up or table-driven.  Anything else -> NotConstant
    (reported as an analysis error: fail closed)."""

    _METHODS = set(ConstEval._METHODS) | {"removeprefix", "removesuffix", "partition", "rpartition"}

    def __init__(self, folder, module):
        ConstEval.__init__(self, folder, module)
        self.idx = folder.idx

    # -- statements
    def stmt(self, st, env):
        if isinstance(st, ast.Try):
            self.tick()
            try:
                try:
                    self.block(st.body, env)
                except _Raised as ex:
                    for h in st.handlers:
                        if h.type is None or self._catches(self.expr(h.type, env), ex.exc):
                            if h.name:
                                env[h.name] = ex.exc
                            self.block(h.body, env)
                            break
                    else:
                        raise
                else:
                    self.block(st.orelse, env)
            finally:
                self.block(st.finalbody, env)
            return
        if isinstance(st, ast.Raise):
            self.tick()
            if st.exc is None:
                raise NotConstant("bare raise")
            v = self.expr(st.exc, env)
            if isinstance(v, type) and issubclass(v, BaseException):
                v = ("exc", v.__name__, None)
            if isinstance(v, tuple) and v and v[0] == "cls":
                v = ("exc", v[1].name, v[1])
            if not (isinstance(v, tuple) and v and v[0] == "exc"):
                raise NotConstant("raise of a non-exception")
            raise _Raised(v)
        if isinstance(st, ast.AnnAssign):
            if st.value is not None:
                self.assign(st.target, self.expr(st.value, env), env)
            return
        if isinstance(st, ast.Break):
            self.tick()
            raise _LoopBreak()
        if isinstance(st, ast.Continue):
            self.tick()
            raise _LoopContinue()
        if isinstance(st, (ast.For, ast.While)):
            # loops with break / continue / else (the row lookup of a table-driven parse)
            self.tick()
            if isinstance(st, ast.For):
                items = iter(list(self.expr(st.iter, env)))
            broke = False
            while True:
                self.tick()
                if isinstance(st, ast.For):
                    try:
                        x = next(items)
                    except StopIteration:
                        break
                    self.assign(st.target, x, env)
                elif not self.expr(st.test, env):
                    break
                try:
                    self.block(st.body, env)
                except _LoopContinue:
                    continue
                except _LoopBreak:
                    broke = True
                    break
            if not broke:
                self.block(st.orelse, env)
            return
        return ConstEval.stmt(self, st, env)

    def call(self, fn, args, kwargs):
        try:
            return ConstEval.call(self, fn, args, kwargs)
        except (_LoopBreak, _LoopContinue):
            raise NotConstant("break / continue outside a loop")

    def _is_exc_class(self, ci):
        return any(c.name.endswith("Error") or c.name.endswith("Exception") for c in ci.mro()) or \
            ci.is_subclass_of("Exception")

    def _catches(self, t, exc):
        if isinstance(t, (tuple, list)) and not (t and t[0] in ("cls",)):
            return any(self._catches(x, exc) for x in t)
        if isinstance(t, type):
            if exc[2] is not None:
                return t in (Exception, BaseException) or any(t.__name__ in c.opaque_bases for c in exc[2].mro())
            import builtins
            k = getattr(builtins, exc[1], None)
            return isinstance(k, type) and issubclass(k, t)
        if isinstance(t, tuple) and t and t[0] == "cls":
            return exc[2] is not None and t[1] in exc[2].mro()
        raise NotConstant("except clause of an unknown type")

    # -- expressions
    def expr(self, e, env):
        self.tick()
        try:
            return self._expr(e, env)
        except (NotConstant, _Return, _Raised):
            raise
        except RecursionError:
            raise NotConstant("constexpr recursion")
        except Exception as ex:
            raise NotConstant("constexpr: %s" % ex)

    def _name(self, name):
        tgt = self.idx.resolve_name(self.module, name)
        if isinstance(tgt, ClassInfo):
            return ("cls", tgt)
        if isinstance(tgt, FuncInfo):
            return ("fn", tgt)
        import builtins
        k = getattr(builtins, name, None)
        if isinstance(k, type) and issubclass(k, BaseException):
            return k
        vals = self.module.assigns.get(name)
        if vals and len(vals) == 1:
            return self.expr(vals[0], {})
        raise NotConstant("%s.%s" % (self.module.name, name))

    def _isinstance(self, v, t):
        if isinstance(t, (tuple, list)) and not (t and t[0] == "cls"):
            return any(self._isinstance(v, x) for x in t)
        if isinstance(t, type):
            if isinstance(v, tuple) and v and v[0] in ("parsed", "unknown", "exc", "cls", "fn"):
                return t is object
            return isinstance(v, t)
        if isinstance(t, tuple) and t and t[0] == "cls":
            if isinstance(v, tuple) and v and v[0] == "parsed":
                return t[1] in v[1].mro()
            if isinstance(v, tuple) and v and v[0] == "unknown":
                return t[1].name == "UnknownURI"
            if isinstance(v, tuple) and v and v[0] == "exc":
                return v[2] is not None and t[1] in v[2].mro()
            return False
        raise NotConstant("isinstance against an unknown type")

    def _construct(self, ci, args, kwargs):
        if ci.name == "UnknownURI":
            init = ci.lookup("__init__")
            ps = first_positional_params(init) if init is not None else []
            err = kwargs.get("error")
            if err is None and "error" in ps and ps.index("error") < len(args):
                err = args[ps.index("error")]
            return ("unknown", err)
        if self._is_exc_class(ci):
            return ("exc", ci.name, ci)
        if ci.lookup("init_from_string") is not None:
            return ("parsed", ci)
        raise NotConstant("construction of %s" % ci.name)

    def _invoke(self, fn, args, kwargs):
        if fn.cls is not None or isinstance(fn.node, ast.Lambda):
            raise NotConstant("call of %s" % fn.qual)
        sub = CapParseEval(self.folder, fn.module)
        sub.steps = self.steps
        try:
            return sub.call(fn, args, kwargs)
        finally:
            self.steps = sub.steps

    def _expr(self, e, env):
        if isinstance(e, ast.Name):
            if e.id in env or e.id in self._BUILTINS:
                return ConstEval._expr(self, e, env)
            try:
                return ConstEval._expr(self, e, env)
            except NotConstant:
                return self._name(e.id)
        if isinstance(e, ast.NamedExpr) and isinstance(e.target, ast.Name):
            v = self.expr(e.value, env)
            env[e.target.id] = v
            return v
        if isinstance(e, ast.Attribute):
            try:
                return self.folder.fold(e, self.module, None)
            except NotConstant:
                pass
            recv = self.expr(e.value, env)
            if isinstance(recv, tuple) and recv and recv[0] in ("cls", "parsed"):
                return self.folder.class_attr(recv[1], e.attr)
            raise NotConstant("attribute %s" % ast.unparse(e))
        if isinstance(e, ast.JoinedStr):
            return "<formatted>"
        if isinstance(e, ast.BinOp) and isinstance(e.op, ast.Mod):
            l = self.expr(e.left, env)
            if isinstance(l, (str, bytes)):
                self.expr(e.right, env)
                return l                      # a message: its text is irrelevant
        if isinstance(e, ast.Call):
            f = e.func
            if any(isinstance(a, ast.Starred) for a in e.args) or any(k.arg is None for k in e.keywords):
                raise NotConstant("*/** arguments")
            if isinstance(f, ast.Name) and f.id == "next" and f.id not in env and not e.keywords \
                    and len(e.args) in (1, 2) and isinstance(e.args[0], ast.GeneratorExp):
                # next(<generator expression>[, default]): the first element (the elements are side-effect free
                # constant expressions, so producing all of them first changes nothing)
                got = list(self.expr(e.args[0], env))
                if got:
                    return got[0]
                if len(e.args) == 2:
                    return self.expr(e.args[1], env)
                raise _Raised(("exc", "StopIteration", None))
            args = [self.expr(a, env) for a in e.args]
            kwargs = {k.arg: self.expr(k.value, env) for k in e.keywords}
            if isinstance(f, ast.Name) and f.id == "isinstance" and f.id not in env and len(args) == 2:
                return self._isinstance(args[0], args[1])
            if isinstance(f, ast.Name) and f.id in self._BUILTINS and f.id not in env:
                return self._BUILTINS[f.id](*args, **kwargs)
            if isinstance(f, ast.Attribute):
                recv = self.expr(f.value, env) if not isinstance(self.idx.resolve_expr(self.module, f.value), Module) \
                    else None
                if isinstance(recv, (bytes, str, list, dict, set, tuple)) and not (
                        isinstance(recv, tuple) and recv and recv[0] in ("cls", "parsed", "unknown", "exc", "fn")):
                    if f.attr in self._METHODS:
                        return getattr(recv, f.attr)(*args, **kwargs)
                    raise NotConstant("method %s" % f.attr)
                if isinstance(recv, tuple) and recv and recv[0] == "cls":
                    if f.attr == "init_from_string" and recv[1].lookup("init_from_string") is not None:
                        if recv[1].name == "UnknownURI":
                            return ("unknown", None)
                        return ("parsed", recv[1])
                    raise NotConstant("call of %s.%s" % (recv[1].name, f.attr))
                if recv is None:
                    tgt = self.idx.resolve_expr(self.module, f)
                    if isinstance(tgt, FuncInfo):
                        return self._invoke(tgt, args, kwargs)
                    if isinstance(tgt, ClassInfo):
                        return self._construct(tgt, args, kwargs)
                raise NotConstant("call %s" % ast.unparse(f))
            fv = self.expr(f, env)
            if isinstance(fv, type) and issubclass(fv, BaseException):
                return ("exc", fv.__name__, None)
            if isinstance(fv, tuple) and fv and fv[0] == "cls":
                return self._construct(fv[1], args, kwargs)
            if isinstance(fv, tuple) and fv and fv[0] == "fn":
                return self._invoke(fv[1], args, kwargs)
            raise NotConstant("call %s" % ast.unparse(f))
        return ConstEval._expr(self, e, env)


def const_predicate(pe, ci, name):
    """The constant a parameterless predicate method of `ci` returns (fail closed when it is not a constant)."""
    m = ci.lookup(name)
    if m is None:
        raise AnchorVanished("cap class %s has no %s()" % (ci.name, name))
    lv, rows = pe.rows([lambda env, _m=m: pe.run(ci, _m, env)])
    vals = {v[0] for (_row, v) in rows}
    if lv or len(vals) != 1 or RAISES in vals:
        raise AnalysisError("%s.%s() is not a constant" % (ci.name, name))
    return next(iter(vals))


def implemented_interfaces(ci):
    """Interface names in @implementer(..) of the class and its bases."""
    out = set()
    for c in ci.mro():
        for d in c.node.decorator_list:
            if isinstance(d, ast.Call) and call_tail(d) == "implementer":
                for a in d.args:
                    t = attr_path(a)
                    if t:
                        out.add(t.rsplit(".", 1)[-1])
    return out


def show_row(row):
    return ", ".join("%s=%s" % (k, row[k]) for k in sorted(row)) or "always"


# ---- interpretation of the node factory over cap-class tokens (C19.15 / C19.16) -----------------
_NF_TAGS = ("cls", "parsed", "unknown", "exc", "fn", "self", "bound", "node", "opaque")


def _tagged(v, *tags):
    return isinstance(v, tuple) and len(v) > 1 and isinstance(v[0], str) and v[0] in (tags or _NF_TAGS)


class NodeFactoryEval(CapParseEval):
    """CapParseEval, extended to run a method of the node maker on a cap token ('parsed', K): `self` is ('self', class);
    `self.m` / `getattr(self, "m")` is the bound method (interpreted when called, whatever the dispatch looks like: an
    isinstance chain, a loop over a module-level table, a dict keyed by type(cap)); any other attribute of self is
    opaque; constructing a class outside allmydata.uri gives ('node', class, arguments); a method of such a node whose
    every return is `return self` gives the node (its arguments noted); `cap.get_filenode_cap()` of a directory cap
    class is a cap of its INNER_URI_CLASS; `cap.is_mutable()/is_readonly()` are the class constants.  Anything else
    -> NotConstant (reported as an analysis error: fail closed)."""

    def __init__(self, folder, module, pe):
        CapParseEval.__init__(self, folder, module)
        self.pe = pe

    def _sub(self, fn, args, kwargs):
        if isinstance(fn.node, ast.Lambda) or fn.node.decorator_list:
            raise NotConstant("call of %s" % fn.qual)
        sub = NodeFactoryEval(self.folder, fn.module, self.pe)
        sub.steps = self.steps
        try:
            return sub.call(fn, args, kwargs)
        finally:
            self.steps = sub.steps

    def _invoke(self, fn, args, kwargs):
        return self._sub(fn, args, kwargs)

    def _construct(self, ci, args, kwargs):
        if ci.module.name == "allmydata.uri" or self._is_exc_class(ci):
            return CapParseEval._construct(self, ci, args, kwargs)
        return ("node", ci, tuple(args) + tuple(kwargs.values()))

    def inner_class(self, ci):
        e = ci.lookup_attr("INNER_URI_CLASS")
        owner = next((c for c in ci.mro() if "INNER_URI_CLASS" in c.attrs), None)
        tgt = self.idx.resolve_expr(owner.module, e) if (e is not None and owner is not None) else None
        return tgt if isinstance(tgt, ClassInfo) else None

    def _cap_method(self, recv, name, args):
        ci = recv[1]
        if ci.lookup(name) is None:
            raise _Raised(("exc", "AttributeError", None))
        if name == "get_filenode_cap" and not args:
            inner = self.inner_class(ci)
            if inner is None:
                raise NotConstant("%s.get_filenode_cap(): no INNER_URI_CLASS" % ci.name)
            return ("parsed", inner)
        if name in ("is_mutable", "is_readonly") and not args:
            return const_predicate(self.pe, ci, name)
        raise NotConstant("call of %s.%s" % (ci.name, name))

    def _node_method(self, recv, name, args):
        m = recv[1].lookup(name)
        if m is None:
            raise NotConstant("%s has no method %s" % (recv[1].name, name))
        rets = reachable_returns(m)
        me = [a.arg for a in m.node.args.args][:1]
        if rets and me and all(isinstance(n.ast.value, ast.Name) and n.ast.value.id == me[0] for n in rets):
            return ("node", recv[1], recv[2] + tuple(args))
        raise NotConstant("%s.%s() does not simply return the node" % (recv[1].name, name))

    def _args(self, e, env):
        if any(isinstance(a, ast.Starred) for a in e.args) or any(k.arg is None for k in e.keywords):
            raise NotConstant("*/** arguments")
        return [self.expr(a, env) for a in e.args], {k.arg: self.expr(k.value, env) for k in e.keywords}

    def _is_module(self, e):
        return isinstance(self.idx.resolve_expr(self.module, e), Module)

    def _expr(self, e, env):
        if isinstance(e, ast.Attribute) and not (isinstance(e.value, ast.Name) and e.value.id in env):
            tgt = self.idx.resolve_expr(self.module, e)
            if isinstance(tgt, ClassInfo):
                return ("cls", tgt)
            if isinstance(tgt, FuncInfo):
                return ("fn", tgt)
        if isinstance(e, ast.Attribute) and not self._is_module(e.value):
            recv = self.expr(e.value, env)
            if _tagged(recv, "self"):
                m = recv[1].lookup(e.attr)
                return ("bound", m, recv) if m is not None else ("opaque", "self." + e.attr)
            if _tagged(recv, "parsed") and e.attr == "__class__":
                return ("cls", recv[1])
            if _tagged(recv, "node", "opaque", "bound", "parsed"):
                raise NotConstant("attribute %s" % ast.unparse(e))
        if isinstance(e, ast.Call):
            f = e.func
            if isinstance(f, ast.Name) and f.id not in env and f.id == "getattr" and len(e.args) in (2, 3) \
                    and not e.keywords:
                o, nm = self.expr(e.args[0], env), self.expr(e.args[1], env)
                if _tagged(o, "self") and isinstance(nm, str):
                    m = o[1].lookup(nm)
                    if m is not None:
                        return ("bound", m, o)
                    if len(e.args) == 3:
                        return self.expr(e.args[2], env)
                    raise _Raised(("exc", "AttributeError", None))
                raise NotConstant("getattr of %s" % ast.unparse(e.args[0]))
            if isinstance(f, ast.Name) and f.id not in env and f.id == "type" and len(e.args) == 1 and not e.keywords:
                o = self.expr(e.args[0], env)
                if _tagged(o, "parsed"):
                    return ("cls", o[1])
                raise NotConstant("type() of %s" % ast.unparse(e.args[0]))
            if isinstance(f, ast.Attribute) and not self._is_module(f.value) and (
                    (isinstance(f.value, ast.Name) and f.value.id in env)
                    or not isinstance(self.idx.resolve_expr(self.module, f), (ClassInfo, FuncInfo))):
                recv = self.expr(f.value, env)
                if _tagged(recv, "self", "parsed", "node"):
                    args, kwargs = self._args(e, env)
                    if recv[0] == "self":
                        m = recv[1].lookup(f.attr)
                        if m is None:
                            raise NotConstant("%s has no method %s" % (recv[1].name, f.attr))
                        return self._sub(m, [recv] + args, kwargs)
                    if kwargs:
                        raise NotConstant("keyword arguments in %s" % ast.unparse(e))
                    if recv[0] == "parsed":
                        return self._cap_method(recv, f.attr, args)
                    return self._node_method(recv, f.attr, args)
                if _tagged(recv, "opaque", "bound"):
                    raise NotConstant("call %s" % ast.unparse(f))
            fv = None
            if isinstance(f, ast.Name) and f.id in env:
                fv = env[f.id]
            elif isinstance(f, (ast.Call, ast.Subscript, ast.IfExp, ast.BoolOp)):
                fv = self.expr(f, env)
            if fv is not None:
                args, kwargs = self._args(e, env)
                if _tagged(fv, "bound"):
                    return self._sub(fv[1], [fv[2]] + args, kwargs)
                if _tagged(fv, "fn"):
                    return self._sub(fv[1], args, kwargs)
                if _tagged(fv, "cls"):
                    return self._construct(fv[1], args, kwargs)
                raise NotConstant("call %s" % ast.unparse(f))
        return CapParseEval._expr(self, e, env)


def run(ctx: Context):
    idx = ctx.idx
    pack = idx.func(PACK)
    unp = idx.func(DN + "._unpack_contents")
    dmod = idx.module("allmydata.dirnode")

    # ---- shared extraction: writer ------------------------------------------
    pcfg = pack.cfg()
    pnorm = FlowNorm(pack)
    pdefs = def_exprs(pack)
    appends = [c for c in calls_in_func(pack, "append")]
    rets = [follow_copy(pack, n.ast.value) for n in reachable_returns(pack) if n.ast.value is not None]
    if len(rets) != 1 or not is_const_join(rets[0]) or not isinstance(rets[0].args[0], ast.Name):
        raise AnchorVanished("_pack_normalized_children no longer returns <sep>.join(<list>)")
    outer_list = rets[0].args[0].id
    appends = [c for c in appends if attr_path(c.func.value) == outer_list]
    if not appends:
        raise AnchorVanished("nothing is appended to %s in _pack_normalized_children" % outer_list)
    # the inner join: the (only) definition of the entry variable that is a b"".join([...])
    inner_joins = [c for c in calls_in_func(pack) if is_const_join(c) and isinstance(c.args[0], (ast.List, ast.Tuple))]

    # ---- shared extraction: reader ------------------------------------------
    ucfg = unp.cfg()
    unorm = FlowNorm(unp)
    udefs = def_exprs(unp)
    dparam = first_positional_params(unp)[0]
    splits = calls_in_func(unp, "split_netstring")
    outer_split = [c for c in splits if attr_path(arg(c, 0, "data")) == dparam]
    inner_split = [c for c in splits if c not in outer_split]

    def assign_of(fn, call):
        for n in func_own_nodes(fn):
            if isinstance(n, ast.Assign) and n.value is call:
                return n
        return None

    # -- 1. entry fields ------------------------------------------------------
    with ctx.rule("C19.1", "R5", "packed entry = 4 netstring fields (name, ro, rw, metadata) in the order "
                  "_unpack_contents splits and uses them; codecs and (node, metadata) tuple order agree", expected=2) as r:
        if len(inner_joins) != 1:
            raise AnchorVanished("expected one <sep>.join([...]) building the entry in _pack_normalized_children "
                                 "(found %d)" % len(inner_joins))
        ij = inner_joins[0]
        r.site(pack, ij, "writer fields")
        r.require(is_empty_bytes_join(ij), pack, pack.loc(ij), "entry fields are joined with separator %s; the reader "
                  "expects back-to-back netstrings" % src(pack, ij.func.value))
        elts = list(ij.args[0].elts)
        loopvars = set()
        for n in func_own_nodes(pack):
            if isinstance(n, ast.For):
                loopvars |= {x.id for x in ast.walk(n.target) if isinstance(x, ast.Name)}

        def netstring_framed(e, depth=3):
            if isinstance(e, ast.Call) and call_tail(e) == "netstring":
                return True
            if isinstance(e, ast.Name) and depth > 0:
                ds = pdefs.get(e.id)
                if ds:
                    return all(netstring_framed(d, depth - 1) for d in ds)
                ms = dmod.assigns.get(e.id)
                if ms:
                    return all(isinstance(d, ast.Call) and call_tail(d) == "netstring" for d in ms)
            return False
        wroles = []
        md_src = ro_recv = None
        enc_codec = None
        for e in elts:
            r.require(netstring_framed(e), pack, pack.loc(e), "entry field %s is not netstring-framed" % src(pack, e))
            names, calls, cuts = closure(pack, [e], {"_encrypt_rw_uri"})
            tails = {call_tail(c) for c in calls}
            kinds = []
            if "get_readonly_uri" in tails:
                kinds.append("ro")
                for c in calls:
                    if call_tail(c) == "get_readonly_uri" and isinstance(c.func, ast.Attribute):
                        ro_recv = pnorm.norm(node_of(pcfg, c), c.func.value)
            if cuts or (isinstance(e, ast.Name) and any(isinstance(d, ast.Name) and d.id in dmod.assigns
                                                         for d in pdefs.get(e.id, []))):
                kinds.append("rw")
            if "dumps" in tails:
                kinds.append("md")
                for c in calls:
                    if call_tail(c) == "dumps" and c.args:
                        md_src = pnorm.norm(node_of(pcfg, c), c.args[0])
            if not kinds and names & loopvars:
                kinds.append("name")
                for c in calls:
                    if call_tail(c) == "encode":
                        enc_codec = [norm_plain(a) for a in c.args]
            wroles.append("+".join(kinds) or "?")
        r.require(wroles == ROLES, pack, pack.loc(ij), "writer packs the entry fields as %s, expected %s" % (wroles, ROLES))
        # reader
        if len(inner_split) != 1 or len(outer_split) != 1:
            raise AnchorVanished("expected one outer and one inner split_netstring in _unpack_contents")
        isp = inner_split[0]
        r.site(unp, isp, "reader fields")
        n_fields = fold_int(idx, unp, arg(isp, 1, "numstrings"))
        r.require(n_fields == len(elts), unp, unp.loc(isp), "reader splits an entry into %d netstrings, writer joins %d"
                  % (n_fields, len(elts)))
        ia = assign_of(unp, isp)
        tg = ia.targets[0] if ia is not None and len(ia.targets) == 1 else None
        if not (isinstance(tg, (ast.Tuple, ast.List)) and len(tg.elts) == 2 and isinstance(tg.elts[0], (ast.Tuple, ast.List))
                and all(isinstance(x, ast.Name) for x in tg.elts[0].elts)):
            raise AnchorVanished("the result of the inner split_netstring is no longer unpacked into named fields")
        fields = [x.id for x in tg.elts[0].elts]
        r.require(len(fields) == n_fields, unp, unp.loc(ia), "reader unpacks %d field names from %d netstrings"
                  % (len(fields), n_fields))
        # usage of each field
        mk = calls_in_func(unp, "_create_and_validate_node")
        dec = calls_in_func(unp, "_decrypt_rwcapdata")
        loads = calls_in_func(unp, "loads")
        kstores = []
        for n in ucfg.nodes:
            a = n.ast
            if n.kind == "stmt" and isinstance(a, ast.Assign):
                for t in a.targets:
                    if isinstance(t, ast.Subscript):
                        kstores.append((n, t.slice, a.value))
        if not (mk and dec and loads and kstores):
            raise AnchorVanished("_unpack_contents lost one of: node factory call, rwcap decryption, json.loads, "
                                 "children[...] store")

        def uses(expr, field):
            return field in closure(unp, [expr])[0]
        rroles = []
        dec_codec = None
        for f in fields:
            kinds = []
            if any(uses(k, f) for (_n, k, _v) in kstores):
                kinds.append("name")
            if any(arg(c, 1, "ro_uri") is not None and uses(arg(c, 1, "ro_uri"), f) for c in mk):
                kinds.append("ro")
            if any(c.args and uses(c.args[0], f) for c in dec):
                kinds.append("rw")
            if any(c.args and uses(c.args[0], f) for c in loads):
                kinds.append("md")
            rroles.append("+".join(kinds) or "?")
        r.require(rroles == ROLES, unp, unp.loc(ia), "reader uses the split fields %s as %s, expected %s"
                  % (fields, rroles, ROLES))
        r.require(wroles == rroles, unp, unp.loc(ia), "writer field order %s differs from reader field order %s"
                  % (wroles, rroles))
        # codec of the name
        for (_n, k, _v) in kstores:
            for c in closure(unp, [k])[1]:
                if call_tail(c) == "decode":
                    dec_codec = [norm_plain(a) for a in c.args]
        r.require(enc_codec is not None and enc_codec == dec_codec, unp, unp.loc(ia),
                  "name is written with encode(%s) but read with decode(%s)" % (enc_codec, dec_codec))
        # (node, metadata) tuple order: writer reads [0] as the node and [1] as metadata
        # (decidable only while both come from one subscripted pair; otherwise the clause is skipped)
        m0 = re.match(r"^(.*)\[(\d+)\]$", ro_recv or "")
        m1 = re.match(r"^(.*)\[(\d+)\]$", md_src or "")
        if m0 and m1 and m0.group(1) == m1.group(1):
            r.require((m0.group(2), m1.group(2)) == ("0", "1"), pack, pack.loc(ij),
                      "writer takes the node from %s and the metadata from %s; readers and editors store "
                      "(node, metadata)" % (ro_recv, md_src))
        else:
            ctx.note("C19.1: (node, metadata) tuple order of the writer not decidable from %s / %s" % (ro_recv, md_src))
        for (n, k, v) in kstores:
            ok = isinstance(v, ast.Tuple) and len(v.elts) == 2
            if ok:
                v0 = unorm.resolve(n, v.elts[0])
                v1 = unorm.resolve(n, v.elts[1])
                ok = isinstance(v0, ast.Call) and call_tail(v0) == "_create_and_validate_node" \
                    and isinstance(v1, ast.Call) and call_tail(v1) == "loads"
            r.require(ok, unp, unp.loc(n.ast), "reader stores %s, expected (node, json.loads(metadata))" % src(unp, v))
        # the rw field the reader decrypts is the one the factory gets in the rw slot (ordering with C18.1)
        for c in mk:
            a0 = arg(c, 0, "rw_uri")
            r.require(a0 is not None and any(call_tail(x) == "_decrypt_rwcapdata" for x in closure(unp, [a0])[1]),
                      unp, unp.loc(c), "rw slot of the node factory is not the decrypted rw field")

    # -- 2. outer framing -----------------------------------------------------
    with ctx.rule("C19.2", "R5", "outer framing: one netstring per entry, b''-joined; the reader splits 1 netstring at "
                  "`position`, advances it, parses that element and caches it as the aux entry", expected=3) as r:
        r.require(is_empty_bytes_join(rets[0]), pack, pack.loc(rets[0]), "entries are joined with separator %s; the "
                  "reader expects back-to-back netstrings" % src(pack, rets[0].func.value))
        for c in appends:
            r.site(pack, c, "writer append")
            a = c.args[0] if c.args else None
            r.require(isinstance(a, ast.Call) and call_tail(a) == "netstring" and len(a.args) == 1, pack, pack.loc(c),
                      "appended entry %s is not netstring-framed" % src(pack, a))
            if isinstance(a, ast.Call) and a.args and inner_joins:
                # what is framed is the joined entry or the cached aux entry
                nm, cl, _ = closure(pack, [a.args[0]])
                r.require(any(x is inner_joins[0] for x in cl), pack, pack.loc(c),
                          "the framed value %s is not the joined entry" % src(pack, a.args[0]))
        osp = outer_split[0] if outer_split else None
        if osp is None:
            raise AnchorVanished("no split_netstring(data, ..) in _unpack_contents")
        r.site(unp, osp, "reader outer split")
        r.require(fold_int(idx, unp, arg(osp, 1, "numstrings")) == 1, unp, unp.loc(osp),
                  "outer split takes %s netstrings per step, writer emits one per entry" % src(unp, arg(osp, 1, "numstrings")))
        pos = arg(osp, 2, "position")
        oa = assign_of(unp, osp)
        tg = oa.targets[0] if oa is not None and len(oa.targets) == 1 else None
        ok = isinstance(pos, ast.Name) and isinstance(tg, (ast.Tuple, ast.List)) and len(tg.elts) == 2 \
            and isinstance(tg.elts[1], ast.Name) and tg.elts[1].id == pos.id and isinstance(tg.elts[0], ast.Name)
        r.require(ok, unp, unp.loc(osp), "outer split does not start at and advance one position variable: %s"
                  % (src(unp, oa) if oa is not None else src(unp, osp)))
        if ok:
            lst = tg.elts[0].id
            # loop guard position < len(data)
            on = node_of(ucfg, osp)

            def more(n, lab):
                f = unorm.edge_fact(n, lab)
                return bool(f) and f[0] == "<" and f[1] == pos.id and f[2] == "len(%s)" % dparam
            for (n, w) in find_path_avoiding(ucfg, lambda x: x is on, gate_edge=more, kill=lambda x: x is on):
                r.violation(unp, unp.loc(n.ast), "outer split is reached without '%s < len(%s)'" % (pos.id, dparam), w)
            # the scan starts at offset 0: any other constant start skips / misparses the first entry
            for n in ucfg.nodes:
                if n.kind == "stmt" and isinstance(n.ast, ast.Assign) and n is not on and \
                        any(isinstance(t, ast.Name) and t.id == pos.id for t in n.ast.targets):
                    try:
                        v0 = get_folder(idx).fold(n.ast.value, unp.module, unp.cls)
                    except NotConstant:
                        continue
                    r.require(v0 == 0 and not isinstance(v0, bool), unp, unp.loc(n.ast),
                              "the scan of the packed directory starts at offset %r instead of 0" % (v0,))
            # the element parsed by the inner split is element [0] of the outer result
            if inner_split:
                e0 = arg(inner_split[0], 0, "data")
                exprs = udefs.get(e0.id, []) if isinstance(e0, ast.Name) else [e0]
                def first_or_last(x):       # the outer split yields exactly one element
                    try:
                        return ast.literal_eval(x) in (0, -1)
                    except Exception:
                        return False
                good = bool(exprs) and all(
                    isinstance(x, ast.Subscript) and attr_path(x.value) == lst and first_or_last(x.slice) for x in exprs)
                r.require(good, unp, unp.loc(inner_split[0]), "the entry that is parsed (%s) is not element 0 of the outer "
                          "split" % " | ".join(src(unp, x) for x in exprs))
                # the inner split starts at 0 (no position argument other than 0)
                p2 = arg(inner_split[0], 2, "position")
                r.require(p2 is None or (isinstance(p2, ast.Constant) and p2.value == 0), unp, unp.loc(inner_split[0]),
                          "inner split starts at %s" % src(unp, p2))
        # aux entry == the parsed element; keys/values of the two stores agree
        sw = calls_in_func(unp, "set_with_aux")
        for c in sw:
            r.site(unp, c, "aux cache")
            n = node_of(ucfg, c)
            aux = kwarg(c, "auxilliary") or arg(c, 2)
            e0 = arg(inner_split[0], 0, "data") if inner_split else None
            r.require(aux is not None and e0 is not None
                      and unorm.norm(n, aux) == unorm.norm(node_of(ucfg, inner_split[0]), e0)
                      and isinstance(aux, ast.Name) == isinstance(e0, ast.Name), unp, unp.loc(c),
                      "cached packed form %s is not the entry that was parsed (%s)" % (src(unp, aux), src(unp, e0)))
        # the writer re-frames a cached aux entry exactly like a fresh one (same append)
        ga = calls_in_func(pack, "get_aux")
        for c in ga:
            used = False
            for a in appends:
                fr = a.args[0] if a.args else None
                if isinstance(fr, ast.Call) and call_tail(fr) == "netstring" and fr.args:
                    if any(x is c for x in closure(pack, [fr.args[0]])[1]):
                        used = True
            r.require(used, pack, pack.loc(c), "cached aux entry is not re-framed by the same netstring(..) append as a "
                      "fresh entry")

    # -- 3. rwcap layout -------------------------------------------------------
    with ctx.rule("C19.3", "R5", "rwcap = salt(IVLEN) + ciphertext + mac(32): _decrypt_rwcapdata slices [:16] and "
                  "[16:-32]; both sides key with mutable_rwcap_key_hash(salt, writekey) and the AES pair", expected=2) as r:
        enc = idx.func("dirnode:_encrypt_rw_uri")
        dec = idx.func(DN + "._decrypt_rwcapdata")
        r.site(enc, None)
        r.site(dec, None)
        eret = [n.ast.value for n in reachable_returns(enc) if n.ast.value is not None]
        if len(eret) != 1:
            raise AnchorVanished("_encrypt_rw_uri has %d return values" % len(eret))
        eret = [follow_copy(enc, eret[0])]
        parts = flat_add(eret[0])
        proles = []
        for p in parts:
            _nm, cl, _ = closure(enc, [p])
            t = {call_tail(c) for c in cl}
            if isinstance(p, ast.Name) is False and not isinstance(p, ast.Call):
                proles.append("?")
            elif "hmac" in t:
                proles.append("mac")
            elif "encrypt_data" in t:
                proles.append("ct")
            elif "mutable_rwcap_salt_hash" in t:
                proles.append("salt")
            else:
                proles.append("?")
        r.require(proles == ["salt", "ct", "mac"], enc, enc.loc(eret[0]),
                  "_encrypt_rw_uri returns %s (%s), expected salt + ciphertext + mac" % (src(enc, eret[0]), proles))
        # lengths
        sh = idx.func("util.hashutil:mutable_rwcap_salt_hash")
        th = calls_in_func(sh, "tagged_hash")
        if len(th) != 1 or (arg(th[0], 2, "truncate_to") is None):
            raise AnchorVanished("mutable_rwcap_salt_hash is no longer tagged_hash(tag, val, truncate_to)")
        salt_len = fold_int(idx, sh, arg(th[0], 2, "truncate_to"))
        mac_len = None
        en = N(enc)
        for n in enc.cfg().nodes:
            if n.kind == "test":
                f = en.cmp(n.ast, True)
                if f[0] == "==" and any(re.match(r"^len\((\w+\.)*hmac\(", s) for s in (f[1], f[2]) if s):
                    other = [s for s in (f[1], f[2]) if not s.startswith("len(")]
                    if other and other[0].isdigit():
                        mac_len = int(other[0])
        if mac_len is None:
            hm = idx.func("util.hashutil:hmac")
            if all(isinstance(n.ast.value, ast.Call) and call_tail(n.ast.value) == "digest"
                   and "sha256" in ast.unparse(n.ast.value) or
                   re.search(r"sha256\(.*\)\.digest\(\)$", N(hm).norm(n.ast.value) or "")
                   for n in reachable_returns(hm)):
                mac_len = 32
        if mac_len is None:
            raise AnalysisError("cannot determine the MAC length of _encrypt_rw_uri")
        # reader slices
        dp = first_positional_params(dec)[0]
        dn = N(dec)
        kh = calls_in_func(dec, "mutable_rwcap_key_hash")
        dd = calls_in_func(dec, "decrypt_data") + calls_in_func(dec, "encrypt_data")
        if len(kh) != 1 or len(dd) != 1:
            raise AnchorVanished("_decrypt_rwcapdata: expected one mutable_rwcap_key_hash and one decrypt_data call")

        def resolve(fn, e, depth=4):
            ud = unique_defs(fn)
            while depth > 0 and isinstance(e, ast.Name) and e.id in ud:
                e = ud[e.id]
                depth -= 1
            return e

        def slice_bounds(e):
            e = resolve(dec, e)
            if not (isinstance(e, ast.Subscript) and attr_path(e.value) == dp and isinstance(e.slice, ast.Slice)
                    and e.slice.step is None):
                return None
            lo = fold_int(idx, dec, e.slice.lower) if e.slice.lower is not None else 0
            hi = fold_int(idx, dec, e.slice.upper) if e.slice.upper is not None else None
            return (lo, hi)
        sb = slice_bounds(arg(kh[0], 0))
        cb = slice_bounds(arg(dd[0], 1))
        r.require(sb == (0, salt_len), dec, dec.loc(kh[0]), "salt is read from slice %s of the rwcap field, the writer "
                  "puts %d salt bytes first" % (sb, salt_len))
        r.require(cb == (salt_len, -mac_len), dec, dec.loc(dd[0]), "ciphertext is read from slice %s, the writer puts it "
                  "between %d salt bytes and %d mac bytes" % (cb, salt_len, mac_len))
        # key derivation agreement
        ekh = calls_in_func(enc, "mutable_rwcap_key_hash")
        if len(ekh) != 1:
            raise AnchorVanished("_encrypt_rw_uri: expected one mutable_rwcap_key_hash call")
        eps = first_positional_params(enc)
        e_salt = closure(enc, [arg(ekh[0], 0)])[1] if arg(ekh[0], 0) is not None else []
        r.require(len(ekh[0].args) == 2 and any(call_tail(c) == "mutable_rwcap_salt_hash" for c in e_salt)
                  and attr_path(ekh[0].args[1]) == eps[0], enc, enc.loc(ekh[0]),
                  "writer derives the key as %s, reader as mutable_rwcap_key_hash(salt, writekey)" % src(enc, ekh[0]))
        r.require(len(kh[0].args) == 2 and en.norm(ekh[0].func) == dn.norm(kh[0].func), dec, dec.loc(kh[0]),
                  "reader derives the key with %s" % src(dec, kh[0]))
        # the salt emitted is the salt hashed into the key
        if parts and arg(ekh[0], 0) is not None:
            r.require(en.norm(parts[0]) == en.norm(arg(ekh[0], 0)), enc, enc.loc(ekh[0]),
                      "the salt stored in the rwcap field is not the salt used for the key")
        # cipher pair (AES-CTR: either matching pair inverts the writer's encryption)
        ed = calls_in_func(enc, "encrypt_data")
        ok = len(ed) == 1 and re.match(r"^(\w+\.)*create_encryptor\((\w+\.)*mutable_rwcap_key_hash\([^()]*(\([^()]*\)[^()]*)*\)\)$",
                                       en.norm(arg(ed[0], 0))) is not None
        r.require(ok, enc, enc.loc(), "writer does not encrypt with create_encryptor(key) and the default IV")
        maker = {"decrypt_data": "create_decryptor", "encrypt_data": "create_encryptor"}[call_tail(dd[0])]
        s0 = dn.norm(arg(dd[0], 0))
        r.require(re.match(r"^(\w+\.)*%s\((\w+\.)*mutable_rwcap_key_hash\([^()]*(\([^()]*\)[^()]*)*\)\)$" % maker, s0) is not None,
                  dec, dec.loc(dd[0]), "reader does not decrypt with %s(key) and the default IV: %s" % (maker, s0))
        for n in reachable_returns(dec):
            v = resolve(dec, n.ast.value) if n.ast.value is not None else None
            r.require(v is dd[0], dec, dec.loc(n.ast), "_decrypt_rwcapdata returns %s, not the decrypted ciphertext" % src(dec, v))

    # -- 4. names are normalised at every store -------------------------------
    with ctx.rule("C19.4", "R3", "every key stored into / deleted from a children dict in dirnode.py is normalize(..) "
                  "(or self.name bound to normalize(..) in __init__)", expected=6) as r:
        funcs = [f for f in idx.funcs.values() if f.module is dmod]

        NORM_CALL = r"^normalize\([^()]*(\([^()]*\)[^()]*)*\)$"

        def ctor_arg_normalised(ci, init, v):
            """`self.attr = v` in ci.__init__ where v is a constructor parameter that reaches the store unchanged:
            True iff the class is only ever constructed by direct calls (never passed around as a value, no
            subclass, no *args / **kwargs) and every such call in the package hands in normalize(..)."""
            if not isinstance(v, ast.Name) or v.id not in init.params:
                return False
            a = init.node.args
            if a.vararg is not None or a.kwarg is not None or a.posonlyargs:
                return False
            names = [x.arg for x in a.args]
            if not names or v.id not in names[1:] or ci.lookup("__init__") is not init:
                return False
            # the parameter is not rebound before (or after) the store
            for x in func_own_nodes(init, into_lambda=True):
                if isinstance(x, ast.Name) and x.id == v.id and not isinstance(x.ctx, ast.Load):
                    return False
            if any(isinstance(x, (ast.Global, ast.Nonlocal)) for x in func_own_nodes(init)) or init.nested:
                return False
            if idx.subclasses(ci) or "__new__" in ci.methods:
                return False
            cgx = get_callgraph(idx)
            if cgx.refs_named(ci.name):
                return False
            sites = cgx.calls_named(ci.name)
            if not sites:
                return False
            pos = names.index(v.id) - 1
            for cs in sites:
                c = cs.call
                if any(isinstance(x, ast.Starred) for x in c.args) or any(kw.arg is None for kw in c.keywords):
                    return False
                av = arg(c, pos, v.id)
                if av is None:
                    return False
                try:
                    cn = node_of(cs.fn.cfg(), c)
                    s2 = FlowNorm(cs.fn).norm(cn, av)
                except Exception:
                    return False
                if re.match(NORM_CALL, s2):
                    continue
                # a local rebound to normalize(..) (also `namex = normalize(namex)`): every definition of the name
                # that reaches the construction is such an assignment
                if not isinstance(av, ast.Name):
                    return False
                try:
                    cfg2 = cs.fn.cfg()
                    rd = reaching_defs(cfg2).get(cn.id, {}).get(av.id)
                    fn2 = FlowNorm(cs.fn)
                    if not rd:
                        return False
                    for d in rd:
                        dn = cfg2.nodes[d] if isinstance(d, int) and 0 <= d < len(cfg2.nodes) else None
                        if dn is None or dn.id != d or dn.kind != "stmt" or not isinstance(dn.ast, ast.Assign) \
                                or len(dn.ast.targets) != 1 or attr_path(dn.ast.targets[0]) != av.id \
                                or not re.match(NORM_CALL, fn2.norm(dn, dn.ast.value)):
                            return False
                except Exception:
                    return False
            return True
        for f in funcs:
            conts = set()
            for c in calls_in_func(f):
                if call_tail(c) in ("_pack_contents", "_pack_normalized_children"):
                    a0 = arg(c, 0, "children")
                    if isinstance(a0, ast.Name) and a0.id not in f.params:
                        conts.add(a0.id)
            if f.name == "_unpack_contents":
                fdefs = def_exprs(f)
                for n in reachable_returns(f):
                    v = n.ast.value
                    for _hop in range(4):          # rv = children; return rv
                        if isinstance(v, ast.Name):
                            conts.add(v.id)
                            ds = [d for d in fdefs.get(v.id, []) if isinstance(d, ast.Name)]
                            if len(ds) == 1 and len(fdefs.get(v.id, [])) == 1:
                                v = ds[0]
            if not conts:
                continue
            fnm = FlowNorm(f)
            for n in f.cfg().nodes:
                a = n.ast
                keys = []
                if n.kind == "stmt" and isinstance(a, (ast.Assign, ast.Delete, ast.AugAssign)):
                    ts = a.targets if not isinstance(a, ast.AugAssign) else [a.target]
                    for t in ts:
                        for x in ast.walk(t):
                            if isinstance(x, ast.Subscript) and isinstance(x.ctx, (ast.Store, ast.Del)) \
                                    and attr_path(x.value) in conts:
                                keys.append(x.slice)
                for c in node_calls(n):
                    if call_tail(c) in ("set_with_aux", "setdefault", "__setitem__") and isinstance(c.func, ast.Attribute) \
                            and attr_path(c.func.value) in conts and c.args:
                        keys.append(c.args[0])
                    if call_tail(c) == "update" and isinstance(c.func, ast.Attribute) and attr_path(c.func.value) in conts:
                        r.violation(f, f.loc(c), "children dict is bulk-updated with keys that were not normalised: %s"
                                    % src(f, c))
                for k in keys:
                    r.site(f, k, "key")
                    s = fnm.norm(n, k)
                    if re.match(r"^normalize\(.+\)$", s):
                        continue
                    m = re.match(r"^self\.(\w+)$", s)
                    if m and f.cls is not None:
                        attr = m.group(1)
                        sts, vals = [], []
                        for g in f.cls.methods.values():
                            for st in func_own_nodes(g):
                                if isinstance(st, ast.Attribute) and isinstance(st.ctx, (ast.Store, ast.Del)) \
                                        and attr_path(st) == "self." + attr:
                                    sts.append((g, st))
                                if isinstance(st, ast.Assign) and any(attr_path(t) == "self." + attr for t in st.targets):
                                    vals.append((g, st.value))
                        ok = bool(vals) and len(vals) == len(sts) and all(
                            g.name == "__init__" and re.match(r"^normalize\(.+\)$", N(g).norm(v)) for (g, v) in vals)
                        if not ok and vals and len(vals) == len(sts) and all(g.name == "__init__" for (g, _v) in vals):
                            # the constructor stores its argument as it is: the name may equally be normalised by
                            # the caller - at EVERY construction site of this modifier class in the package
                            ok = all(re.match(r"^normalize\(.+\)$", N(g).norm(v)) or ctor_arg_normalised(f.cls, g, v)
                                     for (g, v) in vals)
                        r.require(ok, f, f.loc(k), "%s.%s is used as a child name but is not bound to normalize(..) "
                                  "in the constructor" % (f.cls.name, attr))
                        continue
                    r.violation(f, f.loc(k), "child name %s (= %s) is stored without normalize()" % (src(f, k), s))

    # -- 5. deep-immutable refusal ----------------------------------------------
    with ctx.rule("C19.5", "R1", "immutable directories: append only after 'not deep_immutable or "
                  "child.is_allowed_in_immutable_directory()'; create_immutable_directory packs deep_immutable=True; "
                  "reader refuses rwcaps / mutable children in immutable directories", expected=6) as r:
        if "deep_immutable" not in pack.params:
            raise AnchorVanished("_pack_normalized_children has no deep_immutable parameter")
        # the child whose readonly cap is packed
        ro_calls = [c for c in calls_in_func(pack, "get_readonly_uri") if isinstance(c.func, ast.Attribute)]
        if not ro_calls:
            raise AnchorVanished("_pack_normalized_children no longer packs get_readonly_uri()")
        child_form = pnorm.norm(node_of(pcfg, ro_calls[0]), ro_calls[0].func.value)
        child_name = attr_path(ro_calls[0].func.value)

        def allowed(n, lab):
            f = pnorm.edge_fact(n, lab)
            if not f:
                return False
            if f[0] == "false" and f[1] == "deep_immutable":
                return True
            return f[0] == "truth" and f[1] == child_form + ".is_allowed_in_immutable_directory()"
        app_nodes = [node_of(pcfg, c) for c in appends]
        for n in app_nodes:
            r.site(pack, n.ast, "append")

        def rebinding(n):
            return n.kind == "iter" or (child_name in node_stores(n)) or ("deep_immutable" in node_stores(n))
        for (n, w) in find_path_avoiding(pcfg, lambda x: any(x is a for a in app_nodes), gate_edge=allowed, kill=rebinding):
            r.violation(pack, pack.loc(n.ast), "a child is packed into a deep-immutable directory without the "
                        "is_allowed_in_immutable_directory() refusal (path: %s)" % w.brief(), w)
        r.count(len(pcfg.nodes))
        rz = pcfg.find(raises("MustBeDeepImmutableError"))
        r.require(bool(rz), pack, pack.loc(), "_pack_normalized_children no longer raises MustBeDeepImmutableError")
        # strip_prefix_for_ro gets the same flag
        for c in calls_in_func(pack, "strip_prefix_for_ro"):
            a1 = arg(c, 1, "deep_immutable")
            r.require(attr_path(a1) == "deep_immutable", pack, pack.loc(c), "prefix stripping is told deep_immutable=%s"
                      % src(pack, a1))
        # create_immutable_directory -> pack_children(deep_immutable=True) -> _pack_normalized_children
        cid = idx.func("nodemaker:NodeMaker.create_immutable_directory")
        pcs = calls_in_func(cid, "pack_children", into_lambda=True)
        if not pcs:
            raise AnchorVanished("create_immutable_directory no longer calls pack_children")
        for c in pcs:
            r.site(cid, c, "immutable directory creation")
            di = kwarg(c, "deep_immutable") or arg(c, 2)
            r.require(isinstance(di, ast.Constant) and di.value is True, cid, cid.loc(c),
                      "immutable directory is packed with deep_immutable=%s" % (src(cid, di) if di is not None else "<default False>"))
            wk = arg(c, 1, "writekey")
            r.require(isinstance(wk, ast.Constant) and wk.value is None, cid, cid.loc(c),
                      "immutable directory is packed with writekey %s" % src(cid, wk))
        # what is uploaded is the packed string
        for c in calls_in_func(cid, "Data", into_lambda=True):
            a0 = arg(c, 0, "data")
            r.require(a0 is not None and any(x in pcs for x in closure(cid, [a0])[1]), cid, cid.loc(c),
                      "the uploaded contents of the immutable directory are %s, not the packed children"
                      % (src(cid, a0) if a0 is not None else "missing"))
        pch = idx.func("dirnode:pack_children")
        fw = calls_in_func(pch, "_pack_normalized_children")
        if not fw:
            raise AnchorVanished("pack_children no longer calls _pack_normalized_children")
        for c in fw:
            r.site(pch, c, "flag forwarded")
            di = kwarg(c, "deep_immutable") or arg(c, 2)
            r.require(attr_path(di) == "deep_immutable", pch, pch.loc(c), "pack_children drops the deep_immutable flag (%s)"
                      % (src(pch, di) if di is not None else "not passed"))
        # reader: refusal of non-empty rwcap + mutable children
        isp = inner_split[0] if inner_split else None
        ia = assign_of(unp, isp) if isp is not None else None
        try:
            rwf = ia.targets[0].elts[0].elts[2].id
        except Exception:
            raise AnchorVanished("cannot identify the rw field of the inner split in _unpack_contents")
        mk_nodes = ucfg.find(has_call("_create_and_validate_node"))
        st_nodes = [n for n in ucfg.nodes if n.kind == "stmt" and (
            any(s.endswith("[]") for s in node_stores(n)) or calls_at(n, "set_with_aux"))]
        if not mk_nodes or not st_nodes:
            raise AnchorVanished("_unpack_contents: node factory call or children store not found")

        def rw_empty(n, lab):
            f = unorm.edge_fact(n, lab)
            if not f:
                return False
            op, l, rr = f
            L = "len(%s)" % rwf
            if op == "truth" and l == "self.is_mutable()":
                return True
            if op == "false" and l in (rwf, L):
                return True
            if op == "<=" and l == L and rr == "0":
                return True
            if op == "<" and l == L and rr == "1":
                return True
            if op == "==" and {l, rr} in ({L, "0"}, {rwf, "b''"}):
                return True
            return False
        for n in mk_nodes:
            r.site(unp, n.ast, "reader: child creation")
        for (n, w) in find_path_avoiding(ucfg, lambda x: any(x is m for m in mk_nodes), gate_edge=rw_empty, kill=stores(rwf)):
            r.violation(unp, unp.loc(n.ast), "a child with a non-empty rwcap field is accepted from an immutable "
                        "directory (path: %s)" % w.brief(), w)
        for n in st_nodes:
            r.site(unp, n.ast, "reader: children store")
            a = n.ast
            if isinstance(a, ast.Assign):
                v = a.value
            else:
                c = calls_at(n, "set_with_aux")[0]
                v = arg(c, 1, "value")
            ch = unorm.norm(n, v.elts[0]) if isinstance(v, ast.Tuple) and v.elts else None

            def child_ok(m, lab, _ch=ch):
                f = unorm.edge_fact(m, lab)
                if not f or f[0] != "truth":
                    return False
                return f[1] == "self.is_mutable()" or (_ch is not None and f[1] == _ch + ".is_allowed_in_immutable_directory()")
            for (t, w) in find_path_avoiding(ucfg, lambda x, _n=n: x is _n, gate_edge=child_ok,
                                             kill=lambda x: any(x is m for m in mk_nodes)):
                r.violation(unp, unp.loc(t.ast), "a child is listed from an immutable directory without "
                            "is_allowed_in_immutable_directory() (path: %s)" % w.brief(), w)
        cv = idx.func(DN + "._create_and_validate_node")
        for c in calls_in_func(cv, "create_from_cap"):
            di = kwarg(c, "deep_immutable") or arg(c, 2)
            r.require(di is not None and N(cv).cmp(di, True) == ("false", "self.is_mutable()", None), cv, cv.loc(c),
                      "children of this directory are created with deep_immutable=%s"
                      % (src(cv, di) if di is not None else "<default False>"))

    # -- 6. unknown-cap prefixes --------------------------------------------------
    with ctx.rule("C19.6", "R1", "unknown caps: a prefix is stripped only after startswith(that prefix); 'imm.' is kept "
                  "only when not deep_immutable; UnknownNode adds / converts prefixes under the matching tests",
                  expected=9) as r:
        sp = idx.func("unknown:strip_prefix_for_ro")
        scfg = sp.cfg()
        sn = FlowNorm(sp)
        p0 = first_positional_params(sp)[0]
        # a string starts with at most one of the two alleged prefixes (they are required to be prefix-free below)
        DISJ = {IMM_P: {RO_P}, RO_P: {IMM_P}}
        for n in reachable_returns(sp):
            v = n.ast.value
            r.site(sp, n.ast, "strip return")
            if v is not None and sn.norm(n, v) == p0:
                continue
            m = re.match(r"^%s\[len\((\w+)\):\]$" % re.escape(p0), sn.norm(n, v) if v is not None else "")
            if not m:
                r.violation(sp, sp.loc(n.ast), "strip_prefix_for_ro returns %s" % src(sp, v))
                continue
            pref = m.group(1)

            for (facts, w) in prefix_knowledge(scfg, sn, p0, n, DISJ):
                if not pfx_found(facts, p0, lambda p_, _p=pref: p_ == _p):
                    r.violation(sp, sp.loc(n.ast), "len(%s) bytes are stripped from a cap that was not tested to start "
                                "with %s" % (pref, pref), w)
                    break
        # returning an imm.-prefixed cap unchanged only when not deep_immutable; stripping imm. only when deep_immutable

        for n in reachable_returns(sp):
            v = n.ast.value
            # is this return on the imm. branch?
            on_imm = all(pfx_found(facts, p0, lambda p_: p_ == IMM_P) for (facts, _w) in prefix_knowledge(scfg, sn, p0, n, DISJ))
            if not on_imm:
                continue
            unchanged = v is not None and sn.norm(n, v) == p0
            want = ("false" if unchanged else "truth", "deep_immutable", None)
            for (t, w) in find_path_avoiding(scfg, lambda x, _n=n: x is _n, gate_edge=lambda x, lab, _w=want: sn.edge_fact(x, lab) == _w):
                r.violation(sp, sp.loc(t.ast), "'imm.' prefix is %s without the matching deep_immutable test"
                            % ("kept" if unchanged else "stripped"), w)
        # UnknownNode.__init__: stores of self.ro_uri
        u = idx.func("unknown:UnknownNode.__init__")
        ucf = u.cfg()
        un2 = FlowNorm(u, depth=0)
        for n in ucf.find(stores("self.ro_uri")):
            a = n.ast
            if not isinstance(a, ast.Assign):
                continue
            v = a.value
            if isinstance(v, ast.Constant) and v.value is None:
                continue
            r.site(u, a, "ro_uri store")
            parts = flat_add(v)
            if len(parts) == 1 and isinstance(parts[0], ast.Name):
                x = parts[0].id
                # stored as given: must already carry a prefix

                for (facts, w) in prefix_knowledge(ucf, un2, x, n, DISJ):
                    if not pfx_found(facts, x, lambda p_: re.match(r"^ALLEGED_\w+_PREFIX$", p_) is not None):
                        r.violation(u, u.loc(n.ast), "an unknown ro cap is stored without a prefix and without having "
                                    "tested that it carries one", w)
                        break
                continue
            if len(parts) == 2 and isinstance(parts[0], ast.Name):
                added = parts[0].id
                s1 = un2.norm(n, parts[1])
                m = re.match(r"^(\w+)\[len\((\w+)\):\]$", s1)
                if m:
                    x, stripped = m.group(1), m.group(2)

                    for (facts, w) in prefix_knowledge(ucf, un2, x, n, DISJ):
                        if not pfx_found(facts, x, lambda p_, _p=stripped: p_ == _p):
                            r.violation(u, u.loc(n.ast), "prefix %s is cut off a cap not tested to start with it" % stripped, w)
                            break
                    continue
                if isinstance(parts[1], ast.Name):
                    x = parts[1].id

                    for (facts, w) in prefix_knowledge(ucf, un2, x, n, DISJ):
                        if (x, added, False) not in facts:
                            r.violation(u, u.loc(n.ast), "prefix %s may be added to a cap that already carries it" % added, w)
                            break
                    continue
            r.violation(u, u.loc(a), "unrecognised form of ro_uri store: %s" % src(u, v))
        # prefix constants: dirnode/unknown use uri's constants (folded for the evidence)
        try:
            ro_p = get_folder(idx).module_const("uri", "ALLEGED_READONLY_PREFIX")
            im_p = get_folder(idx).module_const("uri", "ALLEGED_IMMUTABLE_PREFIX")
        except AnalysisError:
            raise
        r.require(ro_p != im_p and not ro_p.startswith(im_p) and not im_p.startswith(ro_p), sp, sp.loc(),
                  "prefixes %r / %r are not prefix-free" % (ro_p, im_p))

    # -- 7./8. the deep-immutable predicate of every node class --------------------
    pe = PredEval()
    impls = sorted((ci for ci in idx.classes.values() if ALLOWED in ci.methods and not ci.is_subclass_of("Interface")),
                   key=lambda c: c.qual)
    if not impls:
        raise AnchorVanished("no class implements %s()" % ALLOWED)
    # the class under analysis: the implementing class and every subclass that inherits the implementation
    targets = []
    for ci in impls:
        fn = ci.methods[ALLOWED]
        for k in [ci] + sorted(idx.subclasses(ci), key=lambda c: c.qual):
            if k.lookup(ALLOWED) is fn:
                targets.append((k, fn))

    def need(k, name):
        m = k.lookup(name)
        if m is None:
            raise AnchorVanished("node class %s has %s() but no %s()" % (k.name, ALLOWED, name))
        if len(m.params) != 1:
            raise AnalysisError("%s.%s takes parameters" % (k.name, name))
        return m

    def kind_of(k, rows, col):
        vals = {v[col] for (_row, v) in rows}
        if vals == {RAISES}:
            return "unknown"
        if RAISES in vals:
            raise AnalysisError("%s.is_mutable() raises for some states only" % k.name)
        return "known"

    def feasible(k, m, row):
        """Rows that cannot occur: contradicting the declared interface (IMutableFileNode: always mutable), or an
        object that is neither mutable nor read-only (immutable caps carry no write authority)."""
        for x in row:
            if x.endswith(".is_mutable()") and not row[x] and row.get(x[:-len("is_mutable()")] + "is_readonly()") is False:
                return False
        ifs = implemented_interfaces(k)
        if "IMutableFileNode" in ifs and m is False:
            return False
        if "IImmutableFileNode" in ifs and m is True:
            return False
        return True

    with ctx.rule("C19.7", "R5", "every node class answers is_allowed_in_immutable_directory() == not is_mutable() "
                  "(unknown nodes: == raise_error() passes and no write cap), so that the writer's refusal and the "
                  "reader's filter both mean deep-immutable", expected=6) as r:
        reported = set()

        def report(fn, key, msg):
            if (fn.qual, key) not in reported:
                reported.add((fn.qual, key))
                r.violation(fn, fn.loc(), msg)
        for (k, fn) in targets:
            if k.methods.get(ALLOWED) is fn:
                r.site(fn, None, k.name)
            if len(fn.params) != 1:
                raise AnalysisError("%s takes parameters" % short(fn))
            mut = need(k, "is_mutable")
            ev_a = lambda env, _k=k, _f=fn: pe.run(_k, _f, env)
            ev_m = lambda env, _k=k, _f=mut: pe.run(_k, _f, env)
            _lv, rows = pe.rows([ev_a, ev_m])
            r.count(len(rows))
            if kind_of(k, rows, 1) == "known":
                for (row, (a, m)) in rows:
                    if not feasible(k, m, row):
                        continue
                    if a is RAISES:
                        report(fn, "raises", "%s.%s() raises when %s" % (k.name, ALLOWED, show_row(row)))
                    elif a and m:
                        report(fn, "allowed-mutable", "%s.%s() answers True for a mutable node (%s): the writer stores a "
                               "child that is not deep-immutable in an immutable directory and the reader "
                               "lists / silently drops it inconsistently" % (k.name, ALLOWED, show_row(row)))
                    elif not a and not m:
                        report(fn, "refused-immutable", "%s.%s() answers False for an immutable node (%s): immutable "
                               "directories refuse it on write and drop it on read, so it does not round-trip"
                               % (k.name, ALLOWED, show_row(row)))
            else:
                rer = need(k, "raise_error")
                gwu = need(k, "get_write_uri")
                ev_e = lambda env, _k=k, _f=rer: pe.run(_k, _f, env)
                ev_w = lambda env, _k=k, _f=gwu: pe.run(_k, _f, env)
                _lv, rows = pe.rows([ev_a, ev_e, ev_w])
                r.count(len(rows))
                for (row, (a, e, w)) in rows:
                    if w is RAISES:
                        raise AnalysisError("%s.get_write_uri() raises" % k.name)
                    if a is RAISES:
                        report(fn, "raises", "%s.%s() raises when %s" % (k.name, ALLOWED, show_row(row)))
                        continue
                    want = (e is not RAISES) and not w
                    if a and not want:
                        report(fn, "allowed-bad", "%s.%s() answers True for an unknown node that %s (%s): it is accepted "
                               "into / listed from an immutable directory" % (
                                   k.name, ALLOWED, "holds a write cap" if w else "recorded an error", show_row(row)))
                    elif want and not a:
                        report(fn, "refused-good", "%s.%s() answers False for an error-free unknown node without a write "
                               "cap (%s): alleged-immutable future caps do not round-trip through immutable "
                               "directories" % (k.name, ALLOWED, show_row(row)))

    with ctx.rule("C19.8", "R5", "is_mutable() of every node class is a constant agreeing with its declared interface, "
                  "an unconditional refusal (unknown), or exactly the is_mutable() of the object it wraps - never "
                  "another capability predicate", expected=6) as r:
        deleg = re.compile(r"^(?!self\.is_mutable\(\)$).+\.is_mutable\(\)$")
        done = set()
        for (k, _fn) in targets:
            mut = need(k, "is_mutable")
            if (k.qual, mut.qual) in done:
                continue
            done.add((k.qual, mut.qual))
            r.site(mut, None, k.name)
            lv, rows = pe.rows([lambda env, _k=k, _f=mut: pe.run(_k, _f, env)])
            r.count(len(rows))
            if kind_of(k, rows, 0) == "unknown":
                continue
            vals = {v[0] for (_row, v) in rows}
            ifs = implemented_interfaces(k)
            if len(vals) == 1:
                (c,) = vals
                if c and "IImmutableFileNode" in ifs:
                    r.violation(mut, mut.loc(), "%s provides IImmutableFileNode but is_mutable() is always True: the "
                                "reader treats such children as mutable and immutable directories lose them" % k.name)
                if not c and "IMutableFileNode" in ifs:
                    r.violation(mut, mut.loc(), "%s provides IMutableFileNode but is_mutable() is always False: mutable "
                                "children pass for deep-immutable" % k.name)
                continue
            if any(deleg.match(x) and all(v[0] == row[x] for (row, v) in rows) for x in lv):
                continue
            others = [x for x in lv if not deleg.match(x) and any(
                v[0] != v2[0] for (row, v) in rows for (row2, v2) in rows
                if row[x] != row2[x] and all(row[y] == row2[y] for y in lv if y != x))]
            if others and all(re.search(r"\.\w+\(\)$", x) for x in others):
                r.violation(mut, mut.loc(), "%s.is_mutable() is answered by %s instead of the mutability of the wrapped "
                            "object: read-only and immutable are conflated, so the directory reader / the immutable "
                            "refusal misjudge this node" % (k.name, ", ".join(others)))
            elif not others and any(deleg.match(x) for x in lv):
                r.violation(mut, mut.loc(), "%s.is_mutable() is not the is_mutable() of the wrapped object (inverted or "
                            "combined: depends on %s)" % (k.name, ", ".join(lv)))
            else:
                raise AnalysisError("cannot decide what %s.is_mutable() depends on (%s)" % (k.name, ", ".join(lv)))

    # -- 9. writer: nothing is lost or misplaced on the way into the cap slots -------
    with ctx.rule("C19.9", "R1", "writer: a cap taken from the child is replaced by the empty default only when it is "
                  "None; the rw slot is the empty netstring only when there is no writekey; _encrypt_rw_uri gets "
                  "(writekey, write cap); child.raise_error() precedes every append; the immutable refusal fires only "
                  "for deep_immutable and a child that is not allowed", expected=5) as r:
        ro_calls = [c for c in calls_in_func(pack, "get_readonly_uri") if isinstance(c.func, ast.Attribute)]
        rw_calls = [c for c in calls_in_func(pack, "get_write_uri") if isinstance(c.func, ast.Attribute)]
        if not ro_calls or not rw_calls:
            raise AnchorVanished("_pack_normalized_children no longer reads get_write_uri() / get_readonly_uri()")
        child_form = pnorm.norm(node_of(pcfg, ro_calls[0]), ro_calls[0].func.value)
        child_name = attr_path(ro_calls[0].func.value)

        def rebinding(n):
            return n.kind == "iter" or (child_name in node_stores(n))
        # (a) default stores
        for getter in rw_calls + ro_calls:
            gnode = node_of(pcfg, getter)
            r.site(pack, getter, "cap read")
            a = gnode.ast
            if not (isinstance(a, ast.Assign) and len(a.targets) == 1 and isinstance(a.targets[0], ast.Name)):
                continue                      # used inline: no variable to overwrite
            var = a.targets[0].id
            forms = {var, pnorm.norm(gnode, getter)}
            tail = call_tail(getter)
            for n in pcfg.nodes:
                if n.kind != "stmt" or n is gnode or var not in node_stores(n) or not isinstance(n.ast, ast.Assign):
                    continue
                nm, cl, _ = closure(pack, [n.ast.value])
                if var in nm or any(call_tail(c) == tail for c in cl):
                    continue                  # derived from the cap itself
                hits = find_path_avoiding(pcfg, lambda x, _n=n: x is _n,
                                          gate_edge=lambda x, lab, _f=forms: is_none_fact(pnorm.edge_fact(x, lab), _f),
                                          kill=lambda x, _v=var, _n=n: x is not _n and _v in node_stores(x))
                for (t, w) in hits:
                    r.violation(pack, pack.loc(t.ast), "the child's %s() is overwritten by %s although it was not "
                                "tested to be None: the cap is not stored (path: %s)"
                                % (tail, src(pack, n.ast.value), w.brief()), w)
        # (b) plain rw slot only without a writekey; (c) argument roles of the encryption
        encs = calls_in_func(pack, "_encrypt_rw_uri")
        if not encs:
            raise AnchorVanished("_pack_normalized_children no longer calls _encrypt_rw_uri")
        if "writekey" not in pack.params:
            raise AnchorVanished("_pack_normalized_children has no writekey parameter")
        for c in encs:
            r.site(pack, c, "rw cap encryption")
            a0, a1 = arg(c, 0, "writekey"), arg(c, 1, "rw_uri")
            ok = a0 is not None and a1 is not None
            if ok:
                n0, c0, _ = closure(pack, [a0])
                n1, c1, _ = closure(pack, [a1])
                ok = "writekey" in n0 and not any(call_tail(x) == "get_write_uri" for x in c0) \
                    and any(call_tail(x) == "get_write_uri" for x in c1) and "writekey" not in n1
            r.require(ok, pack, pack.loc(c), "the rw slot is produced by %s, expected _encrypt_rw_uri(writekey, "
                      "<the child's write cap>)" % src(pack, c))
        enc_nodes = [node_of(pcfg, c) for c in encs]
        rw_vars = set()
        for n in enc_nodes:
            if isinstance(n.ast, ast.Assign):
                rw_vars |= {t.id for t in n.ast.targets if isinstance(t, ast.Name)}
        if not rw_vars:
            ctx.note("C19.9: the rw slot is not built in a variable; 'plain only without writekey' is not decided")

        def no_key(x, lab):
            return is_none_fact(pnorm.edge_fact(x, lab), {"writekey"})
        for n in pcfg.nodes:
            if n.kind == "stmt" and isinstance(n.ast, ast.Assign) and (rw_vars & node_stores(n)) \
                    and not any(n is e for e in enc_nodes):
                r.site(pack, n.ast, "plain rw slot")
                for (t, w) in find_path_avoiding(pcfg, lambda x, _n=n: x is _n, gate_edge=no_key,
                                                 kill=lambda x: "writekey" in node_stores(x)):
                    r.violation(pack, pack.loc(t.ast), "the rw slot is written as %s although a writekey is present: "
                                "the children's write caps are dropped from the directory (path: %s)"
                                % (src(pack, n.ast.value), w.brief()), w)
        # (d) raise_error() before the append
        app_nodes = [node_of(pcfg, c) for c in appends]

        def checks_error(n):
            return any(isinstance(c.func, ast.Attribute) and pnorm.norm(n, c.func.value) == child_form
                       for c in calls_at(n, "raise_error"))
        for n in app_nodes:
            r.site(pack, n.ast, "append")
        # children arriving in an AuxValueDict come from _unpack_contents (validated by the node factory) or were put
        # there by Adder.modify: when that checks raise_error() itself, the writer need not repeat it for them
        adder = idx.func("dirnode:Adder.modify")
        acfg = adder.cfg()
        a_st = [n for n in acfg.nodes if n.kind == "stmt" and isinstance(n.ast, ast.Assign) and
                any(isinstance(t, ast.Subscript) for t in n.ast.targets)]
        adder_checks = bool(a_st) and not find_path_avoiding(
            acfg, lambda x: any(x is a for a in a_st), gate_node=lambda x: bool(calls_at(x, "raise_error")),
            kill=lambda x: x.kind == "iter")
        cparam = first_positional_params(pack)[0]

        def prechecked(x, lab):
            return adder_checks and pnorm.edge_fact(x, lab) == ("truth", "isinstance(%s, AuxValueDict)" % cparam, None)
        for (t, w) in find_path_avoiding(pcfg, lambda x: any(x is a for a in app_nodes), gate_node=checks_error,
                                         gate_edge=prechecked, kill=rebinding):
            r.violation(pack, pack.loc(t.ast), "a child is packed without child.raise_error(): a child whose cap failed "
                        "its constraint is stored as an entry with empty caps instead of being refused (path: %s)"
                        % w.brief(), w)
        # (e) the refusal fires only for deep_immutable and a child that is not allowed
        rz = pcfg.find(raises("MustBeDeepImmutableError"))
        for n in rz:
            r.site(pack, n.ast, "refusal")
            for (what, gate) in (
                    ("deep_immutable", lambda x, lab: pnorm.edge_fact(x, lab) == ("truth", "deep_immutable", None)),
                    ("not is_allowed_in_immutable_directory()", lambda x, lab: pnorm.edge_fact(x, lab) == (
                        "false", child_form + ".is_allowed_in_immutable_directory()", None))):
                for (t, w) in find_path_avoiding(pcfg, lambda x, _n=n: x is _n, gate_edge=gate, kill=rebinding):
                    r.violation(pack, pack.loc(t.ast), "MustBeDeepImmutableError is raised without having tested '%s': "
                                "mutable children can no longer be packed into mutable directories (path: %s)"
                                % (what, w.brief()), w)

    # -- 10. reader: every parsed entry reaches the result with its caps ---------------
    with ctx.rule("C19.10", "R1", "reader: only an empty string yields the early empty result; the rw field is "
                  "decrypted unless the directory is read-only; the cap slots of the node factory are not "
                  "unconditionally empty; an entry of a mutable directory / an allowed child is always stored",
                  expected=4) as r:
        conts = {attr_path(k_t) for k_t in
                 [t.value for n in ucfg.nodes if n.kind == "stmt" and isinstance(n.ast, ast.Assign)
                  for t in n.ast.targets if isinstance(t, ast.Subscript)]} - {None}
        if not conts:
            raise AnchorVanished("_unpack_contents no longer stores into a children container")
        # (a) returns
        for n in reachable_returns(unp):
            v = n.ast.value
            r.site(unp, n.ast, "return")
            for _hop in range(4):              # follow plain copies (rv = children; return rv)
                if isinstance(v, ast.Name) and v.id not in conts and len(udefs.get(v.id, [])) == 1:
                    v = udefs[v.id][0]
            if isinstance(v, ast.Name) and v.id in conts:
                continue
            empty_ctor = (isinstance(v, ast.Call) and not v.args and not v.keywords) or \
                (isinstance(v, ast.Dict) and not v.keys)
            r.require(empty_ctor, unp, unp.loc(n.ast), "_unpack_contents returns %s, not the parsed children or an empty "
                      "container" % (src(unp, v) if v is not None else "None"))
            for (t, w) in find_path_avoiding(ucfg, lambda x, _n=n: x is _n,
                                             gate_edge=lambda x, lab: is_empty_fact(unorm.edge_fact(x, lab), dparam),
                                             kill=stores(dparam)):
                r.violation(unp, unp.loc(t.ast), "an empty result is returned for contents not tested to be empty: the "
                            "directory lists no children (path: %s)" % w.brief(), w)
        # (b) decryption unless read-only
        mk_nodes = ucfg.find(has_call("_create_and_validate_node"))
        dec_nodes = ucfg.find(has_call("_decrypt_rwcapdata"))
        osp_nodes = [node_of(ucfg, c) for c in outer_split]
        if not mk_nodes or not dec_nodes or not osp_nodes:
            raise AnchorVanished("_unpack_contents: node factory call, rwcap decryption or outer split not found")

        def readonly(x, lab):
            f = unorm.edge_fact(x, lab)
            if not f:
                return False
            if f[0] == "truth" and re.match(r"^self(\._node)?\.is_readonly\(\)$", f[1]):
                return True
            return is_none_fact(f, {"self._node.get_writekey()"})
        for n in dec_nodes:
            r.site(unp, n.ast, "decryption")
        for (t, w) in find_path_avoiding(ucfg, lambda x: any(x is m for m in mk_nodes),
                                         gate_node=lambda x: any(x is d for d in dec_nodes), gate_edge=readonly,
                                         kill=lambda x: any(x is o for o in osp_nodes)):
            r.violation(unp, unp.loc(t.ast), "a child is created without decrypting its rw field although the directory "
                        "was not tested to be read-only: write caps are lost when a writeable directory is read "
                        "(path: %s)" % w.brief(), w)
        # (c) the cap slots handed to the factory can be non-empty
        for c in calls_in_func(unp, "_create_and_validate_node"):
            r.site(unp, c, "factory slots")
            for (slot, a) in (("rw", arg(c, 0, "rw_uri")), ("ro", arg(c, 1, "ro_uri"))):
                if a is None:
                    r.violation(unp, unp.loc(c), "the node factory is called without a %s slot" % slot)
                    continue
                todo, seen_n = [a], set()
                while todo:
                    x = todo.pop()
                    if never_truthy(x) and not isinstance(x, ast.Constant):
                        r.violation(unp, unp.loc(x), "the %s slot of the node factory is computed by %s, which is empty "
                                    "whatever the entry holds: the cap is lost" % (slot, src(unp, x)))
                    for nm in names_in(x):
                        if nm not in seen_n:
                            seen_n.add(nm)
                            todo.extend(d for d in udefs.get(nm, []) if not isinstance(d, ast.Call)
                                        or call_tail(d) != "split_netstring")
        # (d) mutable directory / allowed child => stored
        st_nodes = [n for n in ucfg.nodes if n.kind == "stmt" and (
            any(s.endswith("[]") and s[:-2] in conts for s in node_stores(n)) or calls_at(n, "set_with_aux"))]
        if not st_nodes:
            raise AnchorVanished("_unpack_contents: children store not found")
        ends = lambda x: any(x is o for o in osp_nodes) or is_return(x) or x is ucfg.exit

        def keep(x, lab):
            f = unorm.edge_fact(x, lab)
            return bool(f) and f[0] == "truth" and (f[1] == "self.is_mutable()" or
                                                    f[1].endswith(".is_allowed_in_immutable_directory()"))
        for m in mk_nodes:
            r.site(unp, m.ast, "child creation")

            def transfer(x, lab, nxt, st):
                if lab == "exc" or nxt is ucfg.raise_exit:
                    return None
                if any(x is s for s in st_nodes):
                    return None
                if x is not m and ends(x):
                    return None
                return 1 if (st or keep(x, lab)) else 0
            visited, parent = explore(ucfg, 0, transfer, start=m)
            r.count(len(visited))
            for (nid, st) in sorted(visited):
                x = ucfg.nodes[nid]
                if st and x is not m and ends(x):
                    w = witness(ucfg, parent, (nid, st))
                    r.violation(unp, unp.loc(m.ast), "an entry of a mutable directory (or a child that is allowed in an "
                                "immutable one) can be skipped without being stored: it silently disappears from the "
                                "listing (path: %s)" % w.brief(), w)
                    break

        # (e) the reader's refusal of rw fields fires only for immutable directories with a non-empty rw field
        #     and the factory hands back the node it created
        try:
            rwf = assign_of(unp, inner_split[0]).targets[0].elts[0].elts[2].id
        except Exception:
            raise AnchorVanished("cannot identify the rw field of the inner split in _unpack_contents")
        mk_ids = {m.id for m in mk_nodes}
        for n in ucfg.find(is_raise):
            if n.id not in ucfg.reachable_nodes():
                continue
            # only raises between the split and the node factory (the entry-level refusal)
            if find_path_avoiding(ucfg, lambda x, _n=n: x is _n, gate_node=lambda x: x.id in mk_ids):
                r.site(unp, n.ast, "rw-field refusal")
                for (what, gate) in (
                        ("the directory is immutable",
                         lambda x, lab: unorm.edge_fact(x, lab) == ("false", "self.is_mutable()", None)),
                        ("the rw field is not empty", lambda x, lab: (lambda f: bool(f) and (
                            (f[0] == "truth" and f[1] in (rwf, "len(%s)" % rwf)) or
                            (f[0] == "<" and f[1] == "0" and f[2] == "len(%s)" % rwf) or
                            (f[0] == "<=" and f[1] == "1" and f[2] == "len(%s)" % rwf) or
                            (f[0] == "!=" and {f[1], f[2]} in ({"0", "len(%s)" % rwf}, {"b''", rwf}))))(
                                unorm.edge_fact(x, lab)))):
                    for (t, w) in find_path_avoiding(ucfg, lambda x, _n=n: x is _n, gate_edge=gate,
                                                     kill=lambda x: any(x is o for o in osp_nodes)):
                        r.violation(unp, unp.loc(t.ast), "an entry is refused (%s) without having tested that %s: "
                                    "directories that are fine can no longer be listed (path: %s)"
                                    % (src(unp, n.ast)[:60], what, w.brief()), w)
        cv = idx.func(DN + "._create_and_validate_node")
        cvn = FlowNorm(cv)
        made = calls_in_func(cv, "create_from_cap")
        if not made:
            raise AnchorVanished("_create_and_validate_node no longer calls create_from_cap")
        cv_rets = reachable_returns(cv)
        r.require(bool(cv_rets), cv, cv.loc(), "_create_and_validate_node returns nothing: the directory lists a child "
                  "that is not a node")
        for n in cv_rets:
            v = cvn.resolve(n, n.ast.value) if n.ast.value is not None else None
            r.require(any(v is c for c in made), cv, cv.loc(n.ast), "_create_and_validate_node returns %s, not the node it "
                      "created: the directory lists a child that is not a node"
                      % (src(cv, n.ast.value) if n.ast.value is not None else "None"))

    # -- 11. UnknownNode.__init__ over every combination of its inputs -------------------
    with ctx.rule("C19.11", "R5", "UnknownNode(rw, ro, deep_immutable): a write cap given for an immutable directory is "
                  "refused, rw_uri stays None there, a recorded constraint error is never ignored, every acceptable "
                  "combination keeps its caps in the right slots, and caps are dropped only with an error", expected=1) as r:
        u = idx.func("unknown:UnknownNode.__init__")
        r.site(u, None)
        ie = InitEval(u)
        lv = list(INIT_LEAVES)
        while True:
            rows, extra = [], []
            for bits in itertools.product((False, True), repeat=len(lv)):
                env = _TT(zip(lv, bits))
                out = ie.run(env)
                if env.missing:
                    extra = [k for k in env.missing if k not in lv]
                    break
                rows.append((dict(env), (out,)))
            if not extra:
                break
            lv.extend(extra)
            if len(lv) > 11:
                raise AnalysisError("UnknownNode.__init__ tests more than 11 independent conditions: %s" % lv)
        r.count(len(rows))
        seen_msgs = set()

        def report(key, msg, row):
            if key not in seen_msgs:
                seen_msgs.add(key)
                r.violation(u, u.loc(), "%s (inputs: %s)" % (msg, ", ".join(k for k in INIT_LEAVES if row.get(k)) or "none"))
        for (row, (out,)) in rows:
            rw, ro, deep = row[L_RW], row[L_RO], row[L_DEEP]
            rwI, rwR = row["rw.startswith(%s)" % IMM_P], row["rw.startswith(%s)" % RO_P]
            roI, roR = row["ro.startswith(%s)" % IMM_P], row["ro.startswith(%s)" % RO_P]
            if (rwI and rwR) or (roI and roR) or (not rw and (rwI or rwR)) or (not ro and (roI or roR)):
                continue                                   # prefix-free prefixes / tests of an absent cap
            if row[L_ERR] and not row[L_UNK]:
                continue
            E = row[L_UNK] and row[L_ERR]
            if out is CRASH:
                report("crash", "UnknownNode() fails with an exception or leaves error/rw_uri/ro_uri unset: the directory "
                       "holding such an entry cannot be listed", row)
                continue
            err, v_rw, v_ro = out["error"], out["rw"], out["ro"]
            if deep and rw and not (rwI and not ro) and not err:
                report("R1", "a write cap offered for an immutable directory is not refused", row)
            if deep and v_rw is not None:
                report("R2", "rw_uri is set on a child of an immutable directory", row)
            if E and v_ro is not None and not err:
                report("R3", "the read cap failed its constraint (UnknownURI.get_error()) but is stored without "
                       "recording the error", row)
            want = None
            if not E:
                if not rw and ro:
                    want = (None, ("cap", "ro"))
                elif rw and ro and not deep and not roI:
                    want = (("cap", "rw"), ("cap", "ro"))
                elif rw and not ro and (rwI or (rwR and not deep)):
                    want = (None, ("cap", "rw"))
            if want is not None and (err or (v_rw, v_ro) != want):
                report("R4", "an acceptable combination of caps is %s: unknown caps do not round-trip through a "
                       "directory" % ("refused" if err else "stored as rw_uri=%s ro_uri=%s, expected rw_uri=%s ro_uri=%s"
                                      % (v_rw, v_ro, want[0], want[1])), row)
            if (rw or ro) and v_rw is None and v_ro is None and not err:
                report("R5", "the given caps are dropped without recording an error", row)

    # -- 12. uri.from_string accepts every cap kind in every context that permits it ------------
    with ctx.rule("C19.12", "R5", "uri.from_string, interpreted on a well-formed cap string of every cap class x {no prefix, "
                  "'ro.', 'imm.'} x deep_immutable: a kind the context permits (immutable kinds always; read-only "
                  "mutable kinds unless 'imm.'/deep_immutable; writeable kinds only bare in a mutable context) is parsed "
                  "as its class without an error, and a mutable kind in an immutable context carries an error",
                  expected=18) as r:
        fs = idx.func("uri:from_string")
        umod = fs.module
        folder = get_folder(idx)
        if "deep_immutable" not in fs.params:
            raise AnchorVanished("uri.from_string has no deep_immutable parameter")
        ro_p = folder.module_const("uri", "ALLEGED_READONLY_PREFIX")
        im_p = folder.module_const("uri", "ALLEGED_IMMUTABLE_PREFIX")
        kinds = []
        for ci in sorted((c for c in idx.classes.values() if c.module is umod), key=lambda c: c.qual):
            if ci.lookup("init_from_string") is None or ci.lookup_attr("BASE_STRING") is None:
                continue
            try:
                base = folder.class_attr(ci, "BASE_STRING")
            except NotConstant as ex:
                raise AnalysisError("cannot fold %s.BASE_STRING: %s" % (ci.name, ex))
            if not isinstance(base, bytes) or not base:
                raise AnalysisError("%s.BASE_STRING is not a byte string" % ci.name)
            kinds.append((ci, base, const_predicate(pe, ci, "is_readonly"), const_predicate(pe, ci, "is_mutable")))
        if not kinds:
            raise AnchorVanished("no cap class with BASE_STRING and init_from_string in allmydata.uri")
        for (ci, base, k_ro, k_mut) in kinds:
            r.site(fs, None, ci.name)
            said = set()
            for deep in (False, True):
                for (pname, pfx) in (("no prefix", b""), ("'ro.'", ro_p), ("'imm.'", im_p)):
                    probe = pfx + base + b"aaaa"
                    ev = CapParseEval(folder, umod)
                    try:
                        out = ev.call(fs, [probe], {"deep_immutable": deep})
                    except _Raised as ex:
                        out = ex.exc
                    except NotConstant as ex:
                        raise AnalysisError("cannot interpret uri.from_string(%r, deep_immutable=%s): %s" % (probe, deep, ex))
                    r.count(1)
                    may_mut = not deep and pfx != im_p
                    may_write = not deep and pfx == b""
                    permitted = (not k_mut or may_mut) and (k_ro or may_write)
                    where = "%s, deep_immutable=%s" % (pname, deep)
                    if not (isinstance(out, tuple) and out and out[0] in ("parsed", "unknown", "exc")):
                        raise AnalysisError("uri.from_string(%r) gives %r: cannot classify" % (probe, out))
                    if permitted:
                        if out[0] == "parsed" and out[1] is ci:
                            continue
                        if out[0] == "parsed":
                            what = "parsed as %s" % out[1].name
                        elif out[0] == "exc":
                            what = "answered with the exception %s" % out[1]
                        elif out[1] is not None:
                            what = "turned into an UnknownURI carrying %s" % (out[1][1] if isinstance(out[1], tuple) else "an error")
                        else:
                            what = "not recognised (plain UnknownURI)"
                        key = ("refused", what)
                        if key not in said:
                            said.add(key)
                            r.violation(ci.qual, fs.loc(), "uri.from_string: a %s cap (%s...) given with %s is %s although the "
                                        "context permits this kind: such a child becomes an unknown/error node, is refused by "
                                        "pack_children or read back as something else, so the directory does not round-trip"
                                        % (ci.name, base.decode("ascii", "replace"), where, what))
                    elif k_mut and (deep or pfx == im_p):
                        if out[0] in ("unknown", "exc") and (out[0] == "exc" or out[1] is not None):
                            continue
                        key = ("accepted",)
                        if key not in said:
                            said.add(key)
                            r.violation(ci.qual, fs.loc(), "uri.from_string: a mutable %s cap given with %s comes back "
                                        "without an error: immutable directories no longer refuse mutable children"
                                        % (ci.name, where))

    # -- 13. the write key under which a new directory's initial children are packed ---------------
    with ctx.rule("C19.13", "R1", "a new mutable directory packs its initial children with the write key of the file node being "
                  "created: create_new_mutable_directory packs inside the contents callable with <node>.get_writekey() "
                  "(never deep_immutable), create_mutable_file hands that callable to create_with_keys, which stores the "
                  "derived key (the attribute get_writekey() reads) on every path before it invokes the callable with self "
                  "and uploads what it returned; pack_children forwards the key; DirectoryNode writes and reads with one "
                  "key expression", expected=7) as r:
        MFN = "mutable.filenode:MutableFileNode"
        nmf = idx.func("nodemaker:NodeMaker.create_new_mutable_directory")
        cmf = idx.func("nodemaker:NodeMaker.create_mutable_file")
        cwk = idx.func(MFN + ".create_with_keys")
        mfn = idx.cls(MFN)

        # (a) where the initial children are packed
        def enclosing_callables(root, target):
            """Lambda / nested def nodes of `root` that contain `target`, outermost first."""
            path = []

            def go(x, stack):
                if x is target:
                    path.extend(stack)
                    return True
                for ch in ast.iter_child_nodes(x):
                    st2 = stack + [ch] if isinstance(ch, (ast.Lambda, ast.FunctionDef, ast.AsyncFunctionDef)) else stack
                    if go(ch, st2):
                        return True
                return False
            go(root, [])
            return path
        pcs = calls_in_func(nmf, "pack_children", into_lambda=True)
        for nd in nmf.nested.values():
            pcs += [c for c in calls_in_func(nd, "pack_children", into_lambda=True) if c not in pcs]
        if not pcs:
            raise AnchorVanished("create_new_mutable_directory no longer calls pack_children")
        cms = calls_in_func(nmf, "create_mutable_file")
        if not cms:
            raise AnchorVanished("create_new_mutable_directory no longer calls create_mutable_file")
        cm_params = first_positional_params(cmf)
        if "contents" not in cm_params:
            raise AnchorVanished("create_mutable_file has no contents parameter")
        nm_defs = def_exprs(nmf)
        handed = []                       # callables handed to create_mutable_file as the contents
        for c in cms:
            a = arg(c, cm_params.index("contents"), "contents")
            for _hop in range(3):
                if isinstance(a, ast.Name) and a.id not in nmf.nested and len(nm_defs.get(a.id, [])) == 1:
                    a = nm_defs[a.id][0]
            if isinstance(a, ast.Name) and a.id in nmf.nested:
                a = nmf.nested[a.id].node
            handed.append(a)
        key_attr = None
        for c in pcs:
            r.site(nmf, c, "initial children packed")
            encl = enclosing_callables(nmf.node, c)
            wk = arg(c, 1, "writekey")
            di = kwarg(c, "deep_immutable") or arg(c, 2)
            r.require(di is None or (isinstance(di, ast.Constant) and di.value is False), nmf, nmf.loc(c),
                      "the initial children of a mutable directory are packed with deep_immutable=%s: mutable children are "
                      "refused" % (src(nmf, di) if di is not None else ""))
            ch0 = arg(c, 0, "childrenx")
            ip = first_positional_params(nmf)[0] if first_positional_params(nmf) else None
            r.require(ch0 is not None and ip is not None and (ip in names_in(ch0) or ip in closure(nmf, [ch0])[0]), nmf,
                      nmf.loc(c), "what is packed (%s) is not the given initial children" % (src(nmf, ch0) if ch0 is not None else "nothing"))
            cb = next((x for x in encl if any(x is h for h in handed)), None)
            if cb is None:
                r.violation(nmf, nmf.loc(c), "the initial children are packed outside the contents callable that "
                            "create_mutable_file invokes with the new file node (writekey %s): the node's write key is not "
                            "available there, so the children's write caps cannot be encrypted under it"
                            % (src(nmf, wk) if wk is not None else "missing"))
                continue
            cb_params = [x.arg for x in cb.args.posonlyargs + cb.args.args]
            if not cb_params:
                r.violation(nmf, nmf.loc(c), "the contents callable takes no node parameter")
                continue
            P = cb_params[0]
            # follow local copies inside a nested def
            wk_r = wk
            if isinstance(cb, (ast.FunctionDef, ast.AsyncFunctionDef)) and cb.name in nmf.nested:
                cbd = def_exprs(nmf.nested[cb.name])
                for _hop in range(3):
                    if isinstance(wk_r, ast.Name) and wk_r.id != P and len(cbd.get(wk_r.id, [])) == 1:
                        wk_r = cbd[wk_r.id][0]
            if wk_r is None or never_truthy(wk_r) or P not in names_in(wk_r):
                r.violation(nmf, nmf.loc(c), "the initial children are packed with writekey %s, which is not the write key of "
                            "the new file node %s: every child's write cap is dropped (or sealed under a key the directory "
                            "cannot use) and the children read back read-only"
                            % (src(nmf, wk) if wk is not None else "<missing>", P))
                continue
            if isinstance(wk_r, ast.Call) and isinstance(wk_r.func, ast.Attribute) and attr_path(wk_r.func.value) == P \
                    and not wk_r.args and not wk_r.keywords:
                getter = mfn.lookup(wk_r.func.attr)
                if getter is None:
                    raise AnchorVanished("MutableFileNode has no %s()" % wk_r.func.attr)
                grets = [follow_copy(getter, n.ast.value) for n in reachable_returns(getter) if n.ast.value is not None]
                paths = {attr_path(v) for v in grets}
                if len(grets) != 1 or None in paths or not all(p.startswith("self.") for p in paths):
                    raise AnalysisError("cannot tell which attribute MutableFileNode.%s() returns" % wk_r.func.attr)
                key_attr = ".".join(next(iter(paths)).split(".")[:2])
            elif isinstance(wk_r, ast.Attribute) and attr_path(wk_r) and attr_path(wk_r).startswith(P + "."):
                key_attr = "self." + attr_path(wk_r).split(".")[1]
            else:
                raise AnalysisError("cannot tell which attribute of the new node %s reads" % src(nmf, wk))
            # what the callable returns contains the packed string
            if isinstance(cb, ast.Lambda):
                outs = [cb.body]
            else:
                outs = [x.value for x in own_nodes(cb) if isinstance(x, ast.Return) and x.value is not None]
            ok = bool(outs)
            for o in outs:
                if isinstance(cb, ast.Lambda):
                    ok = ok and any(x is c for x in ast.walk(o))
                else:
                    ok = ok and any(x is c for x in closure(nmf.nested[cb.name], [o])[1])
            r.require(ok, nmf, nmf.loc(c), "the contents callable does not return the packed children")
        # (b) create_mutable_file hands its contents to create_with_keys
        cw_params = first_positional_params(cwk)
        if "contents" not in cw_params:
            raise AnchorVanished("create_with_keys has no contents parameter")
        cpos = cw_params.index("contents")
        links = []
        for reg in registrations(cmf):
            if reg.kind in ("cb", "both") and isinstance(reg.target, ast.Attribute) and reg.target.attr == "create_with_keys":
                kw = kwarg(reg.call, "contents")
                links.append((reg.call, kw if kw is not None else (reg.args[cpos - 1] if 0 < cpos <= len(reg.args) else None)))
        for c in calls_in_func(cmf, "create_with_keys", into_lambda=True):
            links.append((c, arg(c, cpos, "contents")))
        if not links:
            raise AnchorVanished("create_mutable_file no longer reaches create_with_keys")
        cmn = N(cmf)
        for (c, a) in links:
            r.site(cmf, c, "contents handed on")
            r.require(a is not None and cmn.norm(a) == "contents", cmf, cmf.loc(c), "create_mutable_file hands %s to "
                      "create_with_keys instead of its contents argument: the initial children of a new directory are not "
                      "what is uploaded" % (src(cmf, a) if a is not None else "nothing"))
        # (c) create_with_keys: the key is stored before the callable is invoked
        if key_attr is not None:
            wcfg = cwk.cfg()

            def invokes_param(fn, pname, depth=2):
                """Call nodes of `fn` that call its parameter `pname`, directly or through a method of the class."""
                out = []
                for call in calls_in_func(fn):
                    if isinstance(call.func, ast.Name) and call.func.id == pname:
                        out.append((call, call, fn))
                    elif depth > 0 and isinstance(call.func, ast.Attribute) and attr_path(call.func.value) == "self":
                        m = mfn.lookup(call.func.attr)
                        if m is None:
                            continue
                        mp = first_positional_params(m)
                        for i, a in enumerate(call.args):
                            if isinstance(a, ast.Name) and a.id == pname and i < len(mp):
                                for (_c, leaf, lf) in invokes_param(m, mp[i], depth - 1):
                                    out.append((call, leaf, lf))
                        for k in call.keywords:
                            if isinstance(k.value, ast.Name) and k.value.id == pname and k.arg in mp:
                                for (_c, leaf, lf) in invokes_param(m, k.arg, depth - 1):
                                    out.append((call, leaf, lf))
                return out
            inv = invokes_param(cwk, "contents")
            if not inv:
                raise AnchorVanished("create_with_keys no longer invokes the initial-contents callable")

            def key_stored(n):
                if key_attr not in node_stores(n):
                    return False
                v = assign_value(n, key_attr)
                return not (isinstance(v, ast.Constant) and v.value is None)

            def key_cleared(n):
                v = assign_value(n, key_attr)
                return key_attr in node_stores(n) and isinstance(v, ast.Constant) and v.value is None
            seen_calls = set()
            for (call, leaf, lf) in inv:
                if id(call) in seen_calls:
                    continue
                seen_calls.add(id(call))
                tn = node_of(wcfg, call)
                r.site(cwk, call, "callable invoked")
                for (t, w) in find_path_avoiding(wcfg, lambda x, _t=tn: x is _t, gate_node=key_stored, kill=key_cleared):
                    r.violation(cwk, cwk.loc(t.ast), "create_with_keys invokes the initial-contents callable (%s) on a path "
                                "that has not stored %s yet: NodeMaker.create_new_mutable_directory packs the initial "
                                "children with get_writekey() of this node, so their write caps are written as empty rw "
                                "fields and the children read back read-only (path: %s)"
                                % (src(cwk, call), key_attr, w.brief()), w)
            for (call, leaf, lf) in inv:
                a0 = leaf.args[0] if leaf.args else None
                r.require(a0 is not None and attr_path(a0) == "self", lf, lf.loc(leaf), "the initial-contents callable is "
                          "invoked with %s instead of the node being created" % (src(lf, a0) if a0 is not None else "nothing"))
                # the result of the callable is what the method returns / what is uploaded
                if lf is not cwk:
                    rets = [FlowNorm(lf).resolve(n, n.ast.value) for n in reachable_returns(lf) if n.ast.value is not None]
                    r.require(any(v is leaf for v in rets), lf, lf.loc(leaf), "%s does not return what the initial-contents "
                              "callable produced" % short(lf))
            ups = calls_in_func(cwk, "_upload")
            if not ups:
                raise AnchorVanished("create_with_keys no longer calls _upload")
            for u_ in ups:
                r.site(cwk, u_, "upload")
                a0 = arg(u_, 0, "initial_contents")
                r.require(a0 is not None and any(any(x is call for (call, _l, _f) in inv) for x in closure(cwk, [a0])[1]),
                          cwk, cwk.loc(u_), "create_with_keys uploads %s, not the result of the initial-contents callable"
                          % (src(cwk, a0) if a0 is not None else "nothing"))
        # (d) pack_children forwards the key
        pch = idx.func("dirnode:pack_children")
        pps = first_positional_params(pch)
        if len(pps) < 2:
            raise AnchorVanished("pack_children no longer takes (children, writekey)")
        for c in calls_in_func(pch, "_pack_normalized_children"):
            r.site(pch, c, "key forwarded")
            a1 = arg(c, 1, "writekey")
            r.require(a1 is not None and N(pch).norm(a1) == pps[1], pch, pch.loc(c), "pack_children hands writekey %s to "
                      "_pack_normalized_children instead of the key it was given" % (src(pch, a1) if a1 is not None else "<missing>"))
        # (e) DirectoryNode: the key of the writer is the key of the reader
        pcn = idx.func(DN + "._pack_contents")
        dec = idx.func(DN + "._decrypt_rwcapdata")
        wcalls = calls_in_func(pcn, "_pack_normalized_children")
        rcalls = calls_in_func(dec, "mutable_rwcap_key_hash")
        if not wcalls or len(rcalls) != 1:
            raise AnchorVanished("DirectoryNode._pack_contents / _decrypt_rwcapdata lost their key expressions")
        rk = arg(rcalls[0], 1, "writekey")
        rks = N(dec).norm(rk) if rk is not None else None
        r.site(dec, rcalls[0], "reader key")
        for c in wcalls:
            r.site(pcn, c, "writer key")
            a1 = arg(c, 1, "writekey")
            s1 = N(pcn).norm(a1) if a1 is not None else None
            r.require(s1 is not None and s1 == rks, pcn, pcn.loc(c), "the directory is written with key %s but its rw fields "
                      "are decrypted with %s" % (s1, rks))

    # -- 14. what normalize() answers ---------------------------------------------------------------
    # C19.4 decides that every name that goes into / comes out of a children dict went through normalize(); the
    # round trip needs that to *be* NFC: the writer, the reader and every lookup must agree on one spelling per name.
    with ctx.rule("C19.14", "R3", "the normalize() dirnode.py uses is util.encodingutil.normalize (or a wrapper judged the "
                  "same way), and on every path it returns unicodedata.normalize('NFC', <the name, possibly decoded>) - the "
                  "name as given only after an edge that established it to be ASCII-only or already NFC "
                  "(isascii(), unicodedata.is_normalized('NFC', .), encode('ascii') passed)", expected=2) as r:
        folder = get_folder(idx)
        used = idx.resolve_name(dmod, "normalize")
        if not isinstance(used, FuncInfo):
            raise AnchorVanished("dirnode.py no longer binds the name normalize to a function")
        r.site(used, None, "the normalize() of dirnode.py")
        for f in idx.funcs.values():
            if f.module is dmod and f is not used and (
                    "normalize" in f.params or "normalize" in def_exprs(f) or "normalize" in f.nested):
                r.violation(f, f.loc(), "%s re-binds the name normalize: the names it handles are not normalised by "
                            "util.encodingutil.normalize" % short(f))
        IN, NFC, OTHER = "the name as given", "NFC", "something else"
        judged = {}

        def lib_name(fn, e):
            """dotted name of a library function the expression denotes (through the module's imports)"""
            p = attr_path(e)
            if not p:
                return None
            root, _dot, rest = p.partition(".")
            if root in _local_names_of(fn):
                return None
            imp = fn.module.imports.get(root)
            if imp is None:
                return None
            return imp + ("." + rest if rest else "")

        def _local_names_of(fn):
            out = set(fn.params)
            for n in fn.cfg().nodes:
                out |= {x for x in node_stores(n) if "." not in x and not x.endswith("[]")}
            return out

        def const_of(fn, e):
            try:
                return folder.fold(e, fn.module, fn.cls)
            except NotConstant:
                return None

        def judge(fn, depth=0):
            """[(node, message, witness)] - why fn is not 'NFC of its argument' ([] when it is)"""
            if fn.qual in judged:
                return judged[fn.qual]
            judged[fn.qual] = []                         # recursion: assume fine, the outer call decides
            ps = first_positional_params(fn)
            if len(ps) != 1 or fn.cls is not None or depth > 2:
                judged[fn.qual] = [(None, "%s is not a one-argument function that can be followed" % short(fn), None)]
                return judged[fn.qual]
            p = ps[0]
            cfg = fn.cfg()
            locs = _local_names_of(fn)

            def ev(e, env, gated):
                """set of tags the value of e may carry"""
                if isinstance(e, ast.Name):
                    return env.get(e.id, frozenset([OTHER]))
                if isinstance(e, ast.Constant) and isinstance(e.value, str):
                    return frozenset([("K", e.value)])   # a string constant held in a local (the form name)
                if isinstance(e, ast.NamedExpr):
                    return ev(e.value, env, gated)
                if isinstance(e, ast.IfExp):
                    t, pol = e.test, True
                    while isinstance(t, ast.UnaryOp) and isinstance(t.op, ast.Not):
                        t, pol = t.operand, not pol
                    est = established(t, env)
                    a = ev(e.body, env, gated or (est and pol))
                    b = ev(e.orelse, env, gated or (est and not pol))
                    if est and pol:
                        a = frozenset(NFC if x == IN else x for x in a)
                    if est and not pol:
                        b = frozenset(NFC if x == IN else x for x in b)
                    return a | b
                if isinstance(e, ast.BoolOp):
                    out = frozenset()
                    for v in e.values:
                        out |= ev(v, env, gated)
                    return out
                if isinstance(e, ast.Call):
                    ln = lib_name(fn, e.func)
                    if ln == "unicodedata.normalize":
                        form, x = arg(e, 0, "form"), arg(e, 1, "unistr")
                        if form is not None and x is not None and is_nfc(form, env) and ev(x, env, gated) <= {IN, NFC}:
                            return frozenset([NFC])
                        return frozenset([OTHER])
                    if isinstance(e.func, ast.Attribute) and e.func.attr == "decode":
                        return frozenset(IN if x == IN else OTHER for x in ev(e.func.value, env, gated))
                    if isinstance(e.func, ast.Name) and e.func.id == "str" and e.func.id not in locs and e.args:
                        return frozenset(IN if x == IN else OTHER for x in ev(e.args[0], env, gated))
                    tgt = idx.resolve_expr(fn.module, e.func) if isinstance(e.func, (ast.Name, ast.Attribute)) and \
                        (attr_path(e.func) or "").split(".", 1)[0] not in locs else None
                    if isinstance(tgt, FuncInfo) and len(e.args) == 1 and not e.keywords and not judge(tgt, depth + 1) \
                            and ev(e.args[0], env, gated) <= {IN, NFC}:
                        return frozenset([NFC])
                return frozenset([OTHER])

            def is_nfc(form, env):
                if isinstance(form, ast.Name) and form.id in env:
                    return env[form.id] == frozenset([("K", "NFC")])
                return const_of(fn, form) == "NFC"

            def established(t, env):
                """the test, when true, says that a value carrying the name is ASCII-only / already NFC"""
                if not isinstance(t, ast.Call):
                    return False

                def is_name(x):
                    v = ev(x, env, False)
                    return bool(v) and v <= {IN, NFC}
                if isinstance(t.func, ast.Attribute) and t.func.attr == "isascii" and not t.args and not t.keywords:
                    return is_name(t.func.value)
                if lib_name(fn, t.func) == "unicodedata.is_normalized":
                    form, x = arg(t, 0, "form"), arg(t, 1, "unistr")
                    return form is not None and x is not None and is_nfc(form, env) and is_name(x)
                if isinstance(t.func, ast.Name) and t.func.id == "all" and t.func.id not in locs and len(t.args) == 1 \
                        and isinstance(t.args[0], (ast.GeneratorExp, ast.ListComp)) and len(t.args[0].generators) == 1:
                    g = t.args[0].generators[0]
                    c = t.args[0].elt
                    if g.ifs or not isinstance(g.target, ast.Name) or not is_name(g.iter):
                        return False
                    if isinstance(c, ast.Compare) and len(c.ops) == 1 and isinstance(c.left, ast.Call) \
                            and isinstance(c.left.func, ast.Name) and c.left.func.id == "ord" and len(c.left.args) == 1 \
                            and isinstance(c.left.args[0], ast.Name) and c.left.args[0].id == g.target.id:
                        lim = const_of(fn, c.comparators[0])
                        return (isinstance(c.ops[0], ast.Lt) and lim == 128) or (isinstance(c.ops[0], ast.LtE) and lim == 127)
                return False

            def ascii_encoded(n, env):
                for c in node_calls(n):
                    if isinstance(c.func, ast.Attribute) and c.func.attr == "encode" and c.args \
                            and str(const_of(fn, c.args[0])).lower().replace("_", "-") in ("ascii", "us-ascii") \
                            and (kwarg(c, "errors") is None and len(c.args) == 1):
                        v = ev(c.func.value, env, False)
                        if v and v <= {IN, NFC}:
                            return True
                return False

            def freeze(env):
                return frozenset(env.items())

            def transfer(n, lab, nxt, st):
                gated, fenv = st
                env = dict(fenv)
                if n.kind == "test" and isinstance(lab, tuple) and lab[0] == "T" and established(n.ast, env):
                    gated = True
                if n.kind == "stmt" and lab != "exc" and not gated and ascii_encoded(n, env):
                    gated = True
                a = n.ast
                if n.kind == "stmt" and isinstance(a, (ast.Assign, ast.AnnAssign)) and lab != "exc":
                    ts = a.targets if isinstance(a, ast.Assign) else [a.target]
                    v = ev(a.value, env, gated) if a.value is not None else frozenset([OTHER])
                    for t in ts:
                        if isinstance(t, ast.Name):
                            env[t.id] = v
                        else:
                            for x in ast.walk(t):
                                if isinstance(x, ast.Name) and isinstance(x.ctx, ast.Store):
                                    env[x.id] = frozenset([OTHER])
                elif n.kind in ("stmt", "iter", "with", "except"):
                    for nm in node_stores(n):
                        if "." not in nm and not nm.endswith("[]"):
                            env[nm] = frozenset([OTHER])
                return (gated, freeze(env))
            init = (False, freeze({p: frozenset([IN])}))
            visited, parent = explore(cfg, init, transfer)
            r.count(len(visited))
            problems, said = [], set()
            for (nid, st) in sorted(visited, key=lambda x: (x[0], x[1][0], sorted((k, sorted(map(repr, v))) for (k, v) in x[1][1]))):
                n = cfg.nodes[nid]
                if not is_return(n):
                    continue
                gated, fenv = st
                tags = ev(n.ast.value, dict(fenv), gated) if n.ast.value is not None else frozenset([OTHER])
                tags = frozenset(OTHER if isinstance(x, tuple) else x for x in tags)
                if gated:
                    tags = frozenset(NFC if x == IN else x for x in tags)
                for t in sorted(tags - {NFC}):
                    if (nid, t) in said:
                        continue
                    said.add((nid, t))
                    w = witness(cfg, parent, (nid, st))
                    if t == IN:
                        problems.append((n, "%s returns the name as given (%s) on a path that established neither that it "
                                         "is ASCII-only nor that it already is NFC (path: %s): NFC also rewrites singleton "
                                         "mappings (U+212B, U+2126 ..), Hangul jamo and composition exclusions, so such names "
                                         "are stored and looked up un-normalised and the NFC spelling of the same name "
                                         "addresses another entry" % (short(fn), src(fn, n.ast.value), w.brief()), w))
                    else:
                        problems.append((n, "%s returns %s, which is not unicodedata.normalize('NFC', <the name>) (path: %s): "
                                         "names are not stored in the one spelling every reader and lookup expects"
                                         % (short(fn), src(fn, n.ast.value) if n.ast.value is not None else "None",
                                            w.brief()), w))
            for (t_, w) in find_path_avoiding(cfg, lambda x: x.kind == "exit", gate_node=is_return):
                problems.append((None, "%s can end without returning the normalised name" % short(fn), w))
            judged[fn.qual] = problems
            return problems
        rets = [n for n in used.cfg().find(is_return) if n.id in used.cfg().reachable_nodes()]
        if not rets:
            raise AnchorVanished("%s returns nothing" % short(used))
        for n in rets:
            r.site(used, n.ast, "return")
        for (n, msg, w) in judge(used):
            r.violation(used, used.loc(n.ast if n is not None else None), msg, w)

    # -- 15. every cap kind a directory can hold is made into a node of its kind ---------------------------
    with ctx.rule("C19.15", "R5", "the node factory create_from_cap applies to uri.from_string's result, interpreted on a cap "
                  "of every non-verifier cap class from_string can return: a file cap gives a file node built from that cap "
                  "whose is_mutable() constant is the cap class's, a directory cap gives a DirectoryNode around the file "
                  "node of its INNER_URI_CLASS cap; none falls through to None (an UnknownNode)", expected=12) as r:
        cfc = idx.func("nodemaker:NodeMaker.create_from_cap")
        nmci = cfc.cls
        fs = idx.func("uri:from_string")
        umod = fs.module
        folder = get_folder(idx)
        cnorm = FlowNorm(cfc)
        ccfg = cfc.cfg()
        factories = []
        for c in calls_in_func(cfc):
            if not (isinstance(c.func, ast.Attribute) and attr_path(c.func.value) == "self" and c.args):
                continue
            a0 = cnorm.resolve(node_of(ccfg, c), c.args[0])
            if isinstance(a0, ast.Call) and call_tail(a0) == "from_string" \
                    and idx.resolve_expr(cfc.module, a0.func) is fs:
                m = nmci.lookup(c.func.attr)
                if m is None:
                    raise AnchorVanished("create_from_cap hands the parsed cap to self.%s, which is not a method of %s"
                                         % (c.func.attr, nmci.name))
                factories.append(m)
        factories = list({m.qual: m for m in factories}.values())
        if len(factories) != 1:
            raise AnchorVanished("create_from_cap no longer hands uri.from_string(..) to exactly one method of the node "
                                 "maker (found %d)" % len(factories))
        fac = factories[0]
        if len([a.arg for a in fac.node.args.args]) < 2:
            raise AnchorVanished("%s takes no cap" % short(fac))
        dnci = idx.cls(DN)

        def make(ci):
            ev = NodeFactoryEval(folder, fac.module, pe)
            try:
                return ev._sub(fac, [("self", nmci), ("parsed", ci)], {})
            except _Raised as ex:
                return ex.exc
            except NotConstant as ex:
                raise AnalysisError("cannot interpret %s on a %s cap: %s" % (short(fac), ci.name, ex))

        def show(v):
            if v is None:
                return "None (create_from_cap then makes an UnknownNode)"
            if _tagged(v, "node"):
                return "a %s" % v[1].name
            if _tagged(v, "exc"):
                return "the exception %s" % v[1]
            if _tagged(v, "parsed"):
                return "the %s cap itself" % v[1].name
            return "not a node"

        def node_mutable(k, cap_says):
            """is_mutable() of node class k: its constant, or - when it is exactly <attribute>.is_mutable() of one wrapped
            object (the cap the node was built from) - what the cap class says."""
            m = k.lookup("is_mutable")
            if m is None or len(m.params) != 1:
                raise AnchorVanished("node class %s has no parameterless is_mutable()" % k.name)
            lv, rows = pe.rows([lambda env, _m=m: pe.run(k, _m, env)])
            vals = {vv[0] for (_row, vv) in rows}
            if RAISES in vals:
                raise AnalysisError("%s.is_mutable() may raise" % k.name)
            if not lv and len(vals) == 1:
                return next(iter(vals))
            if len(lv) == 1 and lv[0].endswith(".is_mutable()") and all(row[lv[0]] == vv[0] for (row, vv) in rows):
                return cap_says
            raise AnalysisError("%s.is_mutable() is neither a constant nor the wrapped cap's is_mutable()" % k.name)

        def judge_file(v, ci):
            """Problem with `v` as the file node for a cap of class ci, or None."""
            if not _tagged(v, "node"):
                return "gives %s" % show(v)
            if dnci in v[1].mro() or v[1].name == "UnknownNode":
                return "gives %s instead of a file node" % show(v)
            if ("parsed", ci) not in [a for a in v[2] if _tagged(a, "parsed")]:
                return "gives a %s that is not built from the cap" % v[1].name
            want = const_predicate(pe, ci, "is_mutable")
            got = node_mutable(v[1], want)
            if want != got:
                return "gives a %s, whose is_mutable() is %s while the cap's is %s" % (v[1].name, got, want)
            ifs = implemented_interfaces(v[1])
            if ("IMutableFileNode" in ifs and not want) or ("IImmutableFileNode" in ifs and want):
                return "gives a %s (declared %s) for a cap whose is_mutable() is %s" % (
                    v[1].name, "IMutableFileNode" if want is False else "IImmutableFileNode", want)
            return None

        nf = NodeFactoryEval(folder, fac.module, pe)
        n_kinds = 0
        for ci in sorted((c for c in idx.classes.values() if c.module is umod), key=lambda c: c.qual):
            if ci.lookup("init_from_string") is None or ci.lookup_attr("BASE_STRING") is None:
                continue
            try:
                base = folder.class_attr(ci, "BASE_STRING")
            except NotConstant as ex:
                raise AnalysisError("cannot fold %s.BASE_STRING: %s" % (ci.name, ex))
            if not isinstance(base, bytes) or not base:
                raise AnalysisError("%s.BASE_STRING is not a byte string" % ci.name)
            n_kinds += 1
            try:
                out = CapParseEval(folder, umod).call(fs, [base + b"aaaa"], {"deep_immutable": False})
            except _Raised:
                continue                # C19.12 reports a kind from_string refuses
            except NotConstant as ex:
                raise AnalysisError("cannot interpret uri.from_string(%r): %s" % (base + b"aaaa", ex))
            if not (_tagged(out, "parsed") and out[1] is ci):
                continue                # from_string does not return this class (C19.12's business)
            if "IVerifierURI" in implemented_interfaces(ci):
                continue                # verify caps are not what directories hold; not all of them have a node type
            r.site(fac, None, ci.name)
            r.count(1)
            v = make(ci)
            inner = nf.inner_class(ci)
            if inner is None:
                why = judge_file(v, ci)
            else:
                if not _tagged(v, "node") or dnci not in v[1].mro():
                    why = "gives %s instead of a directory node" % show(v)
                else:
                    fnodes = [a for a in v[2] if _tagged(a, "node")]
                    if len(fnodes) != 1:
                        why = "gives a %s that does not wrap exactly one file node" % v[1].name
                    else:
                        why = judge_file(fnodes[0], inner)
                        if why is not None:
                            why = "gives a %s whose file node for the inner %s cap is wrong: %s" % (v[1].name, inner.name,
                                                                                                    why)
            if why is not None:
                r.violation(ci.qual, fac.loc(), "%s on a %s cap (%s...) %s: a child linked by such a cap does not come back "
                            "from the directory as the node that was stored (kind, mutability and caps are lost, and "
                            "immutable directories judge it by the wrong is_mutable())"
                            % (short(fac), ci.name, base.decode("ascii", "replace"), why))
        if not n_kinds:
            raise AnchorVanished("no cap class with BASE_STRING and init_from_string in allmydata.uri")

    # -- 16. a directory node names itself by the directory cap class of its file node's cap ------------------
    with ctx.rule("C19.16", "R5", "uri.wrap_dirnode_cap (which gives a DirectoryNode the cap it is stored under), interpreted "
                  "on the INNER_URI_CLASS cap of every non-verifier directory cap class, gives that directory cap class",
                  expected=6) as r:
        wrap = idx.func("uri:wrap_dirnode_cap")
        dinit = idx.func(DN + ".__init__")
        if not [c for c in calls_in_func(dinit) if idx.resolve_expr(dinit.module, c.func) is wrap]:
            raise AnchorVanished("DirectoryNode.__init__ no longer takes its cap from uri.wrap_dirnode_cap")
        umod = wrap.module
        folder = get_folder(idx)
        nf = NodeFactoryEval(folder, umod, pe)
        by_inner = {}
        for ci in sorted((c for c in idx.classes.values() if c.module is umod), key=lambda c: c.qual):
            if ci.lookup("init_from_string") is None or ci.lookup_attr("BASE_STRING") is None:
                continue
            inner = nf.inner_class(ci)
            if inner is None or "IVerifierURI" in implemented_interfaces(ci):
                continue
            by_inner.setdefault(inner.qual, []).append(ci)
            r.site(wrap, None, ci.name)
            r.count(1)
            try:
                out = NodeFactoryEval(folder, umod, pe).call(wrap, [("parsed", inner)], {})
            except _Raised as ex:
                out = ex.exc
            except NotConstant as ex:
                raise AnalysisError("cannot interpret uri.wrap_dirnode_cap on a %s cap: %s" % (inner.name, ex))
            if _tagged(out, "parsed") and out[1] is ci:
                continue
            if _tagged(out, "parsed") and len(by_inner[inner.qual]) > 1:
                raise AnalysisError("two directory cap classes share the inner class %s: cannot tell which one "
                                    "wrap_dirnode_cap should give" % inner.name)
            what = ("a %s" % out[1].name) if _tagged(out, "parsed") else \
                ("the exception %s" % out[1]) if _tagged(out, "exc") else "no directory cap"
            r.violation(ci.qual, wrap.loc(), "uri.wrap_dirnode_cap on a %s cap gives %s instead of a %s: a directory whose "
                        "file node has such a cap is stored in its parent under the wrong cap (or cannot be made at all), "
                        "so it does not come back as the same directory" % (inner.name, what, ci.name))
