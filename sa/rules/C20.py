"""C20 Directory edits behave like a name map.

Decided: the overwrite gates of Adder.modify, the timestamp / 'tahoe' rules of
update_metadata, the ordering of set_node before delete in move_child_to (and
its rename-to-self shortcut), what Deleter and MetadataSetter touch, and that
the overwrite mode given to a DirectoryNode operation reaches the Adder
(DESIGN.md section 5, C20)."""
from sa.h import *
from sa.cfg import reaching_defs

EXPLANATION = (
    "Decided (structural, all paths): (1) Adder.modify stores children[name] for a name already present only "
    "after self.overwrite was seen truthy and not (overwrite == ONLY_FILES and the existing child is a directory); "
    "on that path update_metadata is given the existing entry's metadata, and the stored pair carries "
    "update_metadata's result; Adder.__init__ keeps the overwrite argument. (2) update_metadata: 'linkcrtime' is "
    "stored only under \"'linkcrtime' not in sysmd\"; 'linkmotime' = now on every returning path, in the dict that "
    "is the returned metadata's 'tahoe' entry; when the metadata is replaced by the caller's, the old 'tahoe' "
    "sub-dict is carried over and a caller-supplied 'tahoe' is dropped. (3) move_child_to: delete(current) is an "
    "addCallback registered after the callback that performs new_parent.set_node (no errback in between), that "
    "callback returns set_node's Deferred and forwards overwrite; the deleted name is the fetched name; the "
    "effects are reachable only when the names or the directories differ and the shortcut return needs both "
    "equal. (4) Deleter.modify mutates children only by deleting self.name, after the must_be_directory / "
    "must_be_file type gates, and returns the re-packed children. (5) MetadataSetter.modify stores only under "
    "'name in children', the same key, the same child, metadata updated from the existing entry. (6) every "
    "DirectoryNode operation with an overwrite parameter forwards it to Adder(..) / set_node(..). "
    "Added by the gap review: (1') ExistingChildError is raised only for an existing name with overwrite falsy or with "
    "overwrite == ONLY_FILES and an existing directory; a name not in the directory gets fresh (None) metadata of the "
    "same iteration and no local of the loop is read before the iteration assigned it; the child is replaced by its "
    "read-only form only after the metadata's 'no-write' was seen truthy (also in MetadataSetter); Adder.__init__ "
    "replaces the given entries only when None. (2') the old metadata is discarded only when seen None; a 'linkcrtime' "
    "not taken from the clock is known not to be None; every returning path stored a 'linkcrtime' or saw one; when "
    "the caller's metadata was seen not None it is what is returned. (3') the new name of a move is a default only "
    "when the caller's was seen None; the inequality that lets move_child_to go on to get_child_and_metadata / set_node / "
    "delete relates the names given to set_node and delete (modulo normalize(..) and local copies) and BOTH its operands "
    "are results of normalize(..) on every reaching definition - the three operations address the entry by the normalised "
    "name, so a guard on the raw spellings re-links the child onto itself and deletes it; (3) is read from either shape of "
    "the function: the addCallback chain, or an inlineCallbacks generator, where `x = yield d` is the sequencing form - "
    "every path to the delete statement has left a yield of set_node's Deferred normally (not through an except / finally), "
    "a dropped set_node Deferred is a violation, and callbacks mixed into the generator stop with ANALYSIS-ERROR. "
    "(4') Deleter.modify returns without deleting only for an absent name, raises "
    "NoSuchChildError only for an absent name with must_exist, never succeeds for absent + first_time + must_exist, and "
    "raises ChildOfWrongTypeError only for (must_be_directory and file) or (must_be_file and directory). (7) every "
    "operation building an Adder / Deleter / MetadataSetter passes its same-named arguments on, hands modifier.modify "
    "to self._node.modify and returns that Deferred; an Adder built without entries is given every item (each loop "
    "iteration, from that iteration's values) through Adder.set_node, which keeps (node, metadata) under the name; "
    "create_subdirectory registers its linking callback on the Deferred it returns. "
    "(10) the modifiers are discovered from the write sites: every callable that a DirectoryNode method (or a function "
    "nested in one) hands to self.<node>.modify(..) is resolved to the modifier class's method / the nested function; each one "
    "whose body stores into the unpacked children map something else than the existing child of that very name (so it can "
    "bind a name to another child - Adder today, any later fast-path modifier as well) reaches that store for a name that "
    "may exist only after its overwrite mode was seen truthy and (mode == ONLY_FILES and IDirectoryNode.providedBy(existing "
    "child)) was excluded; the mode is the attribute the constructor binds unchanged to the parameter the operations give "
    "their `overwrite` to (or the closure variable for a nested function), every operation with an overwrite parameter "
    "passes it, no method re-binds it, and the stored metadata is update_metadata's result; (6) and (8) apply to these "
    "discovered modifiers too. "
    "(8) every key with which Adder / Deleter / MetadataSetter.modify address the children map is normalize(..) of the "
    "name given - decided across the constructor and its callers: the key is normalised in modify, or the attribute it "
    "comes from is bound to normalize(..) in the modifier, or every call site that constructs the modifier (every "
    "Adder.set_node call / entries dict for the Adder) hands in a name all of whose reaching definitions are "
    "normalize(..); a parameter of a public DirectoryNode operation counts as not normalised. (9) the read operations "
    "(has_child, get, get_child_and_metadata, get_metadata_for) look the children map of self._read() up under "
    "normalize(..) of the name given, in the lambda or in the helper the name is handed to. "
    "Undecided: the dict semantics of Python, what normalize() computes and the normalisation of stored keys (C19), retry/merge behaviour of "
    "MutableFileNode.modify under contention (incl. what first_time means on a retry), clock values, the value a "
    "successful operation's Deferred fires with, the NotWriteableError gates of read-only directories, the pre-1.4.0 "
    "'ctime' -> 'linkcrtime' migration, whether a 'no-write' child is actually stored read-only (only the converse is "
    "decided), and the contents given to a new subdirectory; for a modifier other than Adder: that the existing entry's "
    "metadata feeds update_metadata, and what else it does to the map (a single-modify rename inside move_child_to is not "
    "understood by (3), which then stops with ANALYSIS-ERROR rather than pass).")
TECHNIQUE = ("static analysis: CFG x fact monitor over modifier bodies, per-iteration definedness of loop locals, "
             "Deferred registration order, argument forwarding, reaching definitions of a name followed from the "
             "modifier through its constructor to every call site; modifier discovery from the self._node.modify write sites")

MOD = "dirnode"
DN = MOD + ":DirectoryNode"


# ------------------------------------------------------------------ helpers
def _subscript_assigns(cfg):
    """[(node, container_expr, key_expr, value_expr)] for ``c[k] = v`` statements."""
    out = []
    for n in cfg.nodes:
        if n.kind == "stmt" and isinstance(n.ast, ast.Assign):
            for t in n.ast.targets:
                if isinstance(t, ast.Subscript):
                    out.append((n, t.value, t.slice, n.ast.value))
    return out


def _subscript_deletes(cfg):
    out = []
    for n in cfg.nodes:
        if n.kind == "stmt" and isinstance(n.ast, ast.Delete):
            for t in n.ast.targets:
                if isinstance(t, ast.Subscript):
                    out.append((n, t.value, t.slice))
    return out


def _const_key(k, value):
    return isinstance(k, ast.Constant) and k.value == value


def _has_sub_norm(fnorm, node, expr, want):
    """Some sub-expression of `expr` has normal form `want` at `node`."""
    if expr is None:
        return False
    for x in own_nodes(expr, into_lambda=True):
        if isinstance(x, ast.expr) and not isinstance(x, (ast.Constant,)):
            try:
                if fnorm.norm(node, x) == want:
                    return True
            except Exception:
                continue
    return False


def _unpacked_container(fn):
    """Local bound to ``..._unpack_contents(..)`` (the children map being edited)."""
    names = []
    for n in func_own_nodes(fn):
        if isinstance(n, ast.Assign) and isinstance(n.value, ast.Call) and call_tail(n.value) == "_unpack_contents":
            for t in n.targets:
                if isinstance(t, ast.Name):
                    names.append(t.id)
    if len(names) != 1:
        raise AnchorVanished("%s: children map from _unpack_contents not found (%s)" % (short(fn), names))
    return names[0]


def _init_attr_of_param(idx, clsqual, param, exact=None):
    """``self.X`` that __init__ of the class binds to its parameter `param`.
    With `exact` (a list), a binding that transforms the parameter is accepted
    and reported through the list instead of being treated as a vanished anchor."""
    return _attr_of_param(idx.func(clsqual + ".__init__"), clsqual, param, exact)


def _attr_of_param(init, clsqual, param, exact=None):
    """``self.X`` that the constructor `init` binds to its parameter `param` (see _init_attr_of_param)."""
    if param not in init.params:
        raise AnchorVanished("%s.__init__ has no parameter %s" % (clsqual, param))
    found = []
    for n in func_own_nodes(init):
        if isinstance(n, ast.Assign) and any(isinstance(x, ast.Name) and x.id == param for x in own_nodes(n.value)):
            plain = isinstance(n.value, ast.Name)
            if not plain and exact is None:
                continue
            for t in n.targets:
                p = attr_path(t)
                if p and p.startswith("self."):
                    found.append((p, n, plain))
    if len(found) != 1:
        raise AnchorVanished("%s.__init__ does not keep parameter %s in exactly one attribute" % (clsqual, param))
    if exact is not None:
        exact.append(found[0][2])
    return init, found[0][0], found[0][1]


def _node_of_call(cfg, call, into_lambda=True):
    for n in cfg.nodes:
        for e in node_exprs(n):
            for x in own_nodes(e, into_lambda=into_lambda):
                if x is call:
                    return n
    return None


def _last_def_is(cfg, rd, at_node, name, pred):
    """Every definition of local `name` reaching `at_node` satisfies pred(def_node)."""
    ds = rd.get(at_node.id, {}).get(name)
    if not ds:
        return False
    for d in ds:
        if d < 0 or not pred(cfg.nodes[d]):
            return False
    return True


def _pack_return_gate(fn, cfg, fnorm, cname):
    def g(n):
        if not is_return(n) or n.ast.value is None:
            return False
        v = fnorm.resolve(n, n.ast.value)
        return isinstance(v, ast.Call) and call_tail(v) == "_pack_contents" and len(v.args) >= 1 \
            and isinstance(v.args[0], ast.Name) and v.args[0].id == cname
    return g


def _none_or_falsy(f, name):
    """The edge fact says that `name` is None / falsy."""
    if not f:
        return False
    op, l, rr = f
    return (op == "false" and l == name) or (op in ("is", "==") and {l, rr} == {"None", name})


def _not_none_or_truthy(f, name):
    if not f:
        return False
    op, l, rr = f
    return (op == "truth" and l == name) or (op in ("is not", "!=") and {l, rr} == {"None", name})


_NOWRITE = re.compile(r"^.+(\.get\('no-write'(, (False|None|0))?\)|\['no-write'\])$")


def _nowrite_truthy(fnorm):
    """Edge gate: the metadata's 'no-write' flag was seen truthy."""
    def g(n, lab):
        f = fnorm.edge_fact(n, lab)
        if not f:
            return False
        op, l, rr = f
        if op == "truth":
            return bool(_NOWRITE.match(l or ""))
        if op in ("is", "=="):
            return (l == "True" and bool(_NOWRITE.match(rr or ""))) or (rr == "True" and bool(_NOWRITE.match(l or "")))
        return False
    return g


def _check_readonly_wrap(r, fn, cfg, fnorm):
    """The stored child is replaced by its read-only form only for an entry whose metadata says 'no-write'."""
    for n in cfg.nodes:
        if n.kind in ("stmt", "test") and calls_at(n, "create_readonly_node"):
            r.site(fn, n.ast, "read-only replacement of the child")
            for (t, w) in find_path_avoiding(cfg, lambda x, n=n: x is n, gate_edge=_nowrite_truthy(fnorm),
                                             kill=lambda x: x.kind == "iter"):
                r.violation(fn, fn.loc(n.ast), "the child is replaced by its read-only form although the entry's "
                            "metadata was not seen to say 'no-write' (the stored child is not the child given; "
                            "path: %s)" % w.brief(), w)


def _loop_stale_uses(fn, cfg, it):
    """[(node, name, Witness)]: inside the body of the for-loop `it`, a local that the body assigns (and that has
    no definition before the loop) is read on a path of the current iteration that has not assigned it yet - the
    value belongs to the previous item (or does not exist)."""
    body_ids = {id(x) for st in it.ast.body for x in ast.walk(st)}
    body = {n.id for n in cfg.nodes if n is not it and n.ast is not None and id(n.ast) in body_ids}
    plain = lambda names: {s for s in names if "." not in s and not s.endswith("[]")}
    assigned = set()
    for nid in body:
        assigned |= plain(node_stores(cfg.nodes[nid]))
    targets = plain(node_stores(it))
    rd = reaching_defs(cfg)
    outer = set()
    for name, ds in rd.get(it.id, {}).items():
        if any(d < 0 or d not in body for d in ds):
            outer.add(name)
    assigned -= outer
    if not assigned:
        return []
    INIT = (False, frozenset())

    def transfer(n, lab, nxt, st):
        inl, defd = st
        if n is it:
            if lab == "iter":
                return (True, frozenset(targets & assigned))
            if lab == "done":
                return INIT
            return st
        if inl and n.id in body and lab != "exc":
            return (True, defd | (plain(node_stores(n)) & assigned))
        return st
    visited, parent = explore(cfg, INIT, transfer)
    out, seen = [], set()
    for (nid, st) in sorted(visited, key=lambda x: (x[0], sorted(x[1][1]))):
        inl, defd = st
        if not inl or nid not in body:
            continue
        n = cfg.nodes[nid]
        loads = set()
        for e in node_exprs(n):
            for x in own_nodes(e):
                if isinstance(x, ast.Name) and isinstance(x.ctx, ast.Load):
                    loads.add(x.id)
        for name in sorted((loads & assigned) - defd):
            if (nid, name) not in seen:
                seen.add((nid, name))
                out.append((n, name, witness(cfg, parent, (nid, st))))
    return out


def _returned(cfg, fnorm, rn):
    """The expression a return node yields, following plain-name copies and a unique reaching assignment."""
    v = rn.ast.value
    if v is None:
        return None
    defs = fnorm.env_at(rn).defs
    for _ in range(4):
        if isinstance(v, ast.Name) and isinstance(defs.get(v.id), ast.Name):
            v = defs[v.id]
    if isinstance(v, ast.Name):
        ds = fnorm.rd.get(rn.id, {}).get(v.id) or ()
        if len(ds) == 1:
            (d,) = tuple(ds)
            if d >= 0:
                av = assign_value(cfg.nodes[d], v.id)
                if isinstance(av, ast.Call) and call_tail(av) in ("succeed", "fail"):
                    return av
    return v


def _mentions(e, name):
    return e is not None and any(isinstance(x, ast.Name) and x.id == name for x in own_nodes(e, into_lambda=True))


def _contains_modify_call(e):
    return any(isinstance(x, ast.Call) and call_tail(x) == "modify" for x in own_nodes(e))


# ------------------------------------------------- name normalisation, across constructor and callers
def _is_normalize_call(e):
    return isinstance(e, ast.Call) and call_tail(e) == "normalize" and len(e.args) + len(e.keywords) >= 1


def _key_uses_in(e, cname):
    """[(key_expr, how)]: every expression used inside `e` as a key of the children map bound to the name `cname`
    (membership test, subscript load / store / delete, get / pop / setdefault / __contains__)."""
    out = []
    for x in own_nodes(e, into_lambda=True):
        if isinstance(x, ast.Compare) and len(x.ops) == 1 and isinstance(x.ops[0], (ast.In, ast.NotIn)) \
                and isinstance(x.comparators[0], ast.Name) and x.comparators[0].id == cname:
            out.append((x.left, "membership test"))
        elif isinstance(x, ast.Subscript) and isinstance(x.value, ast.Name) and x.value.id == cname:
            out.append((x.slice, "subscript"))
        elif isinstance(x, ast.Call) and isinstance(x.func, ast.Attribute) and attr_path(x.func.value) == cname \
                and x.func.attr in ("get", "pop", "setdefault", "__contains__", "__getitem__", "__delitem__",
                                    "__setitem__") and x.args:
            out.append((x.args[0], x.func.attr))
    return out


def _children_key_uses(cfg, cname):
    """[(node, key_expr, how)] for every key use of the children map `cname` in a function body."""
    out, seen = [], set()
    for n in cfg.nodes:
        for e in node_exprs(n):
            for (k, how) in _key_uses_in(e, cname):
                if id(k) not in seen:
                    seen.add(id(k))
                    out.append((n, k, how))
    return out


class _NameJudge:
    """Decides whether a name expression is NFC-normalised (the result of normalize(..)) at a program point,
    following local copies, attributes bound in the class, constructor / method parameters to every call site,
    closures of nested functions and lambdas, and the keys of a dict attribute a loop iterates over.
    judge(..) returns a list of failures [(fn, ast_node, message)]; the empty list means normalised."""

    def __init__(self, idx):
        self.idx = idx
        self.cg = get_callgraph(idx)
        self._cache = {}
        self.consulted = []          # (fn, ast_node, what): call sites / bindings the verdict rests on
        self.extra_modifiers = set()  # names of further modifier classes discovered from the write sites

    def _flow(self, fn):
        hit = self._cache.get(fn.qual)
        if hit is None:
            cfg = fn.cfg()
            hit = (cfg, reaching_defs(cfg))
            self._cache[fn.qual] = hit
        return hit

    def _node_of(self, fn, x):
        cfg, _rd = self._flow(fn)
        for n in cfg.nodes:
            for e in node_exprs(n):
                for y in own_nodes(e, into_lambda=True):
                    if y is x:
                        return n
        return None

    def _lambda_params(self, fn, x):
        """Parameters of the lambdas of `fn` that enclose the expression x (None when x is not inside a lambda)."""
        ps, inside = set(), False
        for lam in func_own_nodes(fn, into_lambda=True):
            if isinstance(lam, ast.Lambda) and any(y is x for y in ast.walk(lam.body)):
                inside = True
                a = lam.args
                ps |= {y.arg for y in a.posonlyargs + a.args + a.kwonlyargs}
                ps |= {y.arg for y in (a.vararg, a.kwarg) if y is not None}
        return ps if inside else None

    # -- expressions
    def judge(self, fn, node, e, depth=0, closure=False):
        if depth > 10:
            return [(fn, e, "the origin of %s could not be followed" % src(fn, e))]
        if _is_normalize_call(e):
            return []
        if isinstance(e, ast.IfExp):
            return self.judge(fn, node, e.body, depth + 1, closure) + self.judge(fn, node, e.orelse, depth + 1, closure)
        if isinstance(e, ast.Name):
            return self._name(fn, node, e, depth, closure)
        p = attr_path(e)
        if p and p.startswith("self.") and p.count(".") == 1 and fn.cls is not None:
            return self._attr(fn, fn.cls, p, depth)
        return [(fn, e, "%s is not the result of normalize(..)" % src(fn, e))]

    def _name(self, fn, node, e, depth, closure):
        cfg, rd = self._flow(fn)
        name = e.id
        if not closure and node is not None:
            lp = self._lambda_params(fn, e)
            if lp is not None:
                if name in lp:
                    return [(fn, e, "%s is the argument of a callback, not a normalised name" % name)]
                closure = True
        if closure or node is None:
            ds = {n.id for n in cfg.nodes if name in node_stores(n)}
            if name in fn.params:
                ds.add(-1)
        else:
            ds = set(rd.get(node.id, {}).get(name) or ())
        if not ds:
            if fn.parent is not None:             # free variable of a nested function: every binding in the outer one
                return self._name(fn.parent, None, e, depth + 1, True)
            return [(fn, e, "%s has no binding that could be followed" % name)]
        out = []
        for d in sorted(ds):
            if d < 0:
                out += self._param(fn, name, depth + 1)
                continue
            dn = cfg.nodes[d]
            if dn.kind == "iter":
                out += self._loop_target(fn, dn, name, depth + 1)
                continue
            v = assign_value(dn, name)
            if v is None:
                out.append((fn, dn.ast, "%s is bound by %s, which is not normalize(..)" % (name, src(fn, dn.ast))))
            else:
                out += self.judge(fn, dn, v, depth + 1)
        return out

    # -- attributes of the modifier
    def _attr(self, fn, ci, path, depth):
        out, n_stores = [], 0
        for m in ci.methods.values():
            cfg, _rd = self._flow(m)
            for n in cfg.nodes:
                if path in node_stores(n):
                    n_stores += 1
                    v = assign_value(n, path)
                    if v is None:
                        out.append((m, n.ast, "%s is bound by %s, which is not normalize(..)" % (path, src(m, n.ast))))
                        continue
                    self.consulted.append((m, n.ast, "%s bound" % path))
                    out += self.judge(m, n, v, depth + 1)
        if not n_stores:
            return [(fn, fn.node, "%s is never bound in %s" % (path, ci.name))]
        return out

    # -- parameters: every call site
    def _sites(self, fn):
        """Call sites of `fn` as [(caller FuncInfo, call)], or None when callers cannot be enumerated."""
        ci = fn.cls
        if ci is None or fn.parent is not None:
            return None
        if fn.name == "__init__":
            return [(cs.fn, cs.call) for cs in self.cg.calls_named(ci.name)
                    if any(t is fn for t in self.cg.resolve(cs.fn, cs.call))]
        if fn.name.startswith("__") or not self._is_modifier(ci):
            return None               # a method of the public directory API: its callers are the outside world
        out = []
        for cs in self.cg.calls_named(fn.name):
            recv = cs.call.func.value if isinstance(cs.call.func, ast.Attribute) else None
            if not isinstance(recv, ast.Name):
                continue
            g = cs.fn
            while g is not None:
                bound = [x.value for x in func_own_nodes(g) if isinstance(x, ast.Assign)
                         and any(isinstance(t, ast.Name) and t.id == recv.id for t in x.targets)]
                if bound:
                    if all(isinstance(v, ast.Call) and any(t.cls is ci for t in self.cg.resolve(g, v)) for v in bound):
                        out.append((cs.fn, cs.call))
                    break
                g = g.parent
        return out

    def _is_modifier(self, ci):
        return ci.module.name.endswith(MOD) and (ci.name in ("Adder", "Deleter", "MetadataSetter")
                                                 or ci.name in self.extra_modifiers)

    def _param(self, fn, name, depth):
        sites = self._sites(fn)
        if sites is None:
            return [(fn, fn.node, "%s is the caller-supplied parameter %s of %s, which need not be normalised" % (
                name, name, short(fn)))]
        if not sites:
            raise AnchorVanished("no call site of %s found" % short(fn))
        ps = first_positional_params(fn)
        if name not in ps:
            return [(fn, fn.node, "%s of %s is not a plain parameter" % (name, short(fn)))]
        out = []
        for (g, call) in sites:
            a = arg(call, ps.index(name), name)
            self.consulted.append((g, call, "caller of %s" % short(fn)))
            if a is None or any(isinstance(x, ast.Starred) for x in call.args) or any(k.arg is None for k in call.keywords):
                out.append((g, call, "%s does not show which name it gives to %s" % (src(g, call), short(fn))))
                continue
            before = len(out)
            out += self.judge(g, self._node_of(g, call), a, depth + 1)
            if len(out) > before:
                out[before:] = [(g, call, "%s is handed %s by %s: %s" % (short(fn), src(g, a), short(g), out[before][2]))]
        return out

    # -- a loop over the keys of a dict attribute
    def _loop_target(self, fn, it, name, depth):
        tgt, iterable = it.ast.target, it.ast.iter
        while isinstance(iterable, ast.Call) and call_tail(iterable) in ("list", "sorted", "tuple", "iter") \
                and len(iterable.args) == 1 and isinstance(iterable.func, ast.Name):
            iterable = iterable.args[0]
        key_t = None
        if isinstance(iterable, ast.Call) and isinstance(iterable.func, ast.Attribute) and not iterable.args:
            if iterable.func.attr == "items" and isinstance(tgt, (ast.Tuple, ast.List)) and len(tgt.elts) == 2:
                key_t, iterable = tgt.elts[0], iterable.func.value
            elif iterable.func.attr == "keys":
                key_t, iterable = tgt, iterable.func.value
        elif attr_path(iterable):
            key_t = tgt
        p = attr_path(iterable)
        if not (isinstance(key_t, ast.Name) and key_t.id == name and p and p.startswith("self.") and p.count(".") == 1
                and fn.cls is not None):
            return [(fn, it.ast, "%s is an item of %s, which is not known to hold normalised names" % (
                name, src(fn, it.ast.iter)))]
        return self._dict_keys(fn.cls, p, depth)

    def _dict_keys(self, ci, path, depth):
        out, n_stores = [], 0
        for m in ci.methods.values():
            cfg, _rd = self._flow(m)
            for n in cfg.nodes:
                for e in node_exprs(n):
                    for x in own_nodes(e):
                        if isinstance(x, ast.Call) and isinstance(x.func, ast.Attribute) and attr_path(x.func.value) == path \
                                and x.func.attr in ("update", "setdefault", "__setitem__"):
                            out.append((m, x, "%s is filled by %s with keys that are not known to be normalised" % (
                                path, src(m, x))))
                if n.kind == "stmt" and isinstance(n.ast, ast.Assign):
                    for t in n.ast.targets:
                        if isinstance(t, ast.Subscript) and attr_path(t.value) == path:
                            n_stores += 1
                            self.consulted.append((m, n.ast, "key stored into %s" % path))
                            out += self.judge(m, n, t.slice, depth + 1)
                if path in node_stores(n):
                    n_stores += 1
                    v = assign_value(n, path)
                    out += self._dict_value(m, n, v, path, depth + 1) if v is not None else [
                        (m, n.ast, "%s is bound by %s" % (path, src(m, n.ast)))]
        if not n_stores:
            return [(ci.methods.get("__init__") or next(iter(ci.methods.values())), ci.node, "%s is never bound" % path)]
        return out

    def _dict_value(self, fn, node, v, what, depth, closure=False):
        """Failures unless every key of the dict value `v` is normalised (None / no dict counts as no keys)."""
        if depth > 10:
            return [(fn, v, "the origin of %s could not be followed" % src(fn, v))]
        if v is None or (isinstance(v, ast.Constant) and v.value is None):
            return []
        if isinstance(v, ast.Dict):
            out = []
            for k in v.keys:
                out += [(fn, v, "%s has entries of another dict" % src(fn, v))] if k is None else \
                    self.judge(fn, node, k, depth + 1, closure)
            return out
        if isinstance(v, ast.Call) and call_tail(v) == "dict" and not v.args and not v.keywords:
            return []
        if isinstance(v, ast.Name):
            cfg, rd = self._flow(fn)
            if closure or node is None:
                ds = {n.id for n in cfg.nodes if v.id in node_stores(n)} | ({-1} if v.id in fn.params else set())
            else:
                ds = set(rd.get(node.id, {}).get(v.id) or ())
            if not ds and fn.parent is not None:
                return self._dict_value(fn.parent, None, v, what, depth + 1, True)
            out = []
            for d in sorted(ds):
                if d < 0:
                    out += self._dict_param(fn, v.id, what, depth + 1)
                    continue
                dv = assign_value(cfg.nodes[d], v.id)
                out += self._dict_value(fn, cfg.nodes[d], dv, what, depth + 1) if dv is not None else [
                    (fn, cfg.nodes[d].ast, "%s is bound by %s" % (v.id, src(fn, cfg.nodes[d].ast)))]
            if not ds:
                out.append((fn, v, "%s has no binding that could be followed" % v.id))
            return out
        return [(fn, v, "%s is not a dict whose keys are known to be normalised" % src(fn, v))]

    def _dict_param(self, fn, name, what, depth):
        sites = self._sites(fn)
        if sites is None:
            return [(fn, fn.node, "the keys of the caller-supplied %s of %s need not be normalised" % (name, short(fn)))]
        if not sites:
            raise AnchorVanished("no call site of %s found" % short(fn))
        ps = first_positional_params(fn)
        out = []
        for (g, call) in sites:
            if any(isinstance(x, ast.Starred) for x in call.args) or any(k.arg is None for k in call.keywords):
                out.append((g, call, "%s does not show which %s it gives to %s" % (src(g, call), name, short(fn))))
                continue
            a = arg(call, ps.index(name), name) if name in ps else None
            self.consulted.append((g, call, "caller of %s" % short(fn)))
            before = len(out)
            out += self._dict_value(g, self._node_of(g, call), a, what, depth + 1)
            if len(out) > before:
                out[before:] = [(g, call, "%s is handed %s by %s: %s" % (short(fn), src(g, a), short(g), out[before][2]))]
        return out



# ------------------------------------------------- the modifiers that DirectoryNode writes through, discovered
class _Modifier:
    """One callable that some DirectoryNode operation hands to ``self.<mutable file>.modify(..)``."""

    def __init__(self, fn, cls):
        self.fn = fn                  # the function run on the unpacked contents (Cls.modify, or a nested def)
        self.cls = cls                # ClassInfo of the modifier object, None for a nested function
        self.sites = []               # (operation, body, write call, function holding the ctor, ctor call | None)
        self.cfg = self.fnorm = self.cname = None
        self.binds = []               # stores into the children map that can bind a name to another child
        self.restores = []            # stores that put the existing child back under its own name
        self.owparam = None           # constructor parameter carrying the overwrite mode
        self.owpos = None

    def label(self):
        return "%s.%s" % (self.cls.name, self.fn.name) if self.cls is not None else short(self.fn)


def _all_bodies(m):
    yield m
    for g in m.nested.values():
        for x in _all_bodies(g):
            yield x


def _outermost(g):
    while g.parent is not None:
        g = g.parent
    return g


def _bindings_of_local(g, name):
    """(function, [values]) of the nearest enclosing function of `g` that binds the local `name` by assignment."""
    p = g
    while p is not None:
        vals = [x.value for x in func_own_nodes(p) if isinstance(x, ast.Assign)
                and any(isinstance(t, ast.Name) and t.id == name for t in x.targets)]
        if vals:
            return p, vals
        if name in p.params:
            return p, []
        p = p.parent
    return None, []


def _discover_modifiers(idx):
    """Every callable handed to ``self.<attr>.modify(..)`` by a method of DirectoryNode (or a function nested in one),
    resolved to the function that edits the contents.  Not a list of names: whatever class / nested function the
    operations write through is found here."""
    ci = idx.cls(DN)
    recs, n_writes = {}, 0
    for m in ci.methods.values():
        for g in _all_bodies(m):
            for c in func_own_nodes(g, into_lambda=True):
                if not (isinstance(c, ast.Call) and isinstance(c.func, ast.Attribute) and c.func.attr == "modify"):
                    continue
                recv = attr_path(c.func.value)
                if not (recv and recv.startswith("self.") and recv.count(".") == 1):
                    continue
                n_writes += 1
                a0 = arg(c, 0, "modifier")
                if a0 is None:
                    raise AnchorVanished("%s: %s is not given a modifier" % (short(g), src(g, c)))
                fn = cls = None
                owner, ctors = g, [None]
                if isinstance(a0, ast.Attribute) and isinstance(a0.value, ast.Name):
                    owner, vals = _bindings_of_local(g, a0.value.id)
                    classes = set()
                    for v in vals:
                        k = idx.resolve_expr_to_class(owner.module, v.func) if isinstance(v, ast.Call) else None
                        classes.add(k)
                    if not vals or None in classes or len(classes) != 1:
                        raise AnchorVanished("%s: the object whose .%s is written through (%s) is not a local bound to one "
                                             "modifier class" % (short(g), a0.attr, a0.value.id))
                    cls = classes.pop()
                    fn = cls.lookup(a0.attr)
                    ctors = vals
                elif isinstance(a0, ast.Name):
                    q = g
                    while q is not None and fn is None:
                        fn = q.nested.get(a0.id)
                        q = q.parent
                if fn is None:
                    raise AnchorVanished("%s: the modifier %s handed to %s.modify could not be resolved to a function" % (
                        short(g), src(g, a0), recv))
                rec = recs.get(fn.qual)
                if rec is None:
                    rec = recs[fn.qual] = _Modifier(fn, cls)
                for ctor in ctors:
                    rec.sites.append((m, g, c, owner, ctor))
    if not n_writes:
        raise AnchorVanished("no DirectoryNode operation writes through self.<node>.modify(..)")
    for rec in recs.values():
        _classify_modifier(idx, rec)
    return list(recs.values())


def _classify_modifier(idx, rec):
    fn = rec.fn
    rec.cfg = cfg = fn.cfg()
    rec.fnorm = fnorm = FlowNorm(fn)
    rec.cname = cname = _unpacked_container(fn)
    for n in cfg.nodes:
        for cc in node_calls(n):
            if isinstance(cc.func, ast.Attribute) and attr_path(cc.func.value) == cname \
                    and cc.func.attr in ("update", "setdefault", "__setitem__"):
                raise AnchorVanished("%s changes the children map through %s: which names it can bind is not analysed" % (
                    rec.label(), src(fn, cc)))
    rd = fnorm.rd
    for (sn, c, k, v) in _subscript_assigns(cfg):
        if not (isinstance(c, ast.Name) and c.id == cname):
            continue
        K, C = fnorm.norm(sn, k), fnorm.norm(sn, c)
        old0 = "%s[%s][0]" % (C, K)
        ch = v.elts[0] if isinstance(v, ast.Tuple) and len(v.elts) == 2 else None

        def child_def_ok(dn, ch=ch, old0=old0):
            if dn.kind != "stmt" or not isinstance(dn.ast, ast.Assign):
                return False
            val = dn.ast.value
            if fnorm.norm(dn, val) == old0:
                return True
            return isinstance(val, ast.Call) and call_tail(val) == "create_readonly_node" and bool(val.args) \
                and (fnorm.norm(dn, val.args[0]) == old0 or (
                    isinstance(val.args[0], ast.Name) and isinstance(ch, ast.Name) and val.args[0].id == ch.id))
        same = ch is not None and (fnorm.norm(sn, ch) == old0 or (
            isinstance(ch, ast.Name) and _last_def_is(cfg, rd, sn, ch.id, child_def_ok)))
        (rec.restores if same else rec.binds).append((sn, c, k, v))
    if not rec.binds:
        return
    # which constructor parameter carries the overwrite mode: the one an operation gives its own `overwrite` to,
    # or the one called overwrite
    if rec.cls is None:
        return
    init = rec.cls.lookup("__init__")
    if init is None:
        return
    cps = first_positional_params(init)
    cand = set()
    for (m, g, c, owner, ctor) in rec.sites:
        if ctor is None or "overwrite" not in _outermost(owner).params:
            continue
        for i, p_ in enumerate(cps):
            a = arg(ctor, i, p_)
            if isinstance(a, ast.Name) and a.id == "overwrite":
                cand.add(p_)
    if "overwrite" in cps:
        cand.add("overwrite")
    if len(cand) > 1:
        raise AnchorVanished("%s: more than one constructor parameter could carry the overwrite mode: %s" % (
            rec.cls.name, sorted(cand)))
    if cand:
        rec.owparam = cand.pop()
        rec.owpos = cps.index(rec.owparam)


def _overwrite_gate_check(r, rec, sn, c, k, OW):
    """Typestate over the modifier body: the store `sn` into the children map is reached for a name that may exist only
    after the overwrite mode OW was seen truthy and (OW == ONLY_FILES and the existing child is a directory) was excluded."""
    fn, cfg, fnorm, cname = rec.fn, rec.cfg, rec.fnorm, rec.cname
    only_files = re.compile(r"^(\w+\.)*ONLY_FILES$")
    K = fnorm.norm(sn, k)
    C = fnorm.norm(sn, c)
    knames = {x.id for x in own_nodes(k) if isinstance(x, ast.Name)} | {cname}
    kattrs = {attr_path(x) for x in own_nodes(k) if isinstance(x, ast.Attribute) and attr_path(x)}
    isdir = "IDirectoryNode.providedBy(%s[%s][0])" % (C, K)
    INIT = (0, False, False)

    def transfer(n, lab, nxt, st):
        if lab == "exc":
            return st
        member, ow, of = st
        if n.kind == "iter":
            return INIT if lab == "iter" else st
        ns = node_stores(n)
        if ns & knames or ns & kattrs or (cname + "[]") in ns:
            member, ow, of = 0, False, False
        if OW in ns:
            ow = of = False
        f = fnorm.edge_fact(n, lab)
        if f:
            op, l, rr = f
            if op in ("in", "not in") and l == K and rr == C:
                member = 1 if op == "in" else 2
            if (op == "truth" and l == OW) or (op in ("is not", "!=") and {l, rr} == {"False", OW}) \
                    or (op in ("is", "==") and {l, rr} == {"True", OW}):
                ow = True
            if op in ("!=", "is not") and OW in (l, rr) and any(only_files.match(s_ or "") for s_ in (l, rr)):
                of = True
            if op == "false" and l == isdir:
                of = True
            if op in ("is", "==") and {l, rr} == {"True", OW}:
                of = True    # overwrite is True, hence not ONLY_FILES
        return (member, ow, of)
    visited, parent = explore(cfg, INIT, transfer)
    r.count(len(visited))
    reported = set()
    for (nid, st) in sorted(visited, key=lambda x: (x[0], str(x[1]))):
        member, ow, of = st
        if nid != sn.id or member == 2:
            continue
        if not ow and "ow" not in reported:
            reported.add("ow")
            w = witness(cfg, parent, (nid, st))
            r.violation(fn, fn.loc(sn.ast), "%s binds %s in the children map although the name may already exist and the "
                        "overwrite mode %s was not seen truthy: a no-overwrite operation that writes through this modifier "
                        "replaces an existing entry (path: %s)" % (rec.label(), src(fn, sn.ast.targets[0]), OW, w.brief()), w)
        elif ow and not of and "of" not in reported:
            reported.add("of")
            w = witness(cfg, parent, (nid, st))
            r.violation(fn, fn.loc(sn.ast), "%s replaces an existing entry (%s) without excluding (%s == ONLY_FILES and the "
                        "existing child %s[%s][0] is a directory): an only-files operation that writes through this modifier "
                        "replaces a directory (path: %s)" % (rec.label(), src(fn, sn.ast.targets[0]), OW, cname, src(fn, k),
                                                            w.brief()), w)


# ---------------------------------------------------------------------- run
def run(ctx: Context):
    idx = ctx.idx
    _memo = {}

    def modifiers():
        if "recs" not in _memo:
            _memo["recs"] = _discover_modifiers(idx)
        return _memo["recs"]

    # -- 1. Adder.modify overwrite gates ------------------------------------
    with ctx.rule("C20.1", "R3", "Adder.modify: children[name] for an existing name is stored only with overwrite truthy "
                  "and not (ONLY_FILES and existing child is a directory); the old metadata feeds update_metadata; "
                  "an add is refused only in those two cases; every item is handled with its own locals; Adder keeps its entries",
                  expected=4) as r:
        exact = []
        init, OW, ow_store = _init_attr_of_param(idx, MOD + ":Adder", "overwrite", exact)
        r.site(init, ow_store, "keeps overwrite as " + OW)
        r.require(exact[0], init, init.loc(ow_store), "Adder keeps %s instead of the overwrite mode itself (True / False / "
                  "ONLY_FILES are told apart by identity)" % src(init, ow_store.value))
        fn = idx.func(MOD + ":Adder.modify")
        cfg = fn.cfg()
        fnorm = FlowNorm(fn)
        cname = _unpacked_container(fn)
        tstores = [(n, c, k, v) for (n, c, k, v) in _subscript_assigns(cfg) if isinstance(c, ast.Name) and c.id == cname]
        if not tstores:
            raise AnchorVanished("Adder.modify no longer stores into the children map")
        only_files = re.compile(r"^(\w+\.)*ONLY_FILES$")
        for (sn, c, k, v) in tstores:
            r.site(fn, sn.ast, "store into children map")
            K = fnorm.norm(sn, k)
            C = fnorm.norm(sn, c)
            knames = {x.id for x in own_nodes(k) if isinstance(x, ast.Name)} | {cname}
            isdir = "IDirectoryNode.providedBy(%s[%s][0])" % (C, K)
            oldmd = "%s[%s][1]" % (C, K)
            um_calls = [cc for cc in calls_in_func(fn, "update_metadata")]
            if not um_calls:
                raise AnchorVanished("Adder.modify no longer calls update_metadata")
            mdvars = {cc.args[0].id for cc in um_calls if cc.args and isinstance(cc.args[0], ast.Name)}
            for cc in um_calls:
                r.site(fn, cc, "update_metadata call")

            # state: membership of the name (0 unknown / 1 present / 2 absent), overwrite seen truthy, ONLY_FILES-and-
            # directory excluded, locals holding the existing entry's metadata, overwrite seen falsy, overwrite seen
            # equal to ONLY_FILES, existing child seen to be a directory, locals holding fresh (None / {}) metadata
            INIT = (0, False, False, frozenset(), False, False, False, frozenset())

            def transfer(n, lab, nxt, st, K=K, C=C, knames=knames, isdir=isdir, oldmd=oldmd, mdvars=mdvars):
                if lab == "exc":
                    return st
                member, ow, of, md, owf, ofeq, isd, fresh = st
                if n.kind == "iter":
                    return INIT if lab == "iter" else st
                ns = node_stores(n)
                if ns & knames or (cname + "[]") in ns:
                    member, ow, of, isd = 0, False, False, False
                if n.kind == "stmt" and isinstance(n.ast, ast.Assign):
                    val = n.ast.value
                    for mv in mdvars & ns:
                        if _has_sub_norm(fnorm, n, val, oldmd):
                            md, fresh = md | {mv}, fresh - {mv}
                        elif (isinstance(val, ast.Constant) and val.value is None) or \
                                (isinstance(val, ast.Dict) and not val.keys):
                            md, fresh = md - {mv}, fresh | {mv}
                        elif not (isinstance(val, ast.Call) and call_tail(val) == "update_metadata"):
                            md, fresh = md - {mv}, fresh - {mv}
                elif mdvars & ns:
                    md, fresh = md - ns, fresh - ns
                f = fnorm.edge_fact(n, lab)
                if f:
                    op, l, rr = f
                    if op in ("in", "not in") and l == K and rr == C:
                        member = 1 if op == "in" else 2
                    if (op == "truth" and l == OW) or (op in ("is not", "!=") and {l, rr} == {"False", OW}) \
                            or (op in ("is", "==") and {l, rr} == {"True", OW}):
                        ow = True
                    if (op == "false" and l == OW) or (op in ("is", "==") and {l, rr} == {"False", OW}):
                        owf = True
                    if op in ("!=", "is not") and OW in (l, rr) and any(only_files.match(s or "") for s in (l, rr)):
                        of = True
                    if op in ("==", "is") and OW in (l, rr) and any(only_files.match(s or "") for s in (l, rr)):
                        ofeq = True
                    if op == "false" and l == isdir:
                        of = True
                    if op == "truth" and l == isdir:
                        isd = True
                    if op in ("is", "==") and {l, rr} == {"True", OW}:
                        of = True    # overwrite is True, hence not ONLY_FILES
                return (member, ow, of, md, owf, ofeq, isd, fresh)
            visited, parent = explore(cfg, INIT, transfer)
            r.count(len(visited))
            reported = set()
            refusals = cfg.find(raises("ExistingChildError"))
            for (nid, st) in sorted(visited, key=lambda x: (x[0], str(x[1]))):
                member, ow, of, md, owf, ofeq, isd, fresh = st
                if nid == sn.id and member != 2:
                    if not ow and "ow" not in reported:
                        reported.add("ow")
                        r.violation(fn, fn.loc(sn.ast), "an entry whose name may already exist is replaced without "
                                    "%s having been seen truthy (a no-overwrite add can replace an entry)" % OW,
                                    witness(cfg, parent, (nid, st)))
                    elif ow and not of and "of" not in reported:
                        reported.add("of")
                        r.violation(fn, fn.loc(sn.ast), "an existing entry is replaced without excluding "
                                    "(overwrite == ONLY_FILES and the existing child is a directory)",
                                    witness(cfg, parent, (nid, st)))
                n = cfg.nodes[nid]
                if member == 1 and n.kind == "stmt" and "md" not in reported:
                    for cc in calls_at(n, "update_metadata"):
                        a0 = arg(cc, 0, "metadata")
                        ok = (isinstance(a0, ast.Name) and a0.id in md) or \
                             (a0 is not None and not isinstance(a0, ast.Name) and _has_sub_norm(fnorm, n, a0, oldmd))
                        if not ok:
                            reported.add("md")
                            r.violation(fn, fn.loc(cc), "replacing an existing entry: update_metadata is not given the "
                                        "existing entry's metadata (%s), so its linkcrtime is lost" % src(fn, a0),
                                        witness(cfg, parent, (nid, st)))
                if member == 2 and n.kind == "stmt" and "fresh" not in reported:
                    for cc in calls_at(n, "update_metadata"):
                        a0 = arg(cc, 0, "metadata")
                        ok = (isinstance(a0, ast.Name) and a0.id in fresh) or \
                             (isinstance(a0, ast.Constant) and a0.value is None) or \
                             (isinstance(a0, ast.Dict) and not a0.keys)
                        if not ok:
                            reported.add("fresh")
                            r.violation(fn, fn.loc(cc), "adding a name that is not in the directory: update_metadata is "
                                        "given %s, which is not fresh (None) metadata of this item - the new entry inherits "
                                        "the metadata (linkcrtime) of another entry" % src(fn, a0),
                                        witness(cfg, parent, (nid, st)))
                if any(n is x for x in refusals) and ("refuse", nid) not in reported:
                    if not (member == 1 and (owf or (ofeq and isd))):
                        reported.add(("refuse", nid))
                        r.violation(fn, fn.loc(n.ast), "ExistingChildError can be raised although the map semantics allow "
                                    "the add (%s): an add is refused only for an existing name with overwrite falsy, or "
                                    "with overwrite == ONLY_FILES and an existing directory" % (
                                        "the name was not seen to exist" if member != 1 else
                                        "overwrite was not seen falsy, nor ONLY_FILES together with an existing directory"),
                                    witness(cfg, parent, (nid, st)))
            # the stored pair: (child of the entry, result of update_metadata)
            rd = fnorm.rd
            ok_pair = isinstance(v, ast.Tuple) and len(v.elts) == 2
            r.require(ok_pair, fn, fn.loc(sn.ast), "children map entry is not a (child, metadata) pair: %s" % src(fn, v))
            if ok_pair:
                m = v.elts[1]
                is_um = lambda dn: dn.kind == "stmt" and isinstance(dn.ast, ast.Assign) \
                    and isinstance(dn.ast.value, ast.Call) and call_tail(dn.ast.value) == "update_metadata"
                okm = (isinstance(m, ast.Call) and call_tail(m) == "update_metadata") or \
                      (isinstance(m, ast.Name) and _last_def_is(cfg, rd, sn, m.id, is_um))
                r.require(okm, fn, fn.loc(sn.ast), "the stored metadata %s is not the result of update_metadata "
                          "(timestamps would not be maintained)" % src(fn, m))
                r.require("self.entries" in depends_on(fn, v.elts[0]), fn, fn.loc(sn.ast),
                          "the stored child %s does not come from the entries being added" % src(fn, v.elts[0]))
        # the re-packed map is what modify returns
        bad = find_path_avoiding(cfg, lambda n: n.kind == "exit", gate_node=_pack_return_gate(fn, cfg, fnorm, cname))
        for (n, w) in bad:
            r.violation(fn, fn.loc(), "Adder.modify can return something else than the re-packed children map", w)
        # every item of the loop is handled with its own locals
        loops = [n for n in cfg.nodes if n.kind == "iter"]
        if not loops:
            raise AnchorVanished("Adder.modify no longer loops over the entries")
        for it in loops:
            for (n, name, w) in _loop_stale_uses(fn, cfg, it):
                r.violation(fn, fn.loc(n.ast), "'%s' is read for an item before this iteration assigned it: the value "
                            "of the previous entry leaks into this one (path: %s)" % (name, w.brief()), w)
        _check_readonly_wrap(r, fn, cfg, fnorm)
        # Adder.__init__ keeps the entries it was given
        ex2 = []
        _i, ENT, ent_store = _init_attr_of_param(idx, MOD + ":Adder", "entries", ex2)
        r.site(init, ent_store, "keeps entries as " + ENT)
        icfg = init.cfg()
        inorm = FlowNorm(init)
        for n in icfg.nodes:
            if n.kind == "stmt" and "entries" in node_stores(n) and not _mentions(getattr(n.ast, "value", None), "entries"):
                for (t, w) in find_path_avoiding(icfg, lambda x, n=n: x is n,
                                                 gate_edge=lambda m, lab: _none_or_falsy(inorm.edge_fact(m, lab), "entries")):
                    r.violation(init, init.loc(n.ast), "the entries given to Adder are replaced (%s) although they were not "
                                "seen to be None: the add silently adds nothing" % src(init, n.ast), w)
        r.require(any(ENT in depends_on(fn, it.ast.iter) for it in loops), fn, fn.loc(),
                  "Adder.modify does not iterate over %s" % ENT)

    # -- 2. update_metadata ---------------------------------------------------
    with ctx.rule("C20.2", "R1/R2", "update_metadata: linkcrtime stored only when absent; linkmotime = now on every path, "
                  "in the returned metadata's 'tahoe' dict; the old 'tahoe' dict survives replacement of the metadata; "
                  "the old metadata is discarded only when None; the caller's metadata is taken when given",
                  expected=5) as r:
        fn = idx.func(MOD + ":update_metadata")
        ps = fn.params
        if len(ps) != 3:
            raise AnchorVanished("update_metadata signature changed: %s" % ps)
        P0, P1, P2 = ps
        cfg = fn.cfg()
        fnorm = FlowNorm(fn, keep=(P0,))     # the metadata being updated is re-bound on some paths: keep its name
        subs = _subscript_assigns(cfg)
        # (a) linkcrtime
        crt = [(n, c, k, v) for (n, c, k, v) in subs if _const_key(k, "linkcrtime")]
        sd = [cc for cc in calls_in_func(fn, "setdefault") if cc.args and _const_key(cc.args[0], "linkcrtime")]
        if not crt and not sd:
            raise AnchorVanished("update_metadata no longer stores 'linkcrtime'")
        for cc in sd:
            r.site(fn, cc, "linkcrtime setdefault")
        for (n, c, k, v) in crt:
            r.site(fn, n.ast, "linkcrtime store")
            Cn = fnorm.norm(n, c)

            def absent(m, lab, Cn=Cn):
                f = fnorm.edge_fact(m, lab)
                return bool(f) and f[0] == "not in" and f[1] == repr("linkcrtime") and f[2] == Cn
            kill = stores(c.id) if isinstance(c, ast.Name) else None
            for (t, w) in find_path_avoiding(cfg, lambda x, n=n: x is n, gate_edge=absent, kill=kill):
                r.violation(fn, fn.loc(n.ast), "'linkcrtime' is overwritten although the entry may already have one "
                            "(link-creation time does not survive an update; path: %s)" % w.brief(), w)
        # (b) linkmotime
        mot = [(n, c, k, v) for (n, c, k, v) in subs if _const_key(k, "linkmotime")]
        if not mot:
            if not any(isinstance(x, ast.Constant) and x.value == "linkmotime" for x in func_own_nodes(fn)):
                raise AnchorVanished("update_metadata no longer mentions 'linkmotime'")
            r.violation(fn, fn.loc(), "update_metadata never assigns sysmd['linkmotime'] = %s: the modification time "
                        "does not advance on an update" % P2)
        good_mot = set()
        conts = set()
        for (n, c, k, v) in mot:
            r.site(fn, n.ast, "linkmotime store")
            vv = fnorm.resolve(n, v)
            if r.require(isinstance(vv, ast.Name) and vv.id == P2, fn, fn.loc(n.ast),
                         "'linkmotime' is set to %s, not to the time %s of this update" % (src(fn, v), P2)):
                good_mot.add(n.id)
                conts.add(fnorm.norm(n, c))
        for (t, w) in find_path_avoiding(cfg, lambda x: x.kind == "exit", gate_node=lambda x: x.id in good_mot):
            r.violation(fn, fn.loc(), "update_metadata can return without advancing 'linkmotime' (path: %s)" % w.brief(), w)
        for (n, c, k, v) in crt:
            r.require(fnorm.norm(n, c) in conts or not conts, fn, fn.loc(n.ast),
                      "'linkcrtime' and 'linkmotime' are kept in different dicts")
        # (c) the timestamp dict is the returned metadata's 'tahoe' entry
        rets = cfg.find(is_return)
        if not rets:
            raise AnchorVanished("update_metadata has no return")
        for rn in rets:
            rv = fnorm.resolve(rn, rn.ast.value) if rn.ast.value is not None else None
            if not r.require(isinstance(rv, ast.Name), fn, fn.loc(rn.ast), "update_metadata returns %s" % src(fn, rn.ast.value)):
                continue
            R = rv.id
            r.site(fn, rn.ast, "returned metadata")
            direct = [re.compile(r"^%s\.setdefault\('tahoe'" % re.escape(R)), re.compile(r"^%s\['tahoe'\]$" % re.escape(R))]

            def links(m, R=R):
                if m.kind != "stmt":
                    return False
                for (sn, c, k, v) in subs:
                    if sn is m and _const_key(k, "tahoe") and isinstance(c, ast.Name) and c.id == R \
                            and fnorm.norm(m, v) in conts:
                        return True
                return False
            if conts and all(any(p.match(cn) for p in direct) for cn in conts):
                continue
            for (t, w) in find_path_avoiding(cfg, lambda x, rn=rn: x is rn, gate_node=links, kill=stores(R)):
                r.violation(fn, fn.loc(rn.ast), "the dict carrying linkcrtime/linkmotime is not stored as %s['tahoe'] "
                            "on a path to the return (path: %s)" % (R, w.brief()), w)
        # (d) replacement by the caller's metadata keeps the old 'tahoe'
        repl_all = [n for n in cfg.nodes if n.kind == "stmt" and P0 in node_stores(n)]
        repl = [n for n in repl_all if isinstance(n.ast, ast.Assign)
                and any(isinstance(t, ast.Name) and t.id == P0 for t in n.ast.targets)
                and P1 in depends_on(fn, n.ast.value) and not _mentions(n.ast.value, P0)]
        if not repl:
            raise AnchorVanished("update_metadata: replacement of %s by the caller's %s not found" % (P0, P1))
        dels = _subscript_deletes(cfg)
        for n in repl_all:
            if n in repl or _mentions(getattr(n.ast, "value", None), P0):
                continue
            # any other re-binding of the old metadata (the "None -> {}" default) needs the old metadata to be absent
            r.site(fn, n.ast, "old metadata re-bound")
            for (t, w) in find_path_avoiding(cfg, lambda x, n=n: x is n,
                                             gate_edge=lambda m, lab: _none_or_falsy(fnorm.edge_fact(m, lab), P0)):
                r.violation(fn, fn.loc(n.ast), "the existing metadata is discarded (%s) although it was not seen to be "
                            "None (linkcrtime is lost; path: %s)" % (src(fn, n.ast), w.brief()), w)
        for n in repl:
            r.site(fn, n.ast, "metadata replaced by caller's")
            V = fnorm.norm(n, n.ast.value)

            def carried(m, V=V):
                for (sn, c, k, v) in subs:
                    if sn is m and _const_key(k, "tahoe") and fnorm.norm(m, c) == V \
                            and fnorm.norm(m, v) == "%s['tahoe']" % P0:
                        return True
                return False

            def old_has_none(m, lab):
                f = fnorm.edge_fact(m, lab)
                return (bool(f) and f[0] == "not in" and f[1] == repr("tahoe") and f[2] == P0) or _none_or_falsy(f, P0)
            for (t, w) in find_path_avoiding(cfg, lambda x, n=n: x is n, gate_node=carried, gate_edge=old_has_none):
                r.violation(fn, fn.loc(n.ast), "the metadata is replaced by the caller's without carrying over the old "
                            "'tahoe' dict (linkcrtime is lost; path: %s)" % w.brief(), w)

            def dropped(m, V=V):
                if carried(m):
                    return True
                for (dn, c, k) in dels:
                    if dn is m and _const_key(k, "tahoe") and fnorm.norm(m, c) == V:
                        return True
                for cc in calls_at(m, "pop"):
                    if cc.args and _const_key(cc.args[0], "tahoe") and isinstance(cc.func, ast.Attribute) \
                            and fnorm.norm(m, cc.func.value) == V:
                        return True
                return False

            def new_has_none(m, lab, V=V):
                f = fnorm.edge_fact(m, lab)
                return bool(f) and f[0] == "not in" and f[1] == repr("tahoe") and f[2] == V
            for (t, w) in find_path_avoiding(cfg, lambda x, n=n: x is n, gate_node=dropped, gate_edge=new_has_none):
                r.violation(fn, fn.loc(n.ast), "a caller-supplied 'tahoe' dict can survive into the stored metadata "
                            "(the caller could set linkcrtime; path: %s)" % w.brief(), w)
        # (e) a link-creation time taken from somewhere else than the clock is known not to be None
        for (n, c, k, v) in crt:
            vv = fnorm.resolve(n, v)
            if isinstance(vv, ast.Name) and vv.id == P2:
                continue
            V = fnorm.norm(n, v)
            kill = stores(v.id) if isinstance(v, ast.Name) else None
            for (t, w) in find_path_avoiding(cfg, lambda x, n=n: x is n, kill=kill,
                                             gate_edge=lambda m, lab, V=V: _not_none_or_truthy(fnorm.edge_fact(m, lab), V)):
                r.violation(fn, fn.loc(n.ast), "'linkcrtime' is set to %s, which is neither the time %s of this update nor "
                            "known to be a recorded time (it can be None: the entry never gets a link-creation time; "
                            "path: %s)" % (src(fn, v), P2, w.brief()), w)
        # (g) every returning path leaves a link-creation time behind: it stores one or saw that there is one
        crt_ids = {n.id for (n, c, k, v) in crt}
        crt_conts = {fnorm.norm(n, c) for (n, c, k, v) in crt}

        def has_crt(m, lab):
            f = fnorm.edge_fact(m, lab)
            return bool(f) and f[0] == "in" and f[1] == repr("linkcrtime") and f[2] in crt_conts
        for (t, w) in find_path_avoiding(cfg, lambda x: x.kind == "exit",
                                         gate_node=lambda x: x.id in crt_ids or any(
                                             cc.args and _const_key(cc.args[0], "linkcrtime") for cc in calls_at(x, "setdefault")),
                                         gate_edge=has_crt):
            r.violation(fn, fn.loc(), "update_metadata can return without the entry having a 'linkcrtime' (neither stored nor "
                        "seen to be present; path: %s)" % w.brief(), w)
        # (f) the caller's metadata, when given, is what is stored
        repl_ids = {n.id for n in repl}

        def tr(n, lab, nxt, st):
            if lab == "exc":
                return st
            given, taken = st
            if n.id in repl_ids:
                taken = True
            f = fnorm.edge_fact(n, lab)
            if _not_none_or_truthy(f, P1):
                given = True
            return (given, taken)
        visited, parent = explore(cfg, (False, False), tr)
        for (nid, st) in sorted(visited):
            if cfg.nodes[nid].kind == "exit" and st == (True, False):
                r.violation(fn, fn.loc(), "update_metadata can return without taking over the caller's %s although it was "
                            "seen not to be None (set-metadata / add with metadata stores the old metadata)" % P1,
                            witness(cfg, parent, (nid, st)))
                break
        r.count(len(cfg.nodes) * 6 + len(visited))

    # -- 3. move_child_to ----------------------------------------------------
    with ctx.rule("C20.3", "E7/R1", "move_child_to: delete(current) runs only after new_parent.set_node succeeded (a callback "
                  "registered after the one returning set_node's Deferred, or - under inlineCallbacks - a statement after the "
                  "yield that waits for it); rename-to-self returns before any effect, decided on the normalize()d names",
                  expected=4) as r:
        fn = idx.func(DN + ".move_child_to")
        ps = first_positional_params(fn)
        if len(ps) < 4 or "overwrite" not in ps:
            raise AnchorVanished("move_child_to signature changed: %s" % ps)
        NP = ps[1]
        cfg = fn.cfg()
        fnorm = FlowNorm(fn)
        inline = any((attr_path(dc.func if isinstance(dc, ast.Call) else dc) or "").split(".")[-1] == "inlineCallbacks"
                     for dc in fn.node.decorator_list)

        def same_expr(y, x):
            """y is the expression x, or its copy in a duplicated finally body (same kind at the same source extent)."""
            return y is x or (type(y) is type(x) and (getattr(y, "lineno", None), getattr(y, "col_offset", None),
                                                      getattr(y, "end_lineno", None), getattr(y, "end_col_offset", None))
                              == (getattr(x, "lineno", -1), getattr(x, "col_offset", -1),
                                  getattr(x, "end_lineno", -1), getattr(x, "end_col_offset", -1)))

        def nodes_of(x):
            """Every CFG node of move_child_to that evaluates the expression x (a finally body is copied per exit kind)."""
            return [n for n in cfg.nodes
                    if any(same_expr(y, x) for e in node_exprs(n) for y in own_nodes(e, into_lambda=True))]

        def leaves_early(n):
            """A statement that ends the operation: return, or Twisted's returnValue(..) (which raises)."""
            return is_return(n) or (n.kind == "stmt" and isinstance(n.ast, ast.Expr) and isinstance(n.ast.value, ast.Call)
                                    and call_tail(n.ast.value) == "returnValue")

        if not inline:
            rets = [n for n in cfg.find(is_return) if isinstance(_returned(cfg, fnorm, n), ast.Name)]
            regs_all = registrations(fn)
            dvars = {_returned(cfg, fnorm, n).id for n in rets} & {x.recv for x in regs_all}
            if len(dvars) != 1:
                raise AnchorVanished("move_child_to: the returned Deferred with the callback chain was not found")
            dv = dvars.pop()
            chain = [x for x in regs_all if x.recv == dv]

            def target_fn(x):
                t = x.target
                if isinstance(t, ast.Lambda):
                    return idx.lambda_func(fn, t)
                if isinstance(t, ast.Name) and t.id in fn.nested:
                    return fn.nested[t.id]
                return None

            def calls_of(x, tail):
                g = target_fn(x)
                if g is None:
                    return []
                return [(g, c) for c in calls_in_func(g, tail, into_lambda=True)]
            i_set = [i for i, x in enumerate(chain) if calls_of(x, "set_node")]
            i_del = [i for i, x in enumerate(chain) if calls_of(x, "delete")]
            if not i_set:
                raise AnchorVanished("move_child_to: no callback on %s performs set_node" % dv)
            if not i_del:
                raise AnchorVanished("move_child_to: no callback on %s performs delete" % dv)
            iS, iD = i_set[0], i_del[0]
            r.site(fn, chain[iS].call, "set_node callback")
            r.site(fn, chain[iD].call, "delete callback")
            r.require(iS < iD, fn, fn.loc(chain[iD].call), "the old link is deleted before (or together with) linking the "
                      "child into the new parent: a failed rename loses the child")
            r.require(chain[iD].kind == "cb", fn, fn.loc(chain[iD].call),
                      "delete is registered with %s: it also runs when set_node failed" % chain[iD].call.func.attr)
            r.require(chain[iS].kind == "cb", fn, fn.loc(chain[iS].call), "set_node callback registered as %s" % chain[iS].kind)
            for x in chain[iS + 1:iD]:
                r.require(x.kind == "cb", fn, fn.loc(x.call), "%s between set_node and delete can turn a failed set_node "
                          "into success, after which the old link is deleted" % x.call.func.attr)
            # the Deferred's source fetches the child that is later deleted
            srcs = [n for n in cfg.nodes if n.kind == "stmt" and assign_value(n, dv) is not None]
            if len(srcs) != 1 or not isinstance(assign_value(srcs[0], dv), ast.Call):
                raise AnchorVanished("move_child_to: source of Deferred %s not found" % dv)
            getc = assign_value(srcs[0], dv)
            F_nodes = [srcs[0]]
            gS = target_fn(chain[iS])
            set_calls = calls_of(chain[iS], "set_node")
            del_calls = calls_of(chain[iD], "delete")
            nS = _node_of_call(cfg, chain[iS].call)
            nD = _node_of_call(cfg, chain[iD].call)
            S_nodes = [nS] if nS is not None else []
            D_nodes = [nD] if nD is not None else []

            def from_pair(g, a):
                return bool(depends_on(g, a) & set(g.params))
            gcfg = gS.cfg()
            gnorm = FlowNorm(gS)

            def returns_set(n):
                if not is_return(n) or n.ast.value is None:
                    return False
                v = gnorm.resolve(n, n.ast.value)
                return isinstance(v, ast.Call) and call_tail(v) == "set_node"
            for (t, w) in find_path_avoiding(gcfg, lambda x: x.kind == "exit", gate_node=returns_set):
                r.violation(gS, gS.loc(), "the set_node callback does not return set_node's Deferred: delete runs without "
                            "waiting for (or despite the failure of) the link into the new parent", w)
        else:
            # inlineCallbacks: the three operations are statements of the generator itself, `x = yield d` waits for d and
            # re-raises its failure, so "registered after" becomes "on every path, after the yield was left normally"
            def own_calls(tail):
                own = calls_in_func(fn, tail)
                everywhere = sum(len(calls_in_func(g, tail, into_lambda=True)) for g in _all_bodies(fn))
                if not own:
                    raise AnchorVanished("move_child_to (inlineCallbacks): no %s call in the generator body" % tail)
                if everywhere != len(own):
                    raise AnchorVanished("move_child_to (inlineCallbacks): %s is also called from a nested function / "
                                         "lambda - callbacks mixed into the generator are not analysed" % tail)
                return own
            rd = fnorm.rd

            def wait_nodes(c, what):
                """The CFG nodes at which the generator waits for the Deferred of call c (None: the result is dropped)."""
                W, here = [], nodes_of(c)
                here_ids = {n.id for n in here}
                if not here:
                    raise AnchorVanished("move_child_to (inlineCallbacks): %s not found in the CFG" % what)
                for n in here:
                    a = n.ast
                    if any(isinstance(y, ast.Yield) and y.value is not None and same_expr(y.value, c) for y in own_nodes(a)):
                        W.append(n)
                    elif isinstance(a, ast.Expr) and same_expr(a.value, c):
                        return None
                    elif isinstance(a, ast.Assign) and len(a.targets) == 1 and isinstance(a.targets[0], ast.Name) \
                            and same_expr(a.value, c):
                        v = a.targets[0].id
                        for m in cfg.nodes:
                            if m.kind == "stmt" and any(isinstance(y, ast.Yield) and isinstance(y.value, ast.Name)
                                                        and y.value.id == v for y in own_nodes(m.ast)):
                                ds = set(rd.get(m.id, {}).get(v) or ())
                                if ds and ds <= here_ids:
                                    W.append(m)
                    else:
                        raise AnchorVanished("move_child_to (inlineCallbacks): what happens to the Deferred of %s is not "
                                             "understood: %s" % (what, src(fn, a)))
                return W
            fetches = own_calls("get_child_and_metadata")
            if len(fetches) != 1:
                raise AnchorVanished("move_child_to (inlineCallbacks): %d calls of get_child_and_metadata" % len(fetches))
            getc = fetches[0]
            F_nodes = nodes_of(getc)
            if not wait_nodes(getc, "get_child_and_metadata"):
                raise AnchorVanished("move_child_to (inlineCallbacks): the fetched (child, metadata) pair is not waited for")
            set_calls = [(fn, c) for c in own_calls("set_node")]
            del_calls = [(fn, c) for c in own_calls("delete")]
            S_nodes = [n for (_g, c) in set_calls for n in nodes_of(c)]
            D_nodes = [n for (_g, c) in del_calls for n in nodes_of(c)]
            nS = S_nodes[0] if S_nodes else None
            nD = D_nodes[0] if D_nodes else None
            r.site(fn, set_calls[0][1], "set_node step")
            r.site(fn, del_calls[0][1], "delete step")
            W_ids = set()
            for (_g, c) in set_calls:
                W = wait_nodes(c, "set_node")
                if W is None:
                    r.violation(fn, fn.loc(c), "the Deferred of %s is dropped instead of being yielded: delete runs without "
                                "waiting for (or despite the failure of) the link into the new parent" % src(fn, c))
                else:
                    W_ids |= {n.id for n in W}
            D_ids = {n.id for n in D_nodes}
            for (t, w) in find_path_avoiding(cfg, lambda x: x.id in D_ids, gate_node=lambda x: x.id in W_ids):
                r.violation(fn, fn.loc(t.ast), "the old link is deleted on a path on which new_parent.set_node has not "
                            "succeeded (not yet called, not waited for, or its failure was caught / passed through a "
                            "finally): a failed rename loses the child (path: %s)" % w.brief(), w)
                break

            def from_pair(g, a):
                return "self.get_child_and_metadata" in depends_on(g, a)

        r.require(call_name(getc) in ("self.get_child_and_metadata",) and len(getc.args) == 1, fn, fn.loc(getc),
                  "the move does not start from self.get_child_and_metadata(name): %s" % src(fn, getc))

        def peeled(node, e):
            """Normal form of a name expression with local copies resolved and normalize(..) wrappers removed: two
            expressions with the same peeled form address the same entry of the NFC-keyed children map."""
            for _ in range(6):
                e = fnorm.resolve(node, e) if node is not None else e
                if _is_normalize_call(e):
                    e = e.args[0] if e.args else e.keywords[0].value
                else:
                    break
            return fnorm.norm(node, e) if node is not None else None
        fetched = peeled(F_nodes[0], getc.args[0]) if getc.args and F_nodes else None
        # set_node
        new_name = None
        for (g, c) in set_calls:
            r.require(call_name(c) == NP + ".set_node", g, g.loc(c), "set_node is called on %s, not on the new parent %s" % (
                call_name(c), NP))
            ow = arg(c, 3, "overwrite")
            r.require(isinstance(ow, ast.Name) and ow.id == "overwrite", g, g.loc(c),
                      "the overwrite mode is not forwarded to set_node (a no-overwrite rename can replace an entry)")
            a0 = arg(c, 0, "namex")
            new_name = peeled(nS, a0) if a0 is not None and nS is not None else None
            for (pos, nm) in ((1, "child"), (2, "metadata")):
                a = arg(c, pos, nm)
                r.require(a is not None and from_pair(g, a), g, g.loc(c),
                          "set_node's %s does not come from the fetched (child, metadata) pair" % nm)
        # the new name is the caller's, unless none was given
        NNP = ps[2] if ps[2] != "overwrite" else None
        if NNP is None:
            raise AnchorVanished("move_child_to: parameter carrying the new name not found: %s" % ps)
        for (g, c) in set_calls:
            a0 = arg(c, 0, "namex")
            if not isinstance(a0, ast.Name):
                continue
            defs = [n for n in cfg.nodes if n.kind == "stmt" and a0.id in node_stores(n)]
            r.require(bool(defs) or a0.id == NNP, g, g.loc(c), "the name given to set_node (%s) is not a local of "
                      "move_child_to derived from %s" % (a0.id, NNP))
            r.require(a0.id == NNP or not defs or any(NNP in depends_on(fn, n.ast.value) for n in defs
                                                       if isinstance(n.ast, ast.Assign)),
                      g, g.loc(c), "the name given to set_node never comes from the caller's %s" % NNP)
            for n in defs:
                if isinstance(n.ast, ast.Assign) and NNP in depends_on(fn, n.ast.value):
                    continue
                for (t, w) in find_path_avoiding(cfg, lambda x, n=n: x is n,
                                                 gate_edge=lambda m, lab: _none_or_falsy(fnorm.edge_fact(m, lab), NNP)):
                    r.violation(fn, fn.loc(n.ast), "the new name is set to %s although the caller's %s was not seen to be "
                                "None: a rename keeps the old name (and, in the same directory, does nothing; path: %s)" % (
                                    src(fn, n.ast), NNP, w.brief()), w)
        # delete
        deleted = None
        for (g, c) in del_calls:
            r.require(call_name(c) == "self.delete", g, g.loc(c), "delete is called on %s" % call_name(c))
            a0 = arg(c, 0, "namex")
            deleted = peeled(nD, a0) if a0 is not None and nD is not None else None
            r.require(deleted is not None and deleted == fetched, g, g.loc(c),
                      "the deleted name %s is not the fetched name %s" % (deleted, fetched))
            for kw in c.keywords:
                r.require(kw.arg not in ("must_be_directory", "must_be_file"), g, g.loc(c),
                          "delete of the moved link is restricted by %s" % kw.arg)
        # rename-to-self shortcut
        caps = ("get_write_uri", "get_uri", "get_readonly_uri", "get_storage_index", "get_verify_cap")
        capre = re.compile(r"^(self|%s)\.(%s)\(\)$" % (re.escape(NP), "|".join(caps)))
        judge3 = _NameJudge(idx)
        raw_guards = []

        def cmp_operands(n):
            """The two operand expressions of the comparison tested at n (through `not` and a flag local)."""
            e = n.ast
            for _ in range(6):
                if isinstance(e, ast.UnaryOp) and isinstance(e.op, ast.Not):
                    e = e.operand
                elif isinstance(e, ast.Name) and isinstance(fnorm.env_at(n).defs.get(e.id), (ast.Compare, ast.UnaryOp)):
                    e = fnorm.env_at(n).defs[e.id]
                else:
                    break
            if isinstance(e, ast.Compare) and len(e.ops) == 1:
                return e.left, e.comparators[0]
            return None

        def kind_of(n, lab, eq):
            """'name' / 'dir' when the edge fact relates the two names / the two directories with (in)equality.  Equal
            raw names are equal entries, but only *different normalize()d names* are different entries: for the
            inequality both operands must be results of normalize(..)."""
            f = fnorm.edge_fact(n, lab)
            if not f:
                return None
            op, l, rr = f
            if op not in (("==", "is") if eq else ("!=", "is not")):
                return None
            a, b = capre.match(l or ""), capre.match(rr or "")
            if a and b and a.group(1) != b.group(1) and a.group(2) == b.group(2):
                return "dir"
            ops_ = cmp_operands(n)
            if ops_ is None or new_name is None or deleted is None or new_name == deleted:
                return None
            if {peeled(n, ops_[0]), peeled(n, ops_[1])} != {new_name, deleted}:
                return None
            if eq:
                return "name"
            bad = []
            for o in ops_:
                bad += judge3.judge(fn, n, o)
            if bad:
                if n.id not in {x[0].id for x in raw_guards}:
                    raw_guards.append((n, bad))
                return None
            return "name"
        effect_ids = {x.id for x in list(S_nodes) + list(D_nodes) + list(F_nodes)}
        r.site(fn, F_nodes[0].ast, "effects gated by the shortcut")
        for (t, w) in find_path_avoiding(cfg, lambda x: x.id in effect_ids, gate_node=leaves_early,
                                         gate_edge=lambda n, lab: kind_of(n, lab, False) is not None):
            if raw_guards:
                gn, bad = raw_guards[0]
                r.violation(fn, fn.loc(gn.ast), "the rename-to-self shortcut compares names that are not normalize()d (%s): "
                            "get_child_and_metadata / set_node / delete address the entry by the normalised name, so a "
                            "rename between two unicode spellings of one name is not short-circuited - the child is "
                            "re-linked onto itself and then deleted (path: %s)" % (bad[0][2], w.brief()), w)
            else:
                r.violation(fn, fn.loc(t.ast), "a rename onto the same name in the same directory is not short-circuited: "
                            "the child is re-linked and then deleted (path: %s)" % w.brief(), w)
            break
        S_ids = {x.id for x in S_nodes}

        def is_shortcut(n):
            if not leaves_early(n):
                return False
            if is_return(n):
                v = _returned(cfg, fnorm, n)
                if isinstance(v, ast.Call) and call_tail(v) == "fail":
                    return False
                if not inline and not (isinstance(v, ast.Call) and call_tail(v) == "succeed"):
                    return False
            return True
        shortcuts = [t for (t, _w) in find_path_avoiding(cfg, is_shortcut, gate_node=lambda x: x.id in S_ids)]
        for sn in shortcuts:
            r.site(fn, sn.ast, "shortcut return")

        def tr(n, lab, nxt, st):
            if lab == "exc":
                return st
            k = kind_of(n, lab, True)
            if k == "name":
                return (True, st[1])
            if k == "dir":
                return (st[0], True)
            return st
        visited, parent = explore(cfg, (False, False), tr)
        r.count(len(visited))
        for sn in shortcuts:
            for (nid, st) in sorted(visited):
                if nid == sn.id and st != (True, True):
                    r.violation(fn, fn.loc(sn.ast), "move_child_to returns without moving although %s" % (
                        "the new name may differ" if not st[0] else "the new parent may be another directory"),
                        witness(cfg, parent, (nid, st)))
                    break

    # -- 4. Deleter.modify -----------------------------------------------------
    with ctx.rule("C20.4", "R1/R4", "Deleter.modify: the only mutation of the children map is 'del children[self.name]', "
                  "after the must_be_directory / must_be_file gates; the re-packed map is returned; no-op and refusals only "
                  "in their documented cases", expected=5) as r:
        fn = idx.func(MOD + ":Deleter.modify")
        cfg = fn.cfg()
        fnorm = FlowNorm(fn)
        cname = _unpacked_container(fn)
        dinit = idx.func(MOD + ":Deleter.__init__")
        # attribute holding the name: the self.X that modify tests for membership in the children map and that
        # __init__ binds (whether the bound value is normalised is decided by C20.8)
        bound = set()
        for n in func_own_nodes(dinit):
            if isinstance(n, ast.Assign):
                bound |= {attr_path(t) for t in n.targets if (attr_path(t) or "").startswith("self.")}
        name_attrs = set()
        for n in cfg.nodes:
            if n.kind == "test":
                f = fnorm.edge_fact(n, ("T", n.ast))
                if f and f[0] in ("in", "not in") and f[1] in bound \
                        and f[2] == fnorm.norm(n, ast.Name(id=cname, ctx=ast.Load())):
                    name_attrs.add(f[1])
        if len(name_attrs) != 1:
            raise AnchorVanished("Deleter: attribute holding the name (bound in __init__, tested against the children "
                                 "map in modify) not found: %s" % sorted(name_attrs))
        NAME = name_attrs.pop()
        _i, MBD, _s = _init_attr_of_param(idx, MOD + ":Deleter", "must_be_directory")
        _i, MBF, _s = _init_attr_of_param(idx, MOD + ":Deleter", "must_be_file")
        muts = []
        for (n, c, k) in _subscript_deletes(cfg):
            if isinstance(c, ast.Name) and c.id == cname:
                muts.append(("del", n, k))
        for (n, c, k, v) in _subscript_assigns(cfg):
            if isinstance(c, ast.Name) and c.id == cname:
                muts.append(("store", n, k))
        for n in cfg.nodes:
            for cc in node_calls(n):
                if isinstance(cc.func, ast.Attribute) and attr_path(cc.func.value) == cname \
                        and cc.func.attr in ("pop", "clear", "popitem", "update", "setdefault", "__delitem__", "__setitem__"):
                    muts.append((cc.func.attr, n, cc.args[0] if cc.args else None))
        if not muts:
            raise AnchorVanished("Deleter.modify no longer removes anything from the children map")
        dnodes = []
        for (kind, n, k) in muts:
            r.site(fn, n.ast, "mutation of children map (%s)" % kind)
            ok = kind in ("del", "pop", "__delitem__") and k is not None and fnorm.norm(n, k) == NAME
            r.require(ok, fn, fn.loc(n.ast), "Deleter changes the children map by %s %s, not by deleting exactly %s" % (
                kind, src(fn, k) if k is not None else "", NAME))
            if ok:
                dnodes.append(n)
        r.require(len(dnodes) <= 1, fn, fn.loc(), "Deleter deletes more than once")
        C = fnorm.norm(dnodes[0], ast.Name(id=cname, ctx=ast.Load())) if dnodes else None
        old0 = "%s[%s][0]" % (C, NAME)

        def old_expr_ok(testnode, argexpr):
            """argexpr denotes children[self.name][0] at testnode (directly or through an attribute copy)."""
            if fnorm.norm(testnode, argexpr) == old0:
                return True
            p = attr_path(argexpr)
            if not p:
                return False
            setters = []
            for m in cfg.nodes:
                if m.kind == "stmt" and isinstance(m.ast, ast.Assign) and p in node_stores(m):
                    val = None
                    for t in m.ast.targets:
                        if attr_path(t) == p:
                            val = m.ast.value
                        elif isinstance(t, (ast.Tuple, ast.List)):
                            for i, tt in enumerate(t.elts):
                                if attr_path(tt) == p:
                                    if isinstance(m.ast.value, (ast.Tuple, ast.List)) and len(m.ast.value.elts) == len(t.elts):
                                        val = m.ast.value.elts[i]
                                    else:
                                        val = ast.Subscript(value=m.ast.value, slice=ast.Constant(value=i), ctx=ast.Load())
                    if val is not None and fnorm.norm(m, val) == old0:
                        setters.append(m.id)
            if not setters:
                return False
            bad = find_path_avoiding(cfg, lambda x: x is testnode, gate_node=lambda x: x.id in setters,
                                     kill=lambda x: p in node_stores(x) and x.id not in setters)
            return not bad
        for dn in dnodes:
            for (flag, iface, what) in ((MBD, "IFileNode", "a file is deleted although a directory was required"),
                                        (MBF, "IDirectoryNode", "a directory is deleted although a file was required")):
                def gate(n, lab, flag=flag, iface=iface):
                    f = fnorm.edge_fact(n, lab)
                    if not f:
                        return False
                    op, l, rr = f
                    if op == "false" and l == flag:
                        return True
                    if op == "false" and n.kind == "test" and isinstance(n.ast, ast.Call) \
                            and call_name(n.ast) == iface + ".providedBy" and len(n.ast.args) == 1:
                        return old_expr_ok(n, n.ast.args[0])
                    return False
                r.site(fn, dn.ast, "type gate " + flag)
                for (t, w) in find_path_avoiding(cfg, lambda x, dn=dn: x is dn, gate_edge=gate):
                    r.violation(fn, fn.loc(dn.ast), "%s (path: %s)" % (what, w.brief()), w)
            pk = _pack_return_gate(fn, cfg, fnorm, cname)
            for (s, w) in find_path_from_to_avoiding(cfg, lambda x, dn=dn: x is dn, pk):
                r.violation(fn, fn.loc(dn.ast), "after deleting the entry Deleter.modify does not return the re-packed "
                            "children map: the delete is not written", w)
        # outcomes: no-op / NoSuchChildError only for an absent name, ChildOfWrongTypeError only for the requested
        # type mismatch, and a first-time delete of an absent name with must_exist does not succeed
        _i, MEX, _s = _init_attr_of_param(idx, MOD + ":Deleter", "must_exist")
        if len(fn.params) < 4:
            raise AnchorVanished("Deleter.modify signature changed: %s" % fn.params)
        FT = fn.params[3]
        dids = {n.id for n in dnodes}
        cexpr = ast.Name(id=cname, ctx=ast.Load())
        INIT4 = (0, False, False, False, False, False, False, False)

        def tr4(n, lab, nxt, st):
            if lab == "exc":
                return st
            member, ft, me, mbd, mbf, isf, isd, deleted = st
            if n.id in dids:
                deleted = True
            f = fnorm.edge_fact(n, lab)
            if f:
                op, l, rr = f
                if op in ("in", "not in") and l == NAME and rr == fnorm.norm(n, cexpr):
                    member = 1 if op == "in" else 2
                if op == "truth":
                    ft = ft or l == FT
                    me = me or l == MEX
                    mbd = mbd or l == MBD
                    mbf = mbf or l == MBF
                    if n.kind == "test" and isinstance(n.ast, ast.Call) and len(n.ast.args) == 1 \
                            and call_name(n.ast) in ("IFileNode.providedBy", "IDirectoryNode.providedBy") \
                            and old_expr_ok(n, n.ast.args[0]):
                        if call_name(n.ast).startswith("IFileNode"):
                            isf = True
                        else:
                            isd = True
            return (member, ft, me, mbd, mbf, isf, isd, deleted)
        visited, parent = explore(cfg, INIT4, tr4)
        r.count(len(visited))
        wrong_type = cfg.find(raises("ChildOfWrongTypeError"))
        no_such = cfg.find(raises("NoSuchChildError"))
        for n in wrong_type + no_such:
            r.site(fn, n.ast, "refusal")
        r.require(bool(no_such), fn, fn.loc(), "Deleter.modify never raises NoSuchChildError: deleting a name that does not "
                  "exist (with %s) reports success" % MEX)
        reported = set()
        for (nid, st) in sorted(visited, key=lambda x: (x[0], str(x[1]))):
            member, ft, me, mbd, mbf, isf, isd, deleted = st
            n = cfg.nodes[nid]
            if any(n is x for x in wrong_type) and nid not in reported and not ((mbd and isf) or (mbf and isd)):
                reported.add(nid)
                r.violation(fn, fn.loc(n.ast), "ChildOfWrongTypeError can be raised without (%s and the child is a file) or "
                            "(%s and the child is a directory): an unrestricted delete is refused" % (MBD, MBF),
                            witness(cfg, parent, (nid, st)))
            if any(n is x for x in no_such) and nid not in reported and not (member == 2 and me):
                reported.add(nid)
                r.violation(fn, fn.loc(n.ast), "NoSuchChildError can be raised although %s" % (
                    "the name was not seen to be absent" if member != 2 else "%s was not seen truthy" % MEX),
                    witness(cfg, parent, (nid, st)))
            if n.kind == "exit" and not deleted and "exit" not in reported:
                if member != 2:
                    reported.add("exit")
                    r.violation(fn, fn.loc(), "Deleter.modify can return without deleting although the name was not seen "
                                "to be absent: the delete silently does nothing", witness(cfg, parent, (nid, st)))
                elif ft and me:
                    reported.add("exit")
                    r.violation(fn, fn.loc(), "a first-time delete of an absent name with %s returns as if it had "
                                "succeeded" % MEX, witness(cfg, parent, (nid, st)))
        r.count(len(cfg.nodes) * 3)

    # -- 5. MetadataSetter.modify ------------------------------------------------
    with ctx.rule("C20.5", "R1", "MetadataSetter.modify: stores children[name] only under 'name in children', with the "
                  "existing child and metadata = update_metadata(existing metadata, ..)", expected=1) as r:
        fn = idx.func(MOD + ":MetadataSetter.modify")
        cfg = fn.cfg()
        fnorm = FlowNorm(fn)
        cname = _unpacked_container(fn)
        tstores = [(n, c, k, v) for (n, c, k, v) in _subscript_assigns(cfg) if isinstance(c, ast.Name) and c.id == cname]
        if not tstores:
            raise AnchorVanished("MetadataSetter.modify no longer stores into the children map")
        for (dn, c, k) in _subscript_deletes(cfg):
            if isinstance(c, ast.Name) and c.id == cname:
                r.violation(fn, fn.loc(dn.ast), "MetadataSetter deletes an entry")
        for (sn, c, k, v) in tstores:
            r.site(fn, sn.ast)
            K = fnorm.norm(sn, k)
            C = fnorm.norm(sn, c)

            def present(n, lab, K=K, C=C):
                f = fnorm.edge_fact(n, lab)
                return bool(f) and f[0] == "in" and f[1] == K and f[2] == C
            for (t, w) in find_path_avoiding(cfg, lambda x, sn=sn: x is sn, gate_edge=present):
                r.violation(fn, fn.loc(sn.ast), "set-metadata can create an entry: the store is reachable without "
                            "'%s in children' (path: %s)" % (K, w.brief()), w)
            if not r.require(isinstance(v, ast.Tuple) and len(v.elts) == 2, fn, fn.loc(sn.ast),
                             "entry is not a (child, metadata) pair"):
                continue
            ch, md = v.elts
            # child: children[name][0], possibly wrapped by create_readonly_node(child, name)
            old0 = "%s[%s][0]" % (C, K)
            rd = fnorm.rd

            def child_def_ok(dn):
                if dn.kind != "stmt" or not isinstance(dn.ast, ast.Assign):
                    return False
                val = dn.ast.value
                if fnorm.norm(dn, val) == old0:
                    return True
                return isinstance(val, ast.Call) and call_tail(val) == "create_readonly_node" and val.args \
                    and (fnorm.norm(dn, val.args[0]) == old0 or (
                        isinstance(val.args[0], ast.Name) and isinstance(ch, ast.Name) and val.args[0].id == ch.id))
            okc = fnorm.norm(sn, ch) == old0 or (isinstance(ch, ast.Name) and _last_def_is(cfg, rd, sn, ch.id, child_def_ok))
            r.require(okc, fn, fn.loc(sn.ast), "set-metadata stores child %s, not the existing child of that name" % src(fn, ch))
            mdv = fnorm.resolve(sn, md)
            okm = isinstance(mdv, ast.Call) and call_tail(mdv) == "update_metadata" and mdv.args \
                and _has_sub_norm(fnorm, sn, mdv.args[0], "%s[%s][1]" % (C, K))
            r.require(okm, fn, fn.loc(sn.ast), "set-metadata does not derive the stored metadata from "
                      "update_metadata(existing metadata, ..): %s" % src(fn, mdv))
        bad = find_path_avoiding(cfg, lambda n: n.kind == "exit", gate_node=_pack_return_gate(fn, cfg, fnorm, cname))
        for (n, w) in bad:
            r.violation(fn, fn.loc(), "MetadataSetter.modify can return something else than the re-packed children map", w)
        _check_readonly_wrap(r, fn, cfg, fnorm)
        r.count(len(cfg.nodes) * 2)

    # -- 6. overwrite forwarded ----------------------------------------------------
    with ctx.rule("C20.6", "R4", "every DirectoryNode operation with an 'overwrite' parameter hands it to Adder(..) / "
                  "set_node(..)", expected=7) as r:
        ci = idx.cls(DN)
        pos_adder = first_positional_params(idx.func(MOD + ":Adder.__init__")).index("overwrite")
        pos_set = first_positional_params(idx.func(DN + ".set_node")).index("overwrite")
        n_methods = 0
        # constructor calls of any other modifier class that binds names (discovered from the write sites) forward too
        other_ctors, closures = {}, []
        try:
            for rec in modifiers():
                if rec.binds and rec.cls is not None and rec.cls.name != "Adder" and rec.owparam is not None:
                    for (_m, _g, _c, _owner, ctor) in rec.sites:
                        if ctor is not None:
                            other_ctors[id(ctor)] = rec
                elif rec.binds and rec.cls is None:
                    closures.append(rec)      # a nested function: the mode reaches it through the closure
        except AnalysisError:
            pass                      # reported by C20.10
        for m in ci.methods.values():
            if "overwrite" not in m.params:
                continue
            n_methods += 1
            adder_locals = set()
            for x in ast.walk(m.node):
                if isinstance(x, ast.Assign) and isinstance(x.value, ast.Call) and call_tail(x.value) == "Adder":
                    adder_locals |= {t.id for t in x.targets if isinstance(t, ast.Name)}
            # a nested function must not shadow the name
            for x in ast.walk(m.node):
                if x is not m.node and isinstance(x, (ast.FunctionDef, ast.Lambda)):
                    a = x.args
                    if "overwrite" in [y.arg for y in a.args + a.kwonlyargs]:
                        r.violation(m, m.loc(x), "nested function re-binds 'overwrite'")
            fwd = 0
            for x in ast.walk(m.node):
                if not isinstance(x, ast.Call):
                    continue
                t = call_tail(x)
                if t == "Adder":
                    a = arg(x, pos_adder, "overwrite")
                elif id(x) in other_ctors:
                    a = arg(x, other_ctors[id(x)].owpos, other_ctors[id(x)].owparam)
                elif t == "set_node" and isinstance(x.func, ast.Attribute) and attr_path(x.func.value) not in adder_locals:
                    a = arg(x, pos_set, "overwrite")
                else:
                    continue
                r.site(m, x, "forwarding site")
                fwd += 1
                r.require(isinstance(a, ast.Name) and a.id == "overwrite", m, m.loc(x),
                          "%s does not pass on its overwrite mode in %s (the default True replaces existing entries)" % (
                              short(m), src(m, x)))
            for rec in closures:
                if _outermost(rec.fn) is m and "overwrite" not in rec.fn.params:
                    r.site(rec.fn, rec.fn.node, "modifier reading the mode from the closure")
                    fwd += 1
                    r.require(any(isinstance(y, ast.Name) and y.id == "overwrite" and isinstance(y.ctx, ast.Load)
                                  for y in func_own_nodes(rec.fn, into_lambda=True)), rec.fn, rec.fn.loc(),
                              "%s never reads the overwrite mode of %s" % (short(rec.fn), short(m)))
            r.require(fwd > 0, m, m.loc(), "%s accepts an overwrite mode but never hands it to Adder / set_node" % short(m))
        if n_methods == 0:
            raise AnchorVanished("no DirectoryNode method takes an overwrite parameter")

    # -- 7. the operations hand their arguments to the modifier and the modifier to the mutable file --------------
    with ctx.rule("C20.7", "R4/E7", "every DirectoryNode operation that builds an Adder / Deleter / MetadataSetter passes "
                  "its arguments on, gives every item to the Adder, writes through self._node.modify(modifier.modify) and "
                  "returns that Deferred; create_subdirectory registers the linking step", expected=16) as r:
        ci = idx.cls(DN)
        # Adder.set_node keeps the item
        asn = idx.func(MOD + ":Adder.set_node")
        aps = first_positional_params(asn)
        if len(aps) != 3:
            raise AnchorVanished("Adder.set_node signature changed: %s" % aps)
        _i, ENT, _s = _init_attr_of_param(idx, MOD + ":Adder", "entries", [])
        acfg = asn.cfg()
        anorm = FlowNorm(asn)
        kept = [(n, c, k, v) for (n, c, k, v) in _subscript_assigns(acfg) if attr_path(c) == ENT]
        if not kept:
            raise AnchorVanished("Adder.set_node no longer stores into %s" % ENT)
        for (n, c, k, v) in kept:
            r.site(asn, n.ast, "item kept")
            kk = anorm.resolve(n, k)
            kdep = depends_on(asn, kk)
            r.require(aps[0] in kdep and not (set(aps[1:]) & kdep), asn, asn.loc(n.ast),
                      "Adder.set_node files the item under %s, not under the given name %s" % (src(asn, k), aps[0]))
            vv = anorm.resolve(n, v)
            okv = isinstance(vv, ast.Tuple) and len(vv.elts) == 2 \
                and isinstance(anorm.resolve(n, vv.elts[0]), ast.Name) and anorm.resolve(n, vv.elts[0]).id == aps[1] \
                and aps[2] in depends_on(asn, vv.elts[1]) and not ({aps[0], aps[1]} & depends_on(asn, vv.elts[1]))
            r.require(okv, asn, asn.loc(n.ast), "Adder.set_node keeps %s, not the pair (%s, %s)" % (src(asn, v), aps[1], aps[2]))
        for (t, w) in find_path_avoiding(acfg, lambda x: x.kind == "exit", gate_node=lambda x: any(x is n for (n, c, k, v) in kept)):
            r.violation(asn, asn.loc(), "Adder.set_node can return without keeping the item", w)

        MODIFIERS = {"Adder": MOD + ":Adder", "Deleter": MOD + ":Deleter", "MetadataSetter": MOD + ":MetadataSetter"}
        n_ops = 0

        def bodies(m):
            yield m, None
            for g in m.nested.values():
                yield g, m
        for m in ci.methods.values():
            for (g, outer) in bodies(m):
                gcfg = g.cfg()
                for bn in gcfg.nodes:
                    if bn.kind != "stmt" or not isinstance(bn.ast, ast.Assign) or not isinstance(bn.ast.value, ast.Call):
                        continue
                    ctor = bn.ast.value
                    kind = call_tail(ctor)
                    if kind not in MODIFIERS or not isinstance(ctor.func, ast.Name):
                        continue
                    locs = [t.id for t in bn.ast.targets if isinstance(t, ast.Name)]
                    if len(locs) != 1:
                        raise AnchorVanished("%s: %s(..) is not bound to one local" % (short(g), kind))
                    X = locs[0]
                    n_ops += 1
                    r.site(g, ctor, "%s built" % kind)
                    gnorm = FlowNorm(g)
                    cps = first_positional_params(idx.func(MODIFIERS[kind] + ".__init__"))
                    mps = [p for p in first_positional_params(m)]
                    # (a) same-named parameters are passed on unchanged in meaning
                    for p in mps:
                        if p not in cps or p == "overwrite":     # overwrite: C20.6
                            continue
                        a = arg(ctor, cps.index(p), p)
                        if a is None and p == "entries" and kind == "Adder":
                            continue    # items are given one by one, checked below
                        dep = depends_on(m, a) if a is not None else set()
                        if outer is not None and a is not None:
                            dep |= depends_on(g, a)
                        others = {q for q in mps if q != p and q in dep}
                        r.require(a is not None and p in dep | ({p} if isinstance(a, ast.Name) and a.id == p else set())
                                  and not others, g, g.loc(ctor),
                                  "%s does not pass its %s on to %s(..): %s" % (short(m), p, kind, src(g, a) if a is not None else "missing"))
                    # (b) the write: self._node.modify(X.modify), whose Deferred is what is returned afterwards
                    wr = [wn for wn in gcfg.nodes if wn.kind == "stmt" for cc in calls_at(wn, "modify")
                          if cc.args and isinstance(cc.args[0], ast.Attribute) and cc.args[0].attr == "modify"
                          and attr_path(cc.args[0].value) == X]
                    if not wr:
                        raise AnchorVanished("%s: %s.modify is not handed to self._node.modify" % (short(g), X))
                    wn = wr[0]
                    r.site(g, wn.ast, "write")
                    seen, work = {wn.id}, [wn.id]
                    while work:
                        cur = work.pop()
                        for (d, lab) in gcfg.succ[cur]:
                            if lab != "exc" and d not in seen:
                                seen.add(d)
                                work.append(d)
                    rd = gnorm.rd
                    rets = [rn for rn in gcfg.find(is_return) if rn.id in seen]
                    if not rets:
                        r.violation(g, g.loc(wn.ast), "%s does not return after starting the write" % short(g))
                    for rn in rets:
                        rv = _returned(gcfg, gnorm, rn)
                        ok = rv is not None and _contains_modify_call(rv)
                        if not ok and isinstance(rv, ast.Name):
                            ok = _last_def_is(gcfg, rd, rn, rv.id, lambda dn: dn.kind == "stmt" and isinstance(
                                dn.ast, ast.Assign) and _contains_modify_call(dn.ast.value))
                        r.require(ok, g, g.loc(rn.ast), "%s returns %s, not the Deferred of the write: the caller cannot "
                                  "wait for (or see the failure of) the edit" % (short(g), src(g, rv) if rv is not None else "None"))
                    # (c) an Adder built without entries receives every item through X.set_node
                    if kind == "Adder" and arg(ctor, cps.index("entries"), "entries") is None:
                        gives = [sn for sn in gcfg.nodes if sn.kind == "stmt" for cc in calls_at(sn, "set_node")
                                 if isinstance(cc.func, ast.Attribute) and attr_path(cc.func.value) == X]
                        loops = [it for it in gcfg.nodes if it.kind == "iter"]
                        gids = {sn.id for sn in gives}
                        if not gives:
                            r.violation(g, g.loc(ctor), "%s builds an empty Adder and never gives it an item (%s.set_node): the "
                                        "operation writes the directory back unchanged" % (short(g), X))
                            continue
                        for sn in gives:
                            r.site(g, sn.ast, "item given to the Adder")
                        if not loops:
                            for (t, w) in find_path_avoiding(gcfg, lambda x: x is wn, gate_node=lambda x: x.id in gids):
                                r.violation(g, g.loc(wn.ast), "the write is reachable without %s.set_node(..): nothing is "
                                            "added" % X, w)
                            for sn in gives:
                                for cc in calls_at(sn, "set_node"):
                                    for i, a in enumerate(cc.args[:3]):
                                        want = mps[i] if i < len(mps) else None
                                        dep = depends_on(g, a)
                                        r.require(want in dep and not {q for q in mps if q != want and q in dep}, g, g.loc(cc),
                                                  "%s.set_node is given %s where the operation's %s belongs" % (X, src(g, a), want))
                        for it in loops:
                            targets = {s_ for s_ in node_stores(it)}

                            def tr(n, lab, nxt, st, it=it):
                                if lab == "exc":
                                    return st
                                if n is it:
                                    return 1 if lab == "iter" else 0
                                if st == 1 and n.id in gids:
                                    return 2
                                return st
                            visited, parent = explore(gcfg, 0, tr)
                            r.count(len(visited))
                            if (it.id, 1) in visited:
                                r.violation(g, g.loc(it.ast), "an item of the loop can be skipped without %s.set_node(..): it is "
                                            "silently not added" % X, witness(gcfg, parent, (it.id, 1)))
                            for (n, name, w) in _loop_stale_uses(g, gcfg, it):
                                r.violation(g, g.loc(n.ast), "'%s' is read for an item before this iteration assigned it: the "
                                            "value of the previous item is added under this name (path: %s)" % (name, w.brief()), w)
                            for sn in gives:
                                for cc in calls_at(sn, "set_node"):
                                    for i, a in enumerate(cc.args[:2]):
                                        r.require(bool(depends_on(g, a) & targets), g, g.loc(cc),
                                                  "%s.set_node argument %s does not come from the current item" % (X, src(g, a)))
                    # (d) a modifier built inside a callback: the callback is registered on the returned Deferred
                    if outer is not None:
                        ocfg = outer.cfg()
                        onorm = FlowNorm(outer)
                        orets = {_returned(ocfg, onorm, rn) for rn in ocfg.find(is_return) if rn.ast.value is not None}
                        orets = {x.id for x in orets if isinstance(x, ast.Name)}
                        regs = [x for x in registrations(outer) if x.recv in orets and isinstance(x.target, ast.Name)
                                and x.target.id == g.name]
                        if not regs:
                            r.violation(outer, outer.loc(g.node), "%s is never registered on the Deferred that %s returns: the "
                                        "new child is created but not linked into the directory" % (g.name, short(outer)))
                        for x in regs:
                            r.site(outer, x.call, "linking step registered")
                            r.require(x.kind == "cb", outer, outer.loc(x.call), "%s registered as %s" % (g.name, x.kind))
        if n_ops < 6:
            raise AnchorVanished("only %d DirectoryNode operations build a modifier (expected set_node, set_nodes, "
                                 "set_children, create_subdirectory, delete, set_metadata_for)" % n_ops)

    # -- 8. the name a modifier looks up is normalised, in the modifier or by every caller ------------------------
    with ctx.rule("C20.8", "R3/E4", "every key with which Adder / Deleter / MetadataSetter.modify address the (NFC-keyed) "
                  "children map is the result of normalize(..): in modify, in the constructor / set_node, or at every "
                  "call site that hands the name in", expected=6) as r:
        judge = _NameJudge(idx)
        reported = set()
        named = [(cls, idx.func(MOD + ":" + cls + ".modify")) for cls in ("Adder", "Deleter", "MetadataSetter")]
        try:
            # whatever else the operations write through (found from the write sites) addresses the map by name too
            for rec in modifiers():
                if not any(rec.fn is f_ for (_c, f_) in named):
                    named.append((rec.label().rsplit(".", 1)[0] if rec.cls is not None else rec.label(), rec.fn))
                    if rec.cls is not None:
                        judge.extra_modifiers.add(rec.cls.name)
        except AnalysisError:
            pass                      # reported by C20.10
        for (cls, fn) in named:
            cfg = fn.cfg()
            cname = _unpacked_container(fn)
            uses = _children_key_uses(cfg, cname)
            if not uses:
                raise AnchorVanished("%s.modify no longer addresses the children map by name" % cls)
            for (n, k, how) in uses:
                r.site(fn, k, "%s key (%s)" % (cls, how))
                for (g, where, msg) in judge.judge(fn, n, k):
                    key = (g.qual, getattr(where, "lineno", 0), getattr(where, "col_offset", 0))
                    if key in reported:
                        continue
                    reported.add(key)
                    r.violation(g, g.loc(where), "%s.modify looks the entry up under %s, which is not normalised on every "
                                "path into the modifier: %s (a non-NFC spelling of a stored name does not find its entry)"
                                % (cls, src(fn, k), msg))
        seen = set()
        for (g, where, what) in judge.consulted:
            if id(where) not in seen:
                seen.add(id(where))
                r.site(g, where, what)
        r.count(len(judge.consulted))

    # -- 9. the read operations look the name up in its normalised form ------------------------------------------
    with ctx.rule("C20.9", "R3/E7", "every DirectoryNode operation that looks a name up in the children map delivered by "
                  "self._read() (in a lambda, or in a helper registered / called with the name as extra argument) uses "
                  "normalize(..) of the name it was given", expected=4) as r:
        ci = idx.cls(DN)
        judge = _NameJudge(idx)
        reported = set()
        found = []

        def resolve_key(m, owner, node, k, bind, how):
            """Judge the key `k` (an expression of `owner` at `node`); a helper parameter is replaced by what the
            registration / call bound it to."""
            if isinstance(k, ast.Name) and k.id in bind and not any(k.id in node_stores(x) for x in owner.cfg().nodes):
                o2, n2, e2, b2 = bind[k.id]
                if e2 is None:
                    r.violation(m, m.loc(), "%s is used without the name it looks up" % short(owner))
                    return
                return resolve_key(m, o2, n2, e2, b2, how)
            for (g, where, msg) in judge.judge(owner, node, k):
                key = (g.qual, getattr(where, "lineno", 0), getattr(where, "col_offset", 0))
                if key not in reported:
                    reported.add(key)
                    r.violation(owner, owner.loc(k), "%s looks the entry up under %s (%s), which is not normalised: %s (a "
                                "non-NFC spelling of a stored name does not find its entry)" % (short(m), src(owner, k), how, msg))

        def scan(m, owner, pairs, cname, bind, depth):
            """pairs: [(cfg node of owner, expression)] in which the children map is the name `cname`."""
            for (node, e) in pairs:
                for (k, how) in _key_uses_in(e, cname):
                    found.append((owner, k, how))
                    resolve_key(m, owner, node, k, bind, how)
                if depth >= 3:
                    continue
                for x in own_nodes(e, into_lambda=True):
                    if isinstance(x, ast.Call) and x.args and isinstance(x.args[0], ast.Name) and x.args[0].id == cname \
                            and not x.keywords and not any(isinstance(a, ast.Starred) for a in x.args):
                        h = None
                        if isinstance(x.func, ast.Attribute) and attr_path(x.func.value) == "self":
                            h = ci.lookup(x.func.attr)
                        elif isinstance(x.func, ast.Name):
                            h = owner.nested.get(x.func.id) or (owner.parent.nested.get(x.func.id) if owner.parent else None)
                        if h is not None:
                            scan_fn(m, h, [(owner, node, a, bind) for a in x.args[1:]], depth + 1)

        def scan_fn(m, g, bound_args, depth):
            gps = first_positional_params(g)
            if not gps:
                return
            bind = {}
            for j, p_ in enumerate(gps[1:]):
                bind[p_] = bound_args[j] if j < len(bound_args) else (g, None, None, {})
            gcfg = g.cfg()
            scan(m, g, [(n, e) for n in gcfg.nodes for e in node_exprs(n)], gps[0], bind, depth)

        for m in ci.methods.values():
            mcfg = m.cfg()
            dvars = set()
            for n in mcfg.nodes:
                if n.kind == "stmt" and isinstance(n.ast, ast.Assign) and isinstance(n.ast.value, ast.Call) \
                        and call_name(n.ast.value) == "self._read":
                    dvars |= {t.id for t in n.ast.targets if isinstance(t, ast.Name)}
            if not dvars:
                continue
            for reg in registrations(m):
                if reg.recv not in dvars or reg.kind not in ("cb", "both", "pair"):
                    continue
                t = reg.target
                rn = judge._node_of(m, reg.call)
                before = len(found)
                if isinstance(t, ast.Lambda):
                    la = t.args.posonlyargs + t.args.args
                    if la:
                        scan(m, m, [(rn, t.body)], la[0].arg, {}, 0)
                else:
                    g = None
                    if isinstance(t, ast.Attribute) and attr_path(t.value) == "self":
                        g = ci.lookup(t.attr)
                    elif isinstance(t, ast.Name) and t.id in m.nested:
                        g = m.nested[t.id]
                    if g is not None:
                        scan_fn(m, g, [(m, rn, a, {}) for a in reg.args], 0)
                if len(found) > before:
                    r.site(m, reg.call, "lookup by name in the callback %s (%s)" % (
                        reg.target_name(), ", ".join(sorted({h for (_o, _k, h) in found[before:]}))))
        if not found:
            raise AnchorVanished("no DirectoryNode operation looks a name up in the children map of self._read()")
        r.count(len(found) + len(judge.consulted))

    # -- 10. every modifier the operations write through honours the overwrite mode ----------------------------
    with ctx.rule("C20.10", "R3/E4", "every callable that a DirectoryNode operation hands to self._node.modify and that can "
                  "bind a name to another child (discovered from the write sites, not listed) replaces an existing entry only "
                  "with the overwrite mode seen truthy and (ONLY_FILES and existing directory) excluded; an operation with "
                  "an overwrite parameter hands it to the modifier, which keeps it unchanged", expected=8) as r:
        recs = modifiers()
        n_binders = 0
        for rec in recs:
            fn = rec.fn
            for (m, g, c, owner, ctor) in rec.sites:
                r.site(g, c, "write through %s" % rec.label())
            if not rec.binds:
                continue
            n_binders += 1
            ops_with_ow = [(m, g, c, owner, ctor) for (m, g, c, owner, ctor) in rec.sites
                           if "overwrite" in _outermost(owner).params]
            OW = None
            if rec.cls is None:
                # a nested function: the overwrite mode is the operation's own parameter, read from the closure
                shadow = "overwrite" in fn.params or any("overwrite" in node_stores(n) for n in rec.cfg.nodes)
                if ops_with_ow and not shadow:
                    OW = "overwrite"
                elif ops_with_ow:
                    r.violation(fn, fn.loc(), "%s re-binds 'overwrite': the mode given to %s does not reach the store into "
                                "the children map" % (rec.label(), short(_outermost(fn))))
                    continue
            elif rec.owparam is None:
                for (m, g, c, owner, ctor) in ops_with_ow:
                    r.violation(owner, owner.loc(ctor), "%s has an overwrite mode but writes through %s, which binds names in "
                                "the children map (%s) and is not given the mode: False / ONLY_FILES replace existing entries" % (
                                    short(_outermost(owner)), rec.label(), src(fn, rec.binds[0][0].ast)))
            else:
                exact = []
                init = rec.cls.lookup("__init__")
                _i, OW, ow_store = _attr_of_param(init, rec.cls.name, rec.owparam, exact)
                r.site(init, ow_store, "%s keeps the overwrite mode as %s" % (rec.cls.name, OW))
                r.require(exact[0], init, init.loc(ow_store), "%s keeps %s instead of the overwrite mode itself (True / False / "
                          "ONLY_FILES are told apart by identity)" % (rec.cls.name, src(init, ow_store.value)))
                for (m, g, c, owner, ctor) in ops_with_ow:
                    a = arg(ctor, rec.owpos, rec.owparam)
                    r.require(isinstance(a, ast.Name) and a.id == "overwrite", owner, owner.loc(ctor),
                              "%s does not pass on its overwrite mode in %s (the default of %s applies: existing entries "
                              "are replaced)" % (short(_outermost(owner)), src(owner, ctor), rec.cls.name))
                # the mode is not changed on the way to the store
                for mm in rec.cls.methods.values():
                    if mm is init:
                        continue
                    for n in mm.cfg().nodes:
                        if OW in node_stores(n):
                            r.violation(mm, mm.loc(n.ast), "%s re-binds %s after construction" % (short(mm), OW))
            if OW is None:
                continue         # no operation with an overwrite mode writes through this modifier
            for (sn, c, k, v) in rec.binds:
                r.site(fn, sn.ast, "%s binds a name" % rec.label())
                _overwrite_gate_check(r, rec, sn, c, k, OW)
                # the entry it stores carries maintained timestamps
                if r.require(isinstance(v, ast.Tuple) and len(v.elts) == 2, fn, fn.loc(sn.ast),
                             "children map entry is not a (child, metadata) pair: %s" % src(fn, v)):
                    md_ = v.elts[1]
                    is_um = lambda dn: dn.kind == "stmt" and isinstance(dn.ast, ast.Assign) \
                        and isinstance(dn.ast.value, ast.Call) and call_tail(dn.ast.value) == "update_metadata"
                    r.require((isinstance(md_, ast.Call) and call_tail(md_) == "update_metadata") or (
                        isinstance(md_, ast.Name) and _last_def_is(rec.cfg, rec.fnorm.rd, sn, md_.id, is_um)), fn, fn.loc(sn.ast),
                        "the metadata %s that %s stores is not the result of update_metadata (timestamps would not be "
                        "maintained)" % (src(fn, md_), rec.label()))
        if not n_binders:
            raise AnchorVanished("none of the modifiers DirectoryNode writes through stores into the children map")
