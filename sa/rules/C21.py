"""C21 Deep traversal visits every reachable object exactly once.

Decided: the per-child classification in _deep_traverse_dirnode_children
(skip / direct / queued exactly once), the seeding and sharing of the found
set, one visit callback per queued child with its own (node, path), the
add_node-then-list step of _deep_traverse_dirnode, path construction, what
the walkers record for a (node, path) pair, and that verifier caps are
hashed/compared by content (DESIGN.md section 5, C21)."""
from sa.h import *

EXPLANATION = (
    "Decided (structural, all paths): (1) in _deep_traverse_dirnode_children every child of the listing ends its loop "
    "iteration in exactly one of: unknown -> walker.add_node directly; verifier is not None and verifier in found -> "
    "skipped; otherwise queued once, in dirkids iff IDirectoryNode.providedBy(child) else filekids, and (unless the "
    "verifier is None, the LIT bypass) only after 'verifier not in found' with found.add(verifier) in the same "
    "iteration; no iteration leaves the loop; the queued pair is (child, path + [name]). (2) deep_traverse seeds found "
    "with the root's verify cap and starts at (self, []); the same found / walker / monitor objects are handed down "
    "every recursive call. (3) each filekids entry gets exactly one callback walker.add_node(child, childpath) and each "
    "dirkids entry exactly one self._deep_traverse_dirnode(child, childpath, ..), on the returned Deferred, with the "
    "loop variables bound per iteration. (4) _deep_traverse_dirnode gives (node, path) to walker.add_node once, lists "
    "that node, and passes the listing with the same node/path/found to _deep_traverse_dirnode_children. (5) "
    "ManifestWalker and DeepChecker record the path they were given with the node they were given; every node whose "
    "get_storage_index() / get_verify_cap() is not None/empty is recorded in the manifest's 'storage-index' / 'verifycaps' "
    "collection (the attributes get_results reports) with a value derived from that call; DeepChecker.add_node returns "
    "the Deferred on which the check, the filing of its result and the stats run; a named visit callback returns the "
    "visit's result; deep_traverse calls walker.finish() on the success path after the walk, monitor.finish afterwards, "
    "and returns that monitor. (6) "
    "DeepStats.add_node counts a node in at most one of count-unknown / count-directories / count-files, and a file in "
    "exactly one file kind; each count is reached only on paths that established the matching class test of the node "
    "(UnknownNode / IDirectoryNode / IMutableFileNode / IImmutableFileNode / LiteralFileURI of its cap) and a node "
    "known to be of a class leaves counted in it; size-literal-files, size-immutable-files and the size histogram are "
    "fed node.get_size() exactly as often as the file is counted. (7) every cap class returned by a get_verify_cap "
    "in allmydata.uri hashes and compares by its string form (so two node objects of one directory de-duplicate); "
    "_BaseURI.__eq__ gives an answer other than the to_string() comparison only on paths where the other object is "
    "known not to be a _BaseURI. (8) every normal return of _deep_traverse_dirnode_children has completed the loop over the "
    "listing and both visit-registration loops (an early return needs the listing / that queue to have been seen empty); the "
    "iterable of the per-child loop is the listing parameter as received (local copies followed; no filtering comprehension, "
    "slice or filter() on the way); a queue is not re-bound or shortened once children may be in it; every branch condition "
    "that depends on the found set is the membership test of the current child's own verify cap inside the per-child loop - "
    "so no child is skipped for what is known about other children, and (with 1) a None verify cap never counts as seen. "
    "(9) the traversal functions are found by role, not by name: the classifying function is the method reachable from "
    "deep_traverse whose loop tests a child's verify cap against a parameter (the found set), the per-directory step is the "
    "method deep_traverse starts with, the visiting loops are those that register (addCallback) or, in an inlineCallbacks "
    "generator, yield one walker.add_node / one recursive step per queue entry; queues handed over as `a, b = self.helper(..)` "
    "<- `return q1, q2` are followed by position; rules 1, 2, 3, 8 are decided in either shape (in the generator shape: the "
    "listing is the awaited <node>.list() of the node reported to add_node, every visit is yielded, and the root counts as "
    "seeded when the step records <node>.get_verify_cap() on every path before that node's listing is classified). Whatever a "
    "child that may have a verify cap is handed to (any call carrying the child or a tuple holding it), found.add(<its verify "
    "cap>) lies on every path of that same loop iteration - a record made later, when the child is processed, does not count. "
    "Other arrangements (classification and step in one function, queues not returned as a tuple of names, visits from a "
    "third function) are not modelled and give ANALYSIS-ERROR. "
    "Undecided: that write-cap and read-cap of one object derive equal verify caps (value level), that the class tests "
    "used by DeepStats are the right ones for every node class (value level), largest-* maxima, behaviour of the "
    "walker's own Deferreds beyond being returned, cancellation timing (raise_if_cancelled), the turn break every 100 "
    "files (stack depth only), the errback/finish plumbing of the Monitor on failure, LIT files linked twice are "
    "visited twice by design.")
TECHNIQUE = "static analysis: per-iteration typestate over the CFG, Deferred registration model, argument forwarding, class table"

MOD = "dirnode"
DN = MOD + ":DirectoryNode"
REGS = {"addCallback": "cb", "addErrback": "eb", "addBoth": "both", "addCallbacks": "pair"}


# ------------------------------------------------------------------ helpers
def _ids_under(stmts):
    s = set()
    for st in stmts:
        for x in ast.walk(st):
            s.add(id(x))
    return s


def _loops(fn):
    return [n for n in func_own_nodes(fn) if isinstance(n, (ast.For, ast.AsyncFor))]


def _enclosing_loop(fn, node):
    best = None
    for lp in _loops(fn):
        if id(node) in _ids_under(lp.body):
            if best is None or id(lp) in _ids_under(best.body):
                best = lp
    return best


def _strip_enumerate(e):
    """``enumerate(x)`` -> (x, True); anything else -> (e, False)."""
    if isinstance(e, ast.Call) and call_tail(e) == "enumerate" and e.args:
        return e.args[0], True
    return e, False


def _recv_is(call, name):
    return isinstance(call.func, ast.Attribute) and isinstance(call.func.value, ast.Name) and call.func.value.id == name


def _child_path(fnorm, node, expr, params, loopnames):
    """(path_param, name_var) when expr denotes ``path + [name]`` at node, else None."""
    v = fnorm.resolve(node, expr)

    def base(x):
        if isinstance(x, ast.Name) and x.id in params:
            return x.id
        if isinstance(x, ast.Call) and call_tail(x) in ("list", "tuple") and len(x.args) == 1 \
                and isinstance(x.args[0], ast.Name) and x.args[0].id in params:
            return x.args[0].id
        return None
    if isinstance(v, ast.BinOp) and isinstance(v.op, ast.Add) and isinstance(v.right, (ast.List, ast.Tuple)) \
            and len(v.right.elts) == 1 and isinstance(v.right.elts[0], ast.Name) and v.right.elts[0].id in loopnames:
        b = base(v.left)
        if b:
            return (b, v.right.elts[0].id)
    if isinstance(v, (ast.List, ast.Tuple)) and len(v.elts) == 2 and isinstance(v.elts[0], ast.Starred) \
            and isinstance(v.elts[1], ast.Name) and v.elts[1].id in loopnames:
        b = base(v.elts[0].value)
        if b:
            return (b, v.elts[1].id)
    return None


def _iteration_states(cfg, head, body_ids, init, step):
    """Explore one iteration of the loop at `head`: returns (end_states, escaped, visited, parent) where end_states are
    the monitor states on return to the head and `escaped` are product states outside the loop body."""
    START = ("pre",)

    def transfer(n, lab, nxt, st):
        if lab == "exc":
            return None
        if n is head:
            if st == START:
                return init if lab == "iter" else None
            return None          # an iteration ended here
        if st == START:
            return None
        return step(n, lab, st)
    visited, parent = explore(cfg, START, transfer, start=head)
    ends, escaped = [], []
    for (nid, st) in visited:
        if st == START:
            continue
        n = cfg.nodes[nid]
        if n is head:
            ends.append((nid, st))
        elif n.kind in ("exit",) or (n.ast is not None and id(n.ast) not in body_ids and n.kind != "raise"):
            escaped.append((nid, st))
    return ends, escaped, visited, parent


def _lambda_bindings(lam):
    """lambda parameter -> default expression (for parameters that have one)."""
    a = lam.args
    pos = a.posonlyargs + a.args
    out = {}
    for p, d in zip(pos[len(pos) - len(a.defaults):], a.defaults):
        out[p.arg] = d
    for p, d in zip(a.kwonlyargs, a.kw_defaults):
        if d is not None:
            out[p.arg] = d
    return out, [p.arg for p in pos + a.kwonlyargs]


def _is_gen(fn):
    """decorated with (defer.)inlineCallbacks: `x = yield d` is the sequencing form of d.addCallback"""
    for d in fn.node.decorator_list:
        if isinstance(d, ast.Call):
            d = d.func
        if (attr_path(d) or "").split(".")[-1] == "inlineCallbacks":
            return True
    return False


def _traversal_funcs(root):
    """root and the methods of its class reachable through self.<m> references (calls and method values, lambdas
    and nested functions included)."""
    seen, work = [], [root]
    while work:
        fn = work.pop()
        if any(fn is x for x in seen):
            continue
        seen.append(fn)
        work.extend(fn.nested.values())
        for x in func_own_nodes(fn, into_lambda=True):
            if isinstance(x, ast.Attribute) and isinstance(x.ctx, ast.Load) and isinstance(x.value, ast.Name) \
                    and x.value.id == "self" and root.cls is not None:
                m = root.cls.lookup(x.attr)
                if m is not None:
                    work.append(m)
    return seen


# ---------------------------------------------------------------------- run
def run(ctx: Context):
    idx = ctx.idx
    # ---- the traversal functions, found by role --------------------------------------------------
    # DT: the entry point.  TFUNCS: the methods reachable from it through self.<m> references (calls, method values
    # handed to addCallback, also inside lambdas).  CLS: the one that classifies the children of a listing (a loop with
    # a membership test on / an .add to a parameter - the found set).  TD: the method deep_traverse starts the walk
    # with (it reaches CLS).  CON: the function holding the two loops that visit the queued children (CLS itself in the
    # callback-chain shape, its caller when the classification is a helper that returns the queues).
    DT = idx.func(DN + ".deep_traverse")
    TFUNCS = _traversal_funcs(DT)

    def _loop_params(fn, pred):
        ps = first_positional_params(fn)
        return sorted({nm for (x, nm) in pred(fn) if nm in ps and _enclosing_loop(fn, x) is not None})

    def _memb(fn):
        return [(x, x.comparators[0].id) for x in func_own_nodes(fn) if isinstance(x, ast.Compare) and len(x.ops) == 1
                and isinstance(x.ops[0], (ast.In, ast.NotIn)) and isinstance(x.comparators[0], ast.Name)]

    def _adds(fn):
        return [(c, c.func.value.id) for c in calls_in_func(fn, "add") if isinstance(c.func, ast.Attribute)
                and isinstance(c.func.value, ast.Name)]
    cls_c = [fn for fn in TFUNCS if _loop_params(fn, _memb)] or [fn for fn in TFUNCS if _loop_params(fn, _adds)]
    if len(cls_c) != 1:
        raise AnchorVanished("deep_traverse: the function that classifies the children of a listing against the found set "
                             "was not identified (%s)" % sorted(short(f) for f in cls_c))
    CH = CLS = cls_c[0]
    td_c = []
    for c in calls_in_func(DT, None, into_lambda=True):
        if isinstance(c.func, ast.Attribute) and isinstance(c.func.value, ast.Name) and c.func.value.id == "self":
            m = DT.cls.lookup(c.func.attr) if DT.cls is not None else None
            if m is not None and m not in td_c and any(f is CLS for f in _traversal_funcs(m)):
                td_c.append(m)
    if len(td_c) != 1:
        raise AnchorVanished("deep_traverse: the per-directory step the walk is started with was not identified (%s)" % (
            sorted(short(f) for f in td_c)))
    TD = td_c[0]
    if TD is CLS:
        raise AnchorVanished("deep_traverse: per-directory step and classification of the children are one function; "
                             "this shape is not modelled")
    ch_params = first_positional_params(CH)
    td_params = first_positional_params(TD)

    def role_param(fn, tail, what):
        ps = first_positional_params(fn)
        c = sorted({call.func.value.id for call in calls_in_func(fn, tail, into_lambda=True)
                    if isinstance(call.func, ast.Attribute) and isinstance(call.func.value, ast.Name)
                    and call.func.value.id in ps})
        if len(c) != 1:
            raise AnchorVanished("%s: parameter playing the role '%s' not identified (%s)" % (short(fn), what, c))
        return c[0]

    # the found set: the parameter tested with `verifier in <param>` (or, failing that, the one receiving .add)
    memb = [x for x in func_own_nodes(CH) if isinstance(x, ast.Compare) and len(x.ops) == 1
            and isinstance(x.ops[0], (ast.In, ast.NotIn)) and isinstance(x.comparators[0], ast.Name)
            and x.comparators[0].id in ch_params]
    fcands = sorted({x.comparators[0].id for x in memb})
    FOUND = fcands[0] if len(fcands) == 1 else role_param(CH, "add", "found set")
    WALKER = role_param(CH, "add_node", "walker")
    cfg = CH.cfg()
    fnorm = FlowNorm(CH)

    add_calls = [c for c in calls_in_func(CH, "add") if _recv_is(c, FOUND)]
    anchors = add_calls + [x for x in memb if x.comparators[0].id == FOUND]
    if not anchors:
        raise AnchorVanished("neither %s.add(..) nor a membership test on it in %s" % (FOUND, short(CH)))
    L1 = _enclosing_loop(CH, anchors[0])
    if L1 is None:
        raise AnchorVanished("%s.add is not inside the loop over the children" % FOUND)

    # consumer loops and the lists they drain (roles of dirkids / filekids).  A visit is either registered on a Deferred
    # (addCallback(lambda/named function calling it)) or, in an inlineCallbacks generator, called in the loop body
    # (`yield visit(..)` is the sequencing form of addCallback; whether it is yielded is rule 3's business).
    def reg_calls_in(stmts):
        out = []
        for st in stmts:
            for x in own_nodes(st):
                if isinstance(x, ast.Call) and isinstance(x.func, ast.Attribute) and x.func.attr in REGS and x.args:
                    out.append(x)
        return out

    def visit_calls(regcall, tail, G=None):
        G = G or CON
        t = regcall.args[0]
        if isinstance(t, ast.Lambda):
            return [c for c in own_nodes(t.body, into_lambda=True) if isinstance(c, ast.Call) and call_tail(c) == tail]
        if isinstance(t, ast.Name) and t.id in G.nested:
            return calls_in_func(G.nested[t.id], tail, into_lambda=True)
        return []

    def direct_visits(G, stmts, tail):
        """visit calls evaluated in the loop body itself (generator shape)"""
        if not _is_gen(G):
            return []
        return [x for st in stmts for x in own_nodes(st) if isinstance(x, ast.Call) and call_tail(x) == tail
                and isinstance(x.func, ast.Attribute) and isinstance(x.func.value, ast.Name)]
    consumers = {}
    for G in TFUNCS:
        for lp in _loops(G):
            if lp is L1:
                continue
            it, enum = _strip_enumerate(lp.iter)
            if not isinstance(it, ast.Name):
                inner = [x for x in ast.walk(it) if isinstance(x, ast.Name)]
                if not inner:
                    continue
                it = inner[0]
            rcs = reg_calls_in(lp.body)
            if any(visit_calls(rc, TD.name, G) for rc in rcs) or direct_visits(G, lp.body, TD.name):
                consumers.setdefault("dir", []).append((lp, it.id, enum, G))
            elif any(visit_calls(rc, "add_node", G) for rc in rcs) or direct_visits(G, lp.body, "add_node"):
                consumers.setdefault("file", []).append((lp, it.id, enum, G))
    for k in ("dir", "file"):
        if len(consumers.get(k, [])) != 1:
            raise AnchorVanished("deep traversal: the loop visiting the queued %s children was not "
                                 "identified (%d candidates)" % (k, len(consumers.get(k, []))))
    CON = consumers["dir"][0][3]
    if consumers["file"][0][3] is not CON:
        raise AnchorVanished("queued files and queued directories are visited from different functions (%s, %s); this "
                             "shape is not modelled" % (short(consumers["file"][0][3]), short(CON)))
    if CON is not CLS and CON is not TD:
        raise AnchorVanished("the queued children are visited from %s, which is neither the classifying function nor "
                             "the per-directory step; this shape is not modelled" % short(CON))
    CON_DIRL, CON_FILEL = consumers["dir"][0][1], consumers["file"][0][1]
    con_params = first_positional_params(CON)
    CLS_CALL = None
    if CON is CLS:
        DIRL, FILEL = CON_DIRL, CON_FILEL
        CON_FOUND, CON_WALKER = FOUND, WALKER
    else:
        # the queues are handed over as the helper's result: `<a>, <b> = self.<CLS>(..)` <- `return <q1>, <q2>`
        ccalls = [c for c in calls_in_func(CON, CLS.name) if call_name(c) == "self." + CLS.name]
        if len(ccalls) != 1:
            raise AnchorVanished("%s: %d calls of %s (exactly one expected)" % (short(CON), len(ccalls), CLS.name))
        CLS_CALL = ccalls[0]
        unp = [st for st in func_own_nodes(CON) if isinstance(st, ast.Assign) and len(st.targets) == 1
               and (st.value is CLS_CALL or (isinstance(st.value, (ast.Yield, ast.Await)) and st.value.value is CLS_CALL))]
        tnames = None
        if len(unp) == 1 and isinstance(unp[0].targets[0], (ast.Tuple, ast.List)) \
                and all(isinstance(e, ast.Name) for e in unp[0].targets[0].elts):
            tnames = [e.id for e in unp[0].targets[0].elts]
        crets = [n.ast.value for n in cfg.find(is_return)]
        if tnames is None or not crets or not all(
                isinstance(v, ast.Tuple) and len(v.elts) == len(tnames) and all(isinstance(e, ast.Name) for e in v.elts)
                for v in crets) or len({tuple(e.id for e in v.elts) for v in crets}) != 1:
            raise AnchorVanished("%s: the queues built by %s are not handed over as `a, b = self.%s(..)` <- `return q1, q2`; "
                                 "this shape is not modelled" % (short(CON), short(CLS), CLS.name))
        rnames = [e.id for e in crets[0].elts]
        if CON_DIRL not in tnames or CON_FILEL not in tnames:
            raise AnchorVanished("%s: the visited queues %s / %s are not the result of %s" % (
                short(CON), CON_FILEL, CON_DIRL, CLS.name))
        DIRL, FILEL = rnames[tnames.index(CON_DIRL)], rnames[tnames.index(CON_FILEL)]
        amap0 = {}
        for q, a in zip(ch_params, CLS_CALL.args):
            amap0[q] = a
        for kw in CLS_CALL.keywords:
            if kw.arg:
                amap0[kw.arg] = kw.value
        a_f, a_w = amap0.get(FOUND), amap0.get(WALKER)
        if not (isinstance(a_f, ast.Name) and a_f.id in con_params and isinstance(a_w, ast.Name) and a_w.id in con_params):
            raise AnchorVanished("%s: the found set / walker handed to %s are not its own parameters" % (short(CON), CLS.name))
        CON_FOUND, CON_WALKER = a_f.id, a_w.id
    if DIRL == FILEL:
        raise AnchorVanished("directory and file children share one queue")
    ccfg = cfg if CON is CLS else CON.cfg()
    cnorm = fnorm if CON is CLS else FlowNorm(CON)

    # loop-1 variables
    tgt = L1.target
    if not (isinstance(tgt, ast.Tuple) and len(tgt.elts) == 2 and isinstance(tgt.elts[0], ast.Name)
            and isinstance(tgt.elts[1], ast.Tuple) and tgt.elts[1].elts and isinstance(tgt.elts[1].elts[0], ast.Name)):
        raise AnchorVanished("loop over children no longer unpacks name, (child, metadata)")
    NAME, CHILD = tgt.elts[0].id, tgt.elts[1].elts[0].id
    loopnames = {x.id for x in ast.walk(tgt) if isinstance(x, ast.Name)}
    head = [n for n in cfg.nodes if n.kind == "iter" and n.ast is L1]
    if not head:
        raise AnchorVanished("loop head not in CFG")
    head = head[0]
    body_ids = _ids_under(L1.body)
    VER = "%s.get_verify_cap()" % CHILD

    # -- 1. per-child classification -------------------------------------------
    with ctx.rule("C21.1", "R1/R2", "_deep_traverse_dirnode_children: every child is skipped (seen before), given to "
                  "add_node directly (unknown), or queued exactly once after the dedup test; LIT bypass; "
                  "path + [name]", expected=5) as r:
        itdeps = depends_on(CH, L1.iter)
        r.site(CH, L1, "loop over the listing")
        it_expr = L1.iter
        if isinstance(it_expr, ast.Name):             # the iterable hoisted into a local
            ds_ = fnorm.rd.get(head.id, {}).get(it_expr.id) or ()
            if len(ds_) == 1 and min(ds_) >= 0 and assign_value(cfg.nodes[min(ds_)], it_expr.id) is not None:
                it_expr = assign_value(cfg.nodes[min(ds_)], it_expr.id)
        r.require(ch_params[0] in itdeps and any(call_tail(c) == "items" for c in own_nodes(it_expr) if isinstance(c, ast.Call)),
                  CH, CH.loc(L1), "the loop does not run over all items of the listing %s" % ch_params[0])
        for x in own_nodes(it_expr):
            if isinstance(x, (ast.ListComp, ast.GeneratorExp, ast.Subscript)) or \
                    (isinstance(x, ast.Call) and call_tail(x) in ("filter", "islice")):
                r.violation(CH, CH.loc(L1), "the listing is filtered / sliced before the walk: %s" % src(CH, L1.iter))
        pathparams = set()

        def events(n):
            """(direct, fadd, dapp, fapp) increments and ill-formed events at node n."""
            ev = [0, 0, 0, 0]
            for c in node_calls(n):
                t = call_tail(c)
                if t == "add_node" and _recv_is(c, WALKER):
                    ev[0] += 1
                elif t in ("add", "update") and _recv_is(c, FOUND):
                    ev[1] += 1
                elif _recv_is(c, DIRL) and t in ("append", "insert", "extend"):
                    ev[2] += 1
                elif _recv_is(c, FILEL) and t in ("append", "insert", "extend"):
                    ev[3] += 1
            if n.kind == "stmt" and isinstance(n.ast, ast.AugAssign) and isinstance(n.ast.target, ast.Name):
                if n.ast.target.id == DIRL:
                    ev[2] += 1
                if n.ast.target.id == FILEL:
                    ev[3] += 1
            return ev
        unk_forms = ("isinstance(%s, UnknownNode)" % CHILD, "%s.is_unknown()" % CHILD)
        isdir_form = "IDirectoryNode.providedBy(%s)" % CHILD

        # state: (direct, fadd, dapp, fapp, unk, infound, notnone, isdir); facts: 0 unknown, 1 yes, 2 no
        def step(n, lab, st):
            d, fa, da, fp, unk, inf, nn, isd = st
            if n.kind == "stmt" and CHILD in node_stores(n):
                unk = inf = nn = isd = 0
            if n.kind == "stmt" and FOUND in node_stores(n):
                inf = 0
            ev = events(n)
            d, fa, da, fp = min(2, d + ev[0]), min(2, fa + ev[1]), min(2, da + ev[2]), min(2, fp + ev[3])
            f = fnorm.edge_fact(n, lab)
            if f:
                op, l, rr = f
                new = {}
                if op in ("truth", "false") and l in unk_forms:
                    new["unk"] = 1 if op == "truth" else 2
                if op in ("in", "not in") and l == VER and rr == FOUND:
                    new["inf"] = 1 if op == "in" else 2
                if op in ("is", "is not", "==", "!=") and {l, rr} == {"None", VER}:
                    new["nn"] = 2 if op in ("is", "==") else 1
                if op in ("truth", "false") and l == VER:
                    new["nn"] = 1 if op == "truth" else 2
                if op in ("truth", "false") and l == isdir_form:
                    new["isd"] = 1 if op == "truth" else 2
                # a path that contradicts a fact it has already observed is infeasible
                cur = {"unk": unk, "inf": inf, "nn": nn, "isd": isd}
                for k, v in new.items():
                    if cur[k] and cur[k] != v and not (k == "inf" and fa):
                        return None
                unk, inf, nn, isd = (new.get("unk", unk), new.get("inf", inf), new.get("nn", nn), new.get("isd", isd))
            return (d, fa, da, fp, unk, inf, nn, isd)
        ends, escaped, visited, parent = _iteration_states(cfg, head, body_ids, (0,) * 8, step)
        r.count(len(visited))
        if not ends:
            raise AnalysisError("no complete iteration of the children loop found")
        said = set()

        def bad(key, nid, st, msg):
            if key in said:
                return
            said.add(key)
            r.violation(CH, CH.loc(L1), msg, witness(cfg, parent, (nid, st)))
        for (nid, st) in sorted(escaped):
            bad("escape", nid, st, "an iteration can leave the loop over the children (break / return): the remaining "
                "children are never visited")
        kinds = set()
        for (nid, st) in sorted(ends):
            d, fa, da, fp, unk, inf, nn, isd = st
            q = da + fp
            if d + q == 0:
                kinds.add("skip")
                if inf != 1:
                    bad("skip-unseen", nid, st, "a child can be dropped although its verifier was not found in %s: "
                        "it is never visited" % FOUND)
                elif nn != 1:
                    bad("lit", nid, st, "children without a verify cap (LIT files) take part in the dedup test: after "
                        "the first one every further LIT file is skipped")
            elif d == 1 and q == 0:
                kinds.add("direct")
                if unk != 1:
                    bad("direct", nid, st, "a child that is not known to be an UnknownNode is given to %s.add_node "
                        "without the dedup test" % WALKER)
            elif d == 0 and q == 1:
                kinds.add("queued")
                if unk == 1:
                    bad("unk-queued", nid, st, "an UnknownNode is queued for a visit that needs a real node")
                if nn == 2:
                    pass                      # LIT bypass: no verifier to remember
                elif inf != 2:
                    bad("nodedup", nid, st, "a child is queued without having tested 'verifier in %s': shared "
                        "subdirectories and cycles are visited again" % FOUND)
                elif fa != 1:
                    bad("noadd", nid, st, "a child is queued without recording its verifier in %s: it is visited "
                        "again through the next link to it" % FOUND)
                if da == 1 and isd != 1:
                    bad("dirq", nid, st, "a child not known to be a directory is queued for directory traversal")
                if fp == 1 and isd != 2:
                    bad("fileq", nid, st, "a child that may be a directory is queued as a file: its subtree is not visited")
            else:
                bad("multi", nid, st, "a child is handed on %d times in one iteration (add_node directly: %d, dirkids: %d, "
                    "filekids: %d)" % (d + q, d, da, fp))
        for k in ("skip", "direct", "queued"):
            r.site(CH, L1, "iteration outcome '%s'%s" % (k, "" if k in kinds else " (absent)"))
        r.require("queued" in kinds, CH, CH.loc(L1), "no child is ever queued for a visit")
        # what is recorded / queued / handed over
        for c in add_calls:
            n = _node_of_call(cfg, c)
            r.require(len(c.args) == 1 and fnorm.norm(n, c.args[0]) == VER, CH, CH.loc(c),
                      "%s records %s, not the verify cap of the child being classified" % (FOUND, src(CH, c)))
        n_pairs = 0
        for n in cfg.nodes:
            if n.ast is None or id(n.ast) not in body_ids:
                continue
            for c in node_calls(n):
                t = call_tail(c)
                pair = None
                if t == "append" and (_recv_is(c, DIRL) or _recv_is(c, FILEL)) and len(c.args) == 1:
                    a = fnorm.resolve(n, c.args[0])
                    pair = a.elts if isinstance(a, ast.Tuple) and len(a.elts) == 2 else ()
                elif t == "add_node" and _recv_is(c, WALKER):
                    pair = c.args if len(c.args) == 2 else ()
                if pair is None:
                    continue
                n_pairs += 1
                okc = len(pair) == 2 and isinstance(pair[0], ast.Name) and pair[0].id == CHILD
                cp = _child_path(fnorm, n, pair[1], set(ch_params), loopnames) if len(pair) == 2 else None
                r.require(okc, CH, CH.loc(c), "%s hands on %s, not the child being classified" % (src(CH, c.func), src(CH, c)))
                r.require(cp is not None and cp[1] == NAME, CH, CH.loc(c),
                          "the path handed on with the child is not <path of the parent> + [<its name>]: %s" % (
                              src(CH, fnorm.resolve(n, pair[1])) if len(pair) == 2 else src(CH, c)))
                if cp:
                    pathparams.add(cp[0])
        r.site(CH, L1, "%d (child, path) hand-over sites" % n_pairs)
        if len(pathparams) > 1:
            r.violation(CH, CH.loc(L1), "child paths are built from different bases: %s" % sorted(pathparams))
    PATHP = sorted(pathparams)[0] if pathparams else None

    # -- 9. recorded when discovered, whatever the child is handed to ------------------------------
    with ctx.rule("C21.9", "R2", "a child that may have a verify cap is recorded in the found set in the very loop iteration "
                  "that admits it (tests it against the set and hands it on to a queue / the walker / a visit), not later "
                  "when it is processed: found.add(<its verify cap>) lies on every path of the iteration that hands it on",
                  expected=3) as r:
        r.site(CLS, L1, "loop over the listing")
        PURE = ("isinstance", "providedBy", "get_verify_cap", "is_unknown", "len", "repr", "str")

        def handovers(n):
            out = []
            for c in node_calls(n, into_lambda=True):
                t = call_tail(c)
                if t in PURE or (t in ("add", "update") and _recv_is(c, FOUND)):
                    continue
                if isinstance(c.func, ast.Attribute) and isinstance(c.func.value, ast.Name) and c.func.value.id == CHILD:
                    continue                         # a question asked of the child, not a hand-over
                vals = list(c.args) + [kw.value for kw in c.keywords]
                carried = False
                for a in vals:
                    if isinstance(a, ast.Name) and a.id != CHILD:
                        a = fnorm.resolve(n, a)
                    elts = a.elts if isinstance(a, (ast.Tuple, ast.List)) else [a]
                    if any(isinstance(e, ast.Name) and e.id == CHILD for e in elts):
                        carried = True
                if carried:
                    out.append(c)
            if n.kind == "stmt" and isinstance(n.ast, ast.AugAssign) and any(
                    isinstance(x, ast.Name) and x.id == CHILD for x in ast.walk(n.ast.value)):
                out.append(n.ast)
            return out
        hsites = [(n, c) for n in cfg.nodes if n.ast is not None and id(n.ast) in body_ids for c in handovers(n)]
        for (n, c) in hsites:
            r.site(CLS, c, "child handed on")
        unk_forms9 = ("isinstance(%s, UnknownNode)" % CHILD, "%s.is_unknown()" % CHILD)

        # state: (handed on, recorded, unk, notnone); facts: 0 unknown, 1 yes, 2 no
        def step9(n, lab, st):
            ho, fa, unk, nn = st
            if n.kind == "stmt" and CHILD in node_stores(n):
                unk = nn = 0
            if handovers(n):
                ho = 1
            for c in node_calls(n):
                if call_tail(c) in ("add", "update") and _recv_is(c, FOUND) and len(c.args) == 1 \
                        and fnorm.norm(n, c.args[0]) == VER:
                    fa = 1
            f = fnorm.edge_fact(n, lab)
            if f:
                op, l, rr = f
                new = {}
                if op in ("truth", "false") and l in unk_forms9:
                    new["unk"] = 1 if op == "truth" else 2
                if op in ("is", "is not", "==", "!=") and {l, rr} == {"None", VER}:
                    new["nn"] = 2 if op in ("is", "==") else 1
                if op in ("truth", "false") and l == VER:
                    new["nn"] = 1 if op == "truth" else 2
                cur = {"unk": unk, "nn": nn}
                for k, v in new.items():
                    if cur[k] and cur[k] != v:
                        return None
                unk, nn = new.get("unk", unk), new.get("nn", nn)
            return (ho, fa, unk, nn)
        ends9, esc9, vis9, par9 = _iteration_states(cfg, head, body_ids, (0, 0, 0, 0), step9)
        r.count(len(vis9))
        if not ends9:
            raise AnalysisError("no complete iteration of the children loop found")
        for (nid, st) in sorted(ends9) + sorted(esc9):
            ho, fa, unk, nn = st
            if ho and not fa and unk != 1 and nn != 2:
                w = witness(cfg, par9, (nid, st))
                r.violation(CLS, CLS.loc(L1), "a child that may have a verify cap is handed on in a loop iteration that does "
                            "not record that cap in %s (recording it later, when the child is processed, is too late): every "
                            "further link to it met before then passes the 'not in %s' test and it is walked again "
                            "(path: %s)" % (FOUND, FOUND, w.brief()), w)
                break
        # a record made elsewhere in the traversal does not stand in for it: say so when one exists
        for G in (TD, CON):
            if G is CLS:
                continue
            gf = CON_FOUND if G is CON else None
            if gf:
                for c in calls_in_func(G, "add", into_lambda=True):
                    if _recv_is(c, gf):
                        ctx.note("C21.9: %s also records a cap in %s (%s); only the record made at discovery counts" % (
                            short(G), gf, src(G, c)))

    # -- 3. one visit callback per queued child ------------------------------------
    with ctx.rule("C21.3", "E7/R9", "each filekids entry gets exactly one walker.add_node(child, childpath) callback and "
                  "each dirkids entry exactly one _deep_traverse_dirnode(child, childpath, ..), bound per iteration, on "
                  "the returned Deferred", expected=4) as r:
        GEN = _is_gen(CON)
        D = None
        if not GEN:
            rets = ccfg.find(is_return)
            dnames = {n.ast.value.id for n in rets if isinstance(n.ast.value, ast.Name)}
            r.require(len(dnames) == 1 and all(isinstance(n.ast.value, ast.Name) for n in rets), CON, CON.loc(),
                      "%s does not return its one callback chain" % CON.name)
            D = sorted(dnames)[0] if dnames else None
        for kind, tail in (("file", "add_node"), ("dir", TD.name)):
            lp, lst, enum, _G = consumers[kind][0]
            pair_t = lp.target
            if enum:
                pair_t = pair_t.elts[1] if isinstance(pair_t, ast.Tuple) and len(pair_t.elts) == 2 else None
            if not (isinstance(pair_t, ast.Tuple) and len(pair_t.elts) == 2 and all(isinstance(e, ast.Name) for e in pair_t.elts)):
                raise AnchorVanished("loop over %s no longer unpacks (child, childpath)" % lst)
            N_, P_ = pair_t.elts[0].id, pair_t.elts[1].id
            lnames = {x.id for x in ast.walk(lp.target) if isinstance(x, ast.Name)}
            r.site(CON, lp, "loop over %s" % lst)
            # the list is drained as a whole
            it, _e = _strip_enumerate(lp.iter)
            r.require(isinstance(it, ast.Name), CON, CON.loc(lp), "loop runs over %s, not the whole queue" % src(CON, lp.iter))
            lhead = [n for n in ccfg.nodes if n.kind == "iter" and n.ast is lp][0]
            lbody = _ids_under(lp.body)

            def is_visit_reg(c):
                return isinstance(c.func, ast.Attribute) and c.func.attr in REGS and c.args and bool(visit_calls(c, tail))

            def is_visit_call(c):
                """generator shape: the visit is called in the loop body itself"""
                return GEN and call_tail(c) == tail and isinstance(c.func, ast.Attribute) \
                    and isinstance(c.func.value, ast.Name)

            def yielded_at(n, c):
                return any(isinstance(y, (ast.Yield, ast.Await)) and y.value is c for e in node_exprs(n) for y in own_nodes(e))

            def step(n, lab, st):
                k = st[0]
                for c in node_calls(n):
                    if is_visit_reg(c) or is_visit_call(c):
                        k = min(2, k + 1)
                return (k,)
            ends, escaped, visited, parent = _iteration_states(ccfg, lhead, lbody, (0,), step)
            r.count(len(visited))
            for (nid, st) in sorted(escaped)[:1]:
                r.violation(CON, CON.loc(lp), "the loop over %s can be left early: queued children are never visited" % lst,
                            witness(ccfg, parent, (nid, st)))
            for (nid, st) in sorted(ends):
                if st[0] != 1:
                    r.violation(CON, CON.loc(lp), "an entry of %s gets %d visit%s in one iteration (exactly one "
                                "is required)" % (lst, st[0], "s" if GEN else " callbacks"), witness(ccfg, parent, (nid, st)))
                    break
            # the registration(s)
            for n in ccfg.nodes:
                if n.ast is None or id(n.ast) not in lbody:
                    continue
                for c in node_calls(n):
                    if is_visit_call(c):
                        # `yield visit(child, childpath, ..)`: evaluated now, with this iteration's loop variables
                        r.site(CON, c, "visit of an entry of %s" % lst)
                        r.require(yielded_at(n, c), CON, CON.loc(c), "the result of %s is not yielded: the generator does not "
                                  "wait for this visit, so the walk can finish (and report) before the %s is done" % (
                                      src(CON, c.func), "subtree" if kind == "dir" else "node"))
                        lparams, t = (), None

                        def val(e, n=n):
                            if isinstance(e, ast.Name) and e.id in lnames:
                                ds_ = cnorm.rd.get(n.id, {}).get(e.id) or ()
                                return e.id if set(ds_) == {lhead.id} else None
                            return None
                        vcs = [c]
                    elif not is_visit_reg(c):
                        continue
                    else:
                        r.site(CON, c, "visit callback for %s" % lst)
                        r.require(REGS[c.func.attr] in ("cb", "both"), CON, CON.loc(c),
                                  "the visit is registered with %s: it does not run on the success path" % c.func.attr)
                        r.require(attr_path(c.func.value) == D, CON, CON.loc(c),
                                  "the visit is registered on %s, not on the returned Deferred %s" % (src(CON, c.func.value), D))
                        t = c.args[0]
                        if isinstance(t, ast.Lambda):
                            binds, lparams = _lambda_bindings(t)
                            for x in own_nodes(t.body, into_lambda=True):
                                if isinstance(x, ast.Name) and x.id in lnames and x.id not in lparams:
                                    r.violation(CON, CON.loc(c), "the callback reads loop variable %s when it runs, not when it is "
                                                "registered: every callback sees the last entry of %s" % (x.id, lst))
                                    break

                            def val(e, binds=binds):
                                """loop variable denoted by e inside the lambda"""
                                if isinstance(e, ast.Name) and e.id in binds and isinstance(binds[e.id], ast.Name):
                                    return binds[e.id].id
                                return None
                            vcs = visit_calls(c, tail)
                        else:
                            # named callback with the loop variables as extra arguments
                            lparams = ()
                            g = CON.nested.get(t.id) if isinstance(t, ast.Name) else None
                            if g is None:
                                raise AnchorVanished("visit callback for %s is neither a lambda nor a nested function" % lst)
                            gps = g.params[1:]
                            amap = {p: dflt.id for p, dflt in _lambda_bindings(g.node)[0].items() if isinstance(dflt, ast.Name)}
                            for p, a in zip(gps, c.args[1:]):
                                if isinstance(a, ast.Name):
                                    amap[p] = a.id
                            for kw in c.keywords:
                                if kw.arg and isinstance(kw.value, ast.Name):
                                    amap[kw.arg] = kw.value.id
                            for x in func_own_nodes(g, into_lambda=True):
                                if isinstance(x, ast.Name) and x.id in lnames and x.id not in g.params:
                                    r.violation(CON, CON.loc(c), "the callback reads loop variable %s when it runs: every callback "
                                                "sees the last entry of %s" % (x.id, lst))
                                    break
                            val = lambda e, amap=amap: amap.get(e.id) if isinstance(e, ast.Name) else None
                            vcs = visit_calls(c, tail)
                            for vc in vcs:
                                r.require(any(isinstance(x, ast.Return) and x.value is not None
                                              and any(y is vc for y in ast.walk(x.value)) for x in func_own_nodes(g)),
                                          CON, CON.loc(vc), "the callback %s does not return the result of %s: the chain does not "
                                          "wait for this visit, so the walk can finish (and report) before the %s is done" % (
                                              g.name, src(CON, vc.func), "subtree" if kind == "dir" else "node"))
                    for vc in vcs:
                        if kind == "file":
                            r.require(_recv_is(vc, CON_WALKER), CON, CON.loc(vc), "visit goes to %s" % src(CON, vc.func))
                            ok = len(vc.args) == 2 and val(vc.args[0]) == N_ and val(vc.args[1]) == P_
                            r.require(ok, CON, CON.loc(vc), "add_node is not given this entry's (%s, %s): %s" % (N_, P_, src(CON, vc)))
                        else:
                            r.require(call_name(vc) == "self." + TD.name, CON, CON.loc(vc),
                                      "directory visit goes to %s" % call_name(vc))
                            ok = len(vc.args) >= 2 and val(vc.args[0]) == N_ and val(vc.args[1]) == P_
                            r.require(ok, CON, CON.loc(vc), "%s is not given this entry's (%s, %s): %s" % (
                                TD.name, N_, P_, src(CON, vc)))
                            for i, q in enumerate(td_params):
                                if i < 2:
                                    continue
                                a = arg(vc, i, q)
                                if q in con_params:
                                    r.require(isinstance(a, ast.Name) and a.id == q and q not in (
                                        lparams if isinstance(t, ast.Lambda) else ()), CON, CON.loc(vc),
                                        "the recursive visit does not share this walk's %s (%s): %s" % (
                                            q, "verifiers seen in one subtree are forgotten in the next" if q == CON_FOUND
                                            else "argument not forwarded", src(CON, a) if a is not None else "missing"))
        # enter_directory once per listing
        refs = [x for x in func_own_nodes(CON, into_lambda=True) if isinstance(x, ast.Attribute)
                and x.attr == "enter_directory" and attr_path(x) == CON_WALKER + ".enter_directory"]
        r.require(len(refs) == 1 and _enclosing_loop(CON, refs[0]) is None if refs else False, CON, CON.loc(),
                  "%s.enter_directory is not notified exactly once per listed directory" % CON_WALKER)

    # -- 2 + 4. seeding and the add_node-then-list step -------------------------------
    with ctx.rule("C21.2", "R4", "deep_traverse seeds found with the root's verify cap and starts at (self, []); "
                  "_deep_traverse_dirnode gives (node, path) to add_node once, lists that node and hands the listing on "
                  "with the same node / path / walker / monitor / found; walker.finish() -> monitor.finish -> returned monitor",
                  expected=5) as r:
        # _deep_traverse_dirnode
        tcfg = TD.cfg()
        tnorm = FlowNorm(TD)
        h_node = None          # CFG node at which the listing is handed to the classification of the children
        if not _is_gen(TD):
            regs = registrations(TD)
            rets = tcfg.find(is_return)
            dn = {n.ast.value.id for n in rets if isinstance(n.ast.value, ast.Name)}
            if len(dn) != 1 or len(rets) != len([n for n in rets if isinstance(n.ast.value, ast.Name)]):
                raise AnchorVanished("_deep_traverse_dirnode does not return one Deferred variable")
            D2 = dn.pop()
            chain = [x for x in regs if x.recv == D2]
            i_ch = [i for i, x in enumerate(chain) if x.target_name().endswith("." + CLS.name)]
            if len(i_ch) != 1:
                raise AnchorVanished("%s: registration of %s not found" % (TD.name, CLS.name))
            reg_ch = chain[i_ch[0]]
            r.site(TD, reg_ch.call, "listing handed to _deep_traverse_dirnode_children")
            r.require(reg_ch.kind == "cb" and reg_ch.target_name() == "self." + CLS.name, TD,
                      TD.loc(reg_ch.call), "children walk registered as %s on %s" % (reg_ch.kind, reg_ch.target_name()))
            amap = {}
            for q, a in zip(ch_params[1:], reg_ch.args):
                amap[q] = a.id if isinstance(a, ast.Name) and a.id in td_params else None
            for kw in reg_ch.call.keywords:
                if kw.arg:
                    amap[kw.arg] = kw.value.id if isinstance(kw.value, ast.Name) and kw.value.id in td_params else None
            for q in ch_params[1:]:
                r.require(amap.get(q) is not None, TD, TD.loc(reg_ch.call),
                          "_deep_traverse_dirnode_children's %s is not one of _deep_traverse_dirnode's own parameters" % q)
            T_FOUND, T_WALKER = amap.get(FOUND), amap.get(WALKER)
            T_PATH = amap.get(PATHP) if PATHP else None
            T_NODE = amap.get(ch_params[1])
            # listing: a callback before it calls T_NODE.list()
            lists = []
            for i, x in enumerate(chain[:i_ch[0]]):
                t = x.target
                body = t.body if isinstance(t, ast.Lambda) else None
                if body is not None:
                    for c in own_nodes(body, into_lambda=True):
                        if isinstance(c, ast.Call) and call_tail(c) == "list" and isinstance(c.func, ast.Attribute):
                            lists.append((i, x, c))
                elif isinstance(t, ast.Attribute) and t.attr == "list":
                    lists.append((i, x, ast.Call(func=t, args=[], keywords=[])))
            if not lists:
                raise AnchorVanished("_deep_traverse_dirnode: no node.list() callback before the children walk")
            li, lx, lc = lists[-1]
            r.site(TD, lx.call, "listing callback")
            r.require(lx.kind == "cb" and li == i_ch[0] - 1, TD, TD.loc(lx.call),
                      "the children walk does not directly consume the result of %s" % src(TD, lc))
            r.require(T_NODE is not None and attr_path(lc.func.value) == T_NODE, TD, TD.loc(lx.call),
                      "the listing of %s is walked as the children of %s" % (src(TD, lc.func.value), T_NODE))
            h_node = _node_of_call(tcfg, reg_ch.call)
        else:
            # inlineCallbacks shape: `children = yield node.list()` ... self.<CLS>(children, ..) / the loop over the
            # listing in this function itself
            if CON is not TD or CLS_CALL is None:
                raise AnchorVanished("%s is a generator that does not hand the listing to %s itself; this shape is not "
                                     "modelled" % (short(TD), short(CLS)))
            h_node = _node_of_call(tcfg, CLS_CALL)
            r.site(TD, CLS_CALL, "listing handed to %s" % CLS.name)
            amap, aexpr = {}, {}
            for q, a in list(zip(ch_params, CLS_CALL.args)) + [(kw.arg, kw.value) for kw in CLS_CALL.keywords if kw.arg]:
                aexpr[q] = a
                amap[q] = a.id if isinstance(a, ast.Name) and a.id in td_params else None
            for q in ch_params[1:]:
                r.require(amap.get(q) is not None, TD, TD.loc(CLS_CALL),
                          "%s's %s is not one of %s's own parameters" % (CLS.name, q, TD.name))
            T_FOUND, T_WALKER = amap.get(FOUND), amap.get(WALKER)
            T_PATH = amap.get(PATHP) if PATHP else None
            # the node of this step: the one reported to add_node outside the visit loops
            T_NODE = None
            for x in func_own_nodes(TD):
                if isinstance(x, ast.Call) and call_tail(x) == "add_node" and T_WALKER and _recv_is(x, T_WALKER) \
                        and _enclosing_loop(TD, x) is None and x.args and isinstance(x.args[0], ast.Name) \
                        and x.args[0].id in td_params:
                    T_NODE = x.args[0].id
            lst_e = aexpr.get(ch_params[0])
            lv = lst_e
            if isinstance(lv, ast.Name) and h_node is not None:
                ds_ = tnorm.rd.get(h_node.id, {}).get(lv.id) or ()
                if len(ds_) == 1 and min(ds_) >= 0:
                    lv = assign_value(tcfg.nodes[min(ds_)], lv.id)
            r.site(TD, lst_e, "listing")
            okl = isinstance(lv, (ast.Yield, ast.Await)) and isinstance(lv.value, ast.Call) and call_tail(lv.value) == "list" \
                and isinstance(lv.value.func, ast.Attribute) and not lv.value.args
            r.require(okl, TD, TD.loc(CLS_CALL), "the children handed to %s (%s) are not the awaited result of <node>.list()" % (
                CLS.name, src(TD, lv) if lv is not None else "missing"))
            if okl:
                r.require(T_NODE is not None and attr_path(lv.value.func.value) == T_NODE, TD, TD.loc(lv),
                          "the listing of %s is walked as the children of %s" % (src(TD, lv.value.func.value), T_NODE))
        # add_node(node, path) exactly once
        adds = []
        for x in func_own_nodes(TD, into_lambda=True):
            if isinstance(x, ast.Call):
                if call_tail(x) == "add_node" and T_WALKER and _recv_is(x, T_WALKER):
                    if CON is TD and any(id(x) in _ids_under(lp_.body) for (lp_, _q, _e, _g) in
                                         consumers["file"] + consumers["dir"]):
                        continue          # the visit of a queued child (rule 3)
                    adds.append((x, list(x.args)))
                else:
                    for i, a in enumerate(x.args):
                        if isinstance(a, ast.Attribute) and a.attr == "add_node" and attr_path(a) == "%s.add_node" % T_WALKER:
                            adds.append((x, list(x.args[i + 1:])))
        r.require(len(adds) == 1, TD, TD.loc(), "_deep_traverse_dirnode reports the directory to %s.add_node %d times "
                  "(exactly once is required)" % (T_WALKER, len(adds)))
        for (x, args) in adds:
            r.site(TD, x, "add_node for the directory itself")
            r.require(_enclosing_loop(TD, x) is None, TD, TD.loc(x), "add_node for the directory sits in a loop")
            ok = len(args) == 2 and isinstance(args[0], ast.Name) and args[0].id == T_NODE \
                and isinstance(args[1], ast.Name) and args[1].id == T_PATH
            r.require(ok, TD, TD.loc(x), "add_node is given (%s), not this directory and its path (%s, %s)" % (
                ", ".join(src(TD, a) for a in args), T_NODE, T_PATH))
        # every path through the function passes the add_node site
        if adds:
            an = _node_of_call(tcfg, adds[0][0])
            for (t, w) in find_path_avoiding(tcfg, lambda n: n.kind == "exit", gate_node=lambda n: n is an):
                r.violation(TD, TD.loc(), "_deep_traverse_dirnode can finish without reporting the directory to add_node "
                            "(path: %s)" % w.brief(), w)
        # deep_traverse
        DT = idx.func(DN + ".deep_traverse")
        dcfg = DT.cfg()
        dnorm = FlowNorm(DT)
        starts = [(n, c) for n in dcfg.nodes for c in node_calls(n) if call_tail(c) == TD.name]
        if len(starts) != 1:
            raise AnchorVanished("deep_traverse: start of the walk not found")
        sn, sc = starts[0]
        r.site(DT, sc, "root of the walk")

        def targ(role):
            if role is None or role not in td_params:
                return None
            return arg(sc, td_params.index(role), role)
        a_node, a_path, a_found = targ(T_NODE), targ(T_PATH), targ(T_FOUND)
        r.require(isinstance(a_node, ast.Name) and a_node.id == "self", DT, DT.loc(sc), "the walk does not start at self")
        pv = dnorm.resolve(sn, a_path) if a_path is not None else None
        r.require(isinstance(pv, (ast.List, ast.Tuple)) and not pv.elts, DT, DT.loc(sc),
                  "the root's path is %s, not the empty path" % (src(DT, pv) if pv is not None else "missing"))
        fv = dnorm.resolve(sn, a_found) if a_found is not None else None
        if isinstance(fv, ast.Name):
            # set literals / set([...]) are mutable containers, which the normaliser does not substitute
            ds = dnorm.rd.get(sn.id, {}).get(fv.id, frozenset())
            if len(ds) == 1 and min(ds) >= 0:
                dv = assign_value(dcfg.nodes[min(ds)], fv.id)
                if dv is not None:
                    fv = dv
        seeded = fv is not None and (isinstance(fv, ast.Set) or (isinstance(fv, ast.Call) and call_tail(fv) == "set")) \
            and any(isinstance(x, (ast.Call, ast.Name)) and dnorm.norm(sn, x) == "self.get_verify_cap()" for x in ast.walk(fv))
        if not seeded and T_FOUND and T_NODE and h_node is not None and isinstance(a_node, ast.Name) and a_node.id == "self":
            # or: the per-directory step records the verify cap of the node it was given (the root, for the first call)
            # on every path before that node's listing is classified
            SELFV = norm_src("%s.get_verify_cap()" % T_NODE)

            def records_node(n):
                return n.kind == "stmt" and T_NODE not in node_stores(n) and any(
                    call_tail(c) == "add" and _recv_is(c, T_FOUND) and len(c.args) == 1
                    and tnorm.norm(n, c.args[0]) == SELFV for c in node_calls(n))
            if tcfg.find(records_node):
                seeded = not find_path_avoiding(tcfg, lambda n: n is h_node, gate_node=records_node)
        r.require(seeded, DT, DT.loc(sc), "the found set handed to the walk (%s) is not seeded with the root's own verify "
                  "cap: a cycle back to the root visits the root twice" % (src(DT, fv) if fv is not None else "missing"))
        # the result of the walk: walker.finish() runs after the whole walk, its value reaches monitor.finish, and the
        # monitor handed to the walk is the one returned
        rest = [q for q in td_params if q not in (T_NODE, T_PATH, T_WALKER, T_FOUND)]
        if len(rest) != 1:
            raise AnchorVanished("_deep_traverse_dirnode: the monitor parameter was not identified (%s)" % rest)
        a_walker, a_mon = targ(T_WALKER), targ(rest[0])
        if not (isinstance(a_walker, ast.Name) and isinstance(a_mon, ast.Name)):
            raise AnchorVanished("deep_traverse: walker / monitor handed to the walk are not plain names")
        WD = None
        if sn.kind == "stmt" and isinstance(sn.ast, ast.Assign) and sn.ast.value is sc and len(sn.ast.targets) == 1 \
                and isinstance(sn.ast.targets[0], ast.Name):
            WD = sn.ast.targets[0].id
        dregs = [x for x in registrations(DT) if WD and x.recv == WD]
        r.site(DT, sc, "delivery of the walker's result")

        def calls_finish(x, who):
            t = x.target
            if isinstance(t, ast.Lambda):
                return any(isinstance(c, ast.Call) and call_name(c) == who + ".finish" for c in ast.walk(t.body))
            return isinstance(t, ast.Attribute) and attr_path(t) == who + ".finish"
        i_w = [i for i, x in enumerate(dregs) if x.kind in ("cb", "both") and calls_finish(x, a_walker.id)]
        i_m = [i for i, x in enumerate(dregs) if x.kind in ("cb", "both", "pair") and calls_finish(x, a_mon.id)]
        r.require(bool(i_w), DT, DT.loc(sc),
                  "%s.finish() is not called on the success path after the walk: the operation's result does not contain "
                  "what the walker collected" % a_walker.id)
        r.require(not i_w or (bool(i_m) and i_m[-1] > i_w[0]), DT, DT.loc(sc),
                  "%s.finish does not receive the result of %s.finish(): the monitor never reports the collected result" % (
                      a_mon.id, a_walker.id))
        drets = dcfg.find(is_return)
        r.require(bool(drets) and all(isinstance(n.ast.value, ast.Name) and n.ast.value.id == a_mon.id for n in drets)
                  and not find_path_avoiding(dcfg, lambda n: n.kind == "exit", gate_node=is_return), DT, DT.loc(),
                  "deep_traverse does not return the monitor (%s) that receives the result of the walk" % a_mon.id)

    # -- 5. walkers pair the path with the node ---------------------------------------
    with ctx.rule("C21.5", "R6", "ManifestWalker.add_node records (path, node.get_uri()) of its own arguments and counts "
                  "the node once; DeepChecker.add_node checks the node it was given and files the result under the path "
                  "it was given and returns the Deferred of that work; the manifest's storage-index / verifycaps collections "
                  "record every node that has one", expected=9) as r:
        mw = idx.func(MOD + ":ManifestWalker.add_node")
        mn, mp = first_positional_params(mw)[:2]
        apps = [c for c in calls_in_func(mw, "append") if call_name(c) == "self.manifest.append"]
        if len(apps) != 1:
            raise AnchorVanished("ManifestWalker.add_node: self.manifest.append not found exactly once")
        c = apps[0]
        r.site(mw, c, "manifest entry")
        t = c.args[0] if c.args else None
        if isinstance(t, ast.Name):
            t = unique_defs(mw).get(t.id, t)
        ok = isinstance(t, ast.Tuple) and len(t.elts) == 2
        if ok:
            d0 = {x.id for x in ast.walk(t.elts[0]) if isinstance(x, ast.Name)} & {mn, mp}
            e1 = t.elts[1]
            ok = d0 == {mp} and isinstance(e1, ast.Call) and call_name(e1) == mn + ".get_uri"
        r.require(ok, mw, mw.loc(c), "manifest entry %s is not (path given, cap of the node given)" % src(mw, t))
        r.require(_enclosing_loop(mw, c) is None, mw, mw.loc(c), "manifest entry appended in a loop")
        sup = [x for x in calls_in_func(mw, "add_node")]
        r.site(mw, sup[0] if sup else None, "stats delegation")
        r.require(len(sup) == 1 and [a.id for a in sup[0].args if isinstance(a, ast.Name)][-2:] == [mn, mp], mw, mw.loc(),
                  "ManifestWalker.add_node does not hand (node, path) to DeepStats.add_node exactly once")
        # the manifest's storage-index and verify-cap collections: every node that has one is recorded with its own
        gr = idx.func(MOD + ":ManifestWalker.get_results")
        colls = {}
        for x in func_own_nodes(gr):
            if isinstance(x, ast.Dict):
                for k, v in zip(x.keys, x.values):
                    if isinstance(k, ast.Constant) and k.value in ("storage-index", "verifycaps") and attr_path(v):
                        colls[k.value] = attr_path(v)
        if set(colls) != {"storage-index", "verifycaps"}:
            raise AnchorVanished("ManifestWalker.get_results no longer reports 'storage-index' and 'verifycaps' from "
                                 "attributes of the walker")
        mcfg, mnorm = mw.cfg(), FlowNorm(mw)
        for key, getter in (("storage-index", "get_storage_index"), ("verifycaps", "get_verify_cap")):
            coll = colls[key]
            SRC_ = norm_src("%s.%s()" % (mn, getter))

            def recs(n):
                return [c for c in node_calls(n) if call_tail(c) in ("add", "update", "append")
                        and attr_path(c.func.value) == coll]

            def mtr(n, lab, nxt, st, SRC_=SRC_, recs=recs):
                if lab == "exc":
                    return None
                fact, added = st
                if n.kind == "stmt" and mn in node_stores(n):
                    fact = 0
                if recs(n):
                    added = 1
                f = mnorm.edge_fact(n, lab)
                if f:
                    v = None
                    if f[0] in ("truth", "false") and f[1] == SRC_:
                        v = 1 if f[0] == "truth" else 2
                    elif f[0] in ("is", "is not", "==", "!=") and {f[1], f[2]} == {"None", SRC_}:
                        v = 2 if f[0] in ("is", "==") else 1
                    if v:
                        if fact and fact != v:
                            return None
                        fact = v
                return (fact, added)
            mvis, mpar = explore(mcfg, (0, 0), mtr)
            r.count(len(mvis))
            r.site(mw, None, "manifest '%s' collection %s" % (key, coll))
            for n in mcfg.nodes:
                for c in recs(n):
                    r.require(len(c.args) == 1 and any(mnorm.norm(n, x) == SRC_ for x in ast.walk(c.args[0])
                                                       if isinstance(x, (ast.Call, ast.Name))), mw, mw.loc(c),
                              "%s records %s, which is not derived from %s of the node given" % (coll, src(mw, c), SRC_))
            for (nid, st) in sorted(mvis):
                if mcfg.nodes[nid].kind == "exit" and st[0] != 2 and not st[1]:
                    r.violation(mw, mw.loc(), "a node whose %s() is not None/empty can leave ManifestWalker.add_node "
                                "without being recorded in %s: the manifest's '%s' set misses visited objects" % (
                                    getter, coll, key), witness(mcfg, mpar, (nid, st)))
                    break
        dc = idx.func(MOD + ":DeepChecker.add_node")
        cn, cp = first_positional_params(dc)[:2]
        dcfg = dc.cfg()
        regs = registrations(dc)
        checks = [(n, assign_value(n, t.id)) for n in dcfg.nodes if n.kind == "stmt" and isinstance(n.ast, ast.Assign)
                  for t in n.ast.targets if isinstance(t, ast.Name)
                  and isinstance(n.ast.value, ast.Call) and call_tail(n.ast.value) in ("check", "check_and_repair")]
        if not checks:
            raise AnchorVanished("DeepChecker.add_node: no node.check / check_and_repair call")
        for (n, v) in checks:
            r.site(dc, v, "check of the node")
            r.require(_recv_is(v, cn), dc, dc.loc(v), "checks %s, not the node given" % src(dc, v.func))
        filed = [x for x in regs if x.target_name().startswith("self._results.add_check")]
        r.require(len(filed) == len(checks), dc, dc.loc(), "not every check result is filed in the results")
        for x in filed:
            r.site(dc, x.call, "result filed under path")
            r.require(x.kind == "cb" and len(x.args) == 1 and isinstance(x.args[0], ast.Name) and x.args[0].id == cp,
                      dc, dc.loc(x.call), "check result is filed under %s, not under the path given" % (
                          ", ".join(src(dc, a) for a in x.args) or "nothing"))
        st = [c for c in calls_in_func(dc, "add_node", into_lambda=True)]
        r.require(len(st) == 1 and [a.id for a in st[0].args if isinstance(a, ast.Name)] == [cn, cp], dc, dc.loc(),
                  "DeepChecker.add_node does not count (node, path) in its DeepStats exactly once")
        # the traversal waits for the check, the filing of its result and the stats: add_node returns that Deferred
        chainvars = {x.recv for x in filed} | {t.id for (n, v) in checks for t in n.ast.targets if isinstance(t, ast.Name)}
        for x in regs:
            if isinstance(x.target, ast.Lambda) and st and any(c is st[0] for c in ast.walk(x.target.body)):
                chainvars.add(x.recv)
        rets = dcfg.find(is_return)
        r.site(dc, rets[0].ast if rets else None, "Deferred handed back to the traversal")

        def ret_var(v):
            while isinstance(v, ast.Call) and isinstance(v.func, ast.Attribute) and v.func.attr in REGS:
                v = v.func.value          # `return d.addCallback(..)` hands back d
            return v.id if isinstance(v, ast.Name) else None
        ok = bool(rets) and len(chainvars) == 1 and all(n.ast.value is not None and ret_var(n.ast.value) in chainvars
                                                        for n in rets)
        if ok:
            ok = not find_path_avoiding(dcfg, lambda n: n.kind == "exit", gate_node=lambda n: n.kind == "stmt"
                                        and isinstance(n.ast, ast.Return))
        r.require(ok, dc, dc.loc(rets[0].ast) if rets else dc.loc(),
                  "DeepChecker.add_node does not return the Deferred (%s) on which the check, the filing of its result and "
                  "the stats run: the traversal finishes and reports before every object has been checked and counted" % (
                      ", ".join(sorted(v for v in chainvars if v)) or "?"))

    # -- 6. DeepStats.add_node -----------------------------------------------------------
    with ctx.rule("C21.6", "R2", "DeepStats.add_node counts a node in at most one of count-unknown / count-directories / "
                  "count-files, and a counted file in exactly one of mutable / literal / immutable", expected=7) as r:
        sa_ = idx.func("deep_stats:DeepStats.add_node")
        scfg = sa_.cfg()
        TOP = ("count-unknown", "count-directories", "count-files")
        SUB = ("count-mutable-files", "count-literal-files", "count-immutable-files")

        def keys_at(n):
            out = []
            for c in node_calls(n):
                if call_name(c) == "self.add" and c.args and isinstance(c.args[0], ast.Constant):
                    out.append((c.args[0].value, c))
            return out
        seen = set()
        for n in scfg.nodes:
            for (k, c) in keys_at(n):
                if k in TOP + SUB:
                    r.site(sa_, c, k)
                    seen.add(k)
                    r.require(len(c.args) == 1 and not c.keywords, sa_, sa_.loc(c), "%s is not incremented by one" % k)
        for k in TOP + SUB:
            if k not in seen:
                raise AnchorVanished("DeepStats.add_node no longer counts %s" % k)

        def tr(n, lab, nxt, st):
            if lab == "exc":
                return st
            top, files, sub = st
            for (k, c) in keys_at(n):
                if k in TOP:
                    top = min(2, top + 1)
                if k == "count-files":
                    files = min(2, files + 1)
                if k in SUB:
                    sub = min(2, sub + 1)
            return (top, files, sub)
        visited, parent = explore(scfg, (0, 0, 0), tr)
        r.count(len(visited))
        for (nid, st) in sorted(visited):
            if scfg.nodes[nid].kind != "exit":
                continue
            top, files, sub = st
            if top > 1:
                r.violation(sa_, sa_.loc(), "one node is counted in more than one of count-unknown / count-directories / "
                            "count-files", witness(scfg, parent, (nid, st)))
                break
            if files != sub:
                r.violation(sa_, sa_.loc(), "a file is counted in count-files %d time(s) but in %d of the "
                            "mutable/literal/immutable counts" % (files, sub), witness(scfg, parent, (nid, st)))
                break

        # -- 6b. each count is taken under the class test of the node it counts (typestate over the class facts)
        SN = first_positional_params(sa_)[0]
        snorm = FlowNorm(sa_)
        FORMS = {
            "unk": {norm_src("isinstance(%s, UnknownNode)" % SN), norm_src("%s.is_unknown()" % SN)},
            "isd": {norm_src("IDirectoryNode.providedBy(%s)" % SN)},
            "mut": {norm_src("IMutableFileNode.providedBy(%s)" % SN)},
            "imm": {norm_src("IImmutableFileNode.providedBy(%s)" % SN)},
            "lit": {norm_src("isinstance(from_string(%s.get_uri()), LiteralFileURI)" % SN),
                    norm_src("isinstance(%s, LiteralFileNode)" % SN)},
        }
        FK = ("unk", "isd", "mut", "imm", "lit")
        CK = TOP + SUB + ("size-literal-files", "size-immutable-files", "size-files-histogram")
        SIZE = norm_src("%s.get_size()" % SN)

        def sized_at(n):
            """keys of the size statistics fed at node n, with the call"""
            out = []
            for c in node_calls(n):
                if call_name(c) in ("self.add", "self.histogram") and c.args and isinstance(c.args[0], ast.Constant) \
                        and c.args[0].value in CK[6:]:
                    out.append((c.args[0].value, c))
            return out
        for n in scfg.nodes:
            for (k, c) in sized_at(n):
                r.site(sa_, c, k)
                r.require(len(c.args) == 2 and snorm.norm(n, c.args[1]) == SIZE, sa_, sa_.loc(c),
                          "%s is not fed the size of the node being counted: %s" % (k, src(sa_, c)))

        def tr2(n, lab, nxt, st):
            if lab == "exc":
                return None
            cnt, facts = list(st[:len(CK)]), dict(zip(FK, st[len(CK):]))
            if n.kind == "stmt" and SN in node_stores(n):
                facts = dict.fromkeys(FK, 0)
            for (k, c) in {id(c): (k, c) for (k, c) in keys_at(n) + sized_at(n)}.values():
                if k in CK:
                    cnt[CK.index(k)] = min(2, cnt[CK.index(k)] + 1)
            f = snorm.edge_fact(n, lab)
            if f and f[0] in ("truth", "false"):
                for fk in FK:
                    if f[1] in FORMS[fk]:
                        v = 1 if f[0] == "truth" else 2
                        if facts[fk] and facts[fk] != v:
                            return None          # contradicts a fact already observed on this path
                        facts[fk] = v
            return tuple(cnt) + tuple(facts[k] for k in FK)
        visited2, parent2 = explore(scfg, (0,) * (len(CK) + len(FK)), tr2)
        r.count(len(visited2))
        said = set()

        def bad6(key, nid, st, msg):
            if key not in said:
                said.add(key)
                r.violation(sa_, sa_.loc(), msg, witness(scfg, parent2, (nid, st)))
        for (nid, st) in sorted(visited2):
            n = scfg.nodes[nid]
            fc = dict(zip(FK, st[len(CK):]))
            isfile = fc["mut"] == 1 or fc["imm"] == 1
            for (k, c) in keys_at(n):
                if k == "count-unknown" and fc["unk"] != 1:
                    bad6(k, nid, st, "count-unknown is incremented for a node not known to be an UnknownNode")
                if k == "count-directories" and (fc["isd"] != 1 or fc["unk"] == 1):
                    bad6(k, nid, st, "count-directories is incremented for a node not known to be a directory")
                if k == "count-files" and (fc["unk"] == 1 or fc["isd"] == 1 or not (
                        isfile or (fc["unk"] == 2 and fc["isd"] == 2 and not (fc["mut"] == 2 and fc["imm"] == 2)))):
                    bad6(k, nid, st, "count-files is incremented for a node not known to be a file")
                if k == "count-mutable-files" and fc["mut"] != 1:
                    bad6(k, nid, st, "count-mutable-files is incremented for a node not known to be a mutable file")
                if k == "count-literal-files" and (fc["lit"] != 1 or fc["mut"] == 1):
                    bad6(k, nid, st, "count-literal-files is incremented for a file not known to be a literal file")
                if k == "count-immutable-files" and (fc["lit"] != 2 or fc["mut"] == 1):
                    bad6(k, nid, st, "count-immutable-files is incremented for a file not known to be a non-literal "
                         "immutable file")
            if n.kind != "exit":
                continue
            cn = dict(zip(CK, st[:len(CK)]))
            if fc["unk"] == 1 and cn["count-unknown"] != 1:
                bad6("x-unk", nid, st, "an UnknownNode leaves add_node without being counted in count-unknown")
            if fc["unk"] != 1 and fc["isd"] == 1 and cn["count-directories"] != 1:
                bad6("x-dir", nid, st, "a directory leaves add_node without being counted in count-directories")
            if fc["unk"] != 1 and fc["isd"] != 1 and isfile and cn["count-files"] != 1:
                bad6("x-file", nid, st, "a file leaves add_node without being counted in count-files")
            if cn["size-literal-files"] != cn["count-literal-files"]:
                bad6("x-sl", nid, st, "a literal file is counted %d time(s) but its size is added to size-literal-files %d "
                     "time(s)" % (cn["count-literal-files"], cn["size-literal-files"]))
            if cn["size-immutable-files"] != cn["count-immutable-files"]:
                bad6("x-si", nid, st, "an immutable file is counted %d time(s) but its size is added to "
                     "size-immutable-files %d time(s)" % (cn["count-immutable-files"], cn["size-immutable-files"]))
            if cn["size-files-histogram"] != min(2, cn["count-literal-files"] + cn["count-immutable-files"]):
                bad6("x-h", nid, st, "a sized file is counted %d time(s) but entered into size-files-histogram %d time(s)" % (
                    cn["count-literal-files"] + cn["count-immutable-files"], cn["size-files-histogram"]))

    # -- 7. verifier caps hash / compare by content ---------------------------------------
    with ctx.rule("C21.7", "R6", "every class returned by a get_verify_cap of allmydata.uri hashes and compares by "
                  "to_string() (inherited from _BaseURI, not overridden)", expected=8) as r:
        um = idx.module("allmydata.uri")
        base = idx.cls("uri:_BaseURI")
        bh, be = base.methods.get("__hash__"), base.methods.get("__eq__")
        if bh is None or be is None:
            raise AnchorVanished("uri._BaseURI no longer defines __hash__ and __eq__")
        for m in (bh, be):
            rets = m.cfg().find(is_return)
            uses = any(isinstance(c, ast.Call) and call_name(c) == "self.to_string"
                       for n in rets for c in ast.walk(n.ast) if n.ast.value is not None)
            r.site(m, None, "content based")
            r.require(uses or m is be, m, m.loc(), "_BaseURI.%s is not computed from self.to_string(): equal caps held by different "
                      "node objects no longer de-duplicate" % m.name)
        if be is not None:
            prm = first_positional_params(be)
            for n in be.cfg().find(is_return):
                v = n.ast.value
                if isinstance(v, ast.Compare) and len(v.ops) == 1:
                    r.require(isinstance(v.ops[0], ast.Eq), be, be.loc(n.ast), "__eq__ returns %s" % src(be, v))
            # a cap compared with another cap is never answered without looking at the two strings: any other answer
            # (False, None, NotImplemented) is confined to the paths on which the other object is known not to be a cap
            if not prm:
                raise AnchorVanished("_BaseURI.__eq__ takes no other object")
            OTHER = prm[0]
            ecfg, enorm = be.cfg(), FlowNorm(be)
            is_cap = {norm_src("isinstance(%s, _BaseURI)" % OTHER)}
            both = {norm_src("self.to_string()"), norm_src("%s.to_string()" % OTHER)}

            def content_cmp(n, v):
                if isinstance(v, ast.Name):
                    v = enorm.resolve(n, v)
                if isinstance(v, ast.Compare) and len(v.ops) == 1 and isinstance(v.ops[0], ast.Eq):
                    return {enorm.norm(n, v.left), enorm.norm(n, v.comparators[0])} == both
                if isinstance(v, ast.BoolOp) and isinstance(v.op, ast.And) and v.values:
                    # `isinstance(them, _BaseURI) and <content comparison>`
                    return content_cmp(n, v.values[-1]) and all(
                        isinstance(x, ast.Call) and call_tail(x) == "isinstance" for x in v.values[:-1])
                return False

            def etr(n, lab, nxt, st):
                if lab == "exc":
                    return None
                fact, returned = st
                if n.kind == "stmt" and OTHER in node_stores(n):
                    fact = 0
                if n.kind == "stmt" and isinstance(n.ast, ast.Return):
                    returned = 1
                f = enorm.edge_fact(n, lab)
                if f and f[0] in ("truth", "false") and f[1] in is_cap:
                    v = 1 if f[0] == "truth" else 2
                    if fact and fact != v:
                        return None
                    fact = v
                return (fact, returned)
            r.require(any(n.ast.value is not None and content_cmp(n, n.ast.value) for n in ecfg.find(is_return)), be, be.loc(),
                      "_BaseURI.__eq__ is not computed from self.to_string(): equal caps held by different node objects no "
                      "longer de-duplicate")
            evis, epar = explore(ecfg, (0, 0), etr)
            r.count(len(evis))
            for (nid, st) in sorted(evis):
                n = ecfg.nodes[nid]
                if st[0] == 2:
                    continue
                what = None
                if n.kind == "stmt" and isinstance(n.ast, ast.Return):
                    if not (n.ast.value is not None and content_cmp(n, n.ast.value)):
                        what = src(be, n.ast)
                elif n.kind == "exit" and not st[1]:
                    what = "None (falls off the end)"
                if what:
                    r.violation(be, be.loc(n.ast) if n.ast is not None else be.loc(), "_BaseURI.__eq__ answers '%s' for an "
                                "object that may be a cap without comparing the two to_string() values: equal verify caps "
                                "held by different node objects are no longer recognised in the found set" % what,
                                witness(ecfg, epar, (nid, st)))
                    break
        vclasses = {}
        for ci in um.classes.values():
            g = ci.methods.get("get_verify_cap")
            if g is None:
                continue
            for n in g.cfg().find(is_return):
                v = n.ast.value
                while isinstance(v, ast.Name) and v.id != "self":
                    ds = [x for x in func_own_nodes(g) if isinstance(x, ast.Assign)
                          and any(isinstance(t, ast.Name) and t.id == v.id for t in x.targets)]
                    if len(ds) != 1:
                        break
                    v = ds[0].value
                if isinstance(v, ast.Constant) and v.value is None:
                    continue
                if isinstance(v, ast.Name) and v.id == "self":
                    vclasses.setdefault(ci.name, ci)
                    for sub in idx.subclasses(ci):
                        if sub.lookup("get_verify_cap") is g:
                            vclasses.setdefault(sub.name, sub)
                elif isinstance(v, ast.Call) and isinstance(v.func, ast.Name) and v.func.id in um.classes:
                    vclasses.setdefault(v.func.id, um.classes[v.func.id])
                else:
                    r.violation(g, g.loc(n.ast), "get_verify_cap returns %s: class of the verifier not determined" % src(g, v))
        for name, ci in sorted(vclasses.items()):
            if not ci.is_subclass_of("_BaseURI"):
                continue
            r.site(ci.qual, None)
            h, e = ci.lookup("__hash__"), ci.lookup("__eq__")
            r.require(h is bh and e is be, ci.qual, "%s:%s" % (ci.module.relpath, ci.node.lineno),
                      "verifier class %s overrides %s: its instances are %s" % (
                          name, "__eq__" if e is not be else "__hash__",
                          "unhashable (found.add raises)" if (e is not be and h is bh and "__hash__" not in ci.methods)
                          else "no longer de-duplicated by content"))
            for c in ci.mro():
                if c is base:
                    break
                if "__eq__" in c.methods and "__hash__" not in c.methods:
                    r.violation(ci.qual, "%s:%s" % (c.module.relpath, c.node.lineno),
                                "%s defines __eq__ without __hash__: verifier %s becomes unhashable" % (c.name, name))
                if any(isinstance(x, ast.Constant) and x.value is None for x in c.attrs.get("__hash__", [])):
                    r.violation(ci.qual, "%s:%s" % (c.module.relpath, c.node.lineno), "%s sets __hash__ = None" % c.name)

    # -- 8. no child is skipped on a fact about other children ----------------------------------
    with ctx.rule("C21.8", "R1/R4", "_deep_traverse_dirnode_children: every normal return has run the loop over the whole "
                  "listing and drained both queues (unless the listing / the queue was seen empty); the listing reaches "
                  "the loop unfiltered; queued children are not removed again; the only decision taken from the found "
                  "set is 'this child's own verify cap in found' inside the loop", expected=5) as r:
        LISTING = ch_params[0]
        rd = fnorm.rd
        heads = {"listing": head}
        for kind in ("file", "dir"):
            lp = consumers[kind][0][0]
            hs = [n for n in ccfg.nodes if n.kind == "iter" and n.ast is lp]
            if not hs:
                raise AnchorVanished("loop over the queued %s children not in the CFG" % kind)
            heads[kind] = hs[0]
        QUEUE = {"file": FILEL, "dir": DIRL}
        CQUEUE = {"file": CON_FILEL, "dir": CON_DIRL}

        def empty_fact(f, name):
            """The edge fact says that the collection `name` is empty."""
            if not f:
                return False
            op, l, rr = f
            if op == "false" and l in (name, "len(%s)" % name):
                return True
            if op in ("==", "is", "<=") and {l, rr} == {"len(%s)" % name, "0"}:
                return op != "<=" or l == "len(%s)" % name
            if op == "<" and l == "len(%s)" % name and rr == "1":
                return True
            return False

        def grows(n, q):
            if any(_recv_is(c, q) and call_tail(c) in ("append", "insert", "extend") for c in node_calls(n)):
                return True
            return n.kind == "stmt" and isinstance(n.ast, ast.AugAssign) and isinstance(n.ast.target, ast.Name) \
                and n.ast.target.id == q

        # (a) state: listing walked, listing seen empty, per queue: drained / seen empty (since it last grew).  Run per
        # function: the classifying function owns the loop over the listing, the consuming function the two queues
        # (one and the same function in the callback-chain shape).
        def returns_complete(G, gcfg, gnorm, with_listing, with_queues, qf, qd):
            def tr(n, lab, nxt, st):
                if lab == "exc":
                    return None
                p1, e0, pf, ef, pd, ed = st
                if n.kind in ("stmt", "iter") and LISTING in node_stores(n):
                    e0 = False
                if grows(n, qf) or (n.kind in ("stmt", "iter") and qf in node_stores(n)):
                    ef = False
                if grows(n, qd) or (n.kind in ("stmt", "iter") and qd in node_stores(n)):
                    ed = False
                if with_listing and n is heads["listing"]:
                    if lab == "done":
                        p1 = True
                    else:
                        pf = pd = ef = ed = False         # something may be queued from here on
                if with_queues and n is heads["file"] and lab == "done":
                    pf = True
                if with_queues and n is heads["dir"] and lab == "done":
                    pd = True
                f = gnorm.edge_fact(n, lab)
                if with_listing and empty_fact(f, LISTING):
                    e0 = True
                if p1 and empty_fact(f, qf):
                    ef = True
                if p1 and empty_fact(f, qd):
                    ed = True
                return (p1, e0, pf, ef, pd, ed)
            visited, parent = explore(gcfg, (not with_listing, False, False, False, False, False), tr)
            r.count(len(visited))
            for (nid, st) in sorted(visited):
                if gcfg.nodes[nid].kind != "exit":
                    continue
                p1, e0, pf, ef, pd, ed = st
                msg = None
                if not p1:
                    if not e0:
                        msg = ("listing", "%s can return without looking at the children one by one "
                               "although the listing %s was not seen to be empty: a decision about all children at once (e.g. "
                               "'all already in %s', where LIT children count as None) keeps children from being reported" % (
                                   G.name, LISTING, FOUND))
                elif not with_queues:
                    pass
                elif not (pf or ef):
                    msg = ("file", "%s can return after the children were classified without "
                           "visiting the entries of %s: the queued file children are never reported" % (G.name, qf))
                elif not (pd or ed):
                    msg = ("dir", "%s can return after the children were classified without "
                           "visiting the entries of %s: the queued subdirectories are never traversed" % (G.name, qd))
                if msg and msg[0] not in said:
                    said.add(msg[0])
                    w = witness(gcfg, parent, (nid, st))
                    r.violation(G, G.loc(heads[msg[0]].ast), "%s (path: %s)" % (msg[1], w.brief()), w)
        for k in ("listing", "file", "dir"):
            r.site(CLS if k == "listing" else CON, heads[k].ast, "loop that every return must have completed (%s)" % k)
        said = set()
        if CON is CLS:
            returns_complete(CLS, cfg, fnorm, True, True, FILEL, DIRL)
        else:
            returns_complete(CLS, cfg, fnorm, True, False, FILEL, DIRL)
            returns_complete(CON, ccfg, cnorm, False, True, CON_FILEL, CON_DIRL)

        # (b) the listing reaches the loop as received: follow local copies of the iterable back to the parameter
        flagged, reached = [], []

        def filterish(x):
            if isinstance(x, (ast.ListComp, ast.SetComp, ast.GeneratorExp, ast.DictComp)):
                return any(g.ifs for g in x.generators)
            if isinstance(x, ast.Subscript):
                return isinstance(x.slice, ast.Slice)
            return isinstance(x, ast.Call) and call_tail(x) in ("filter", "islice", "filterfalse", "takewhile", "dropwhile")

        def expand(at, e, depth, seen):
            for x in own_nodes(e):
                if filterish(x):
                    flagged.append((at, x))
                if not (isinstance(x, ast.Name) and isinstance(x.ctx, ast.Load)):
                    continue
                ds = rd.get(at.id, {}).get(x.id)
                if not ds:
                    continue                              # a global / builtin
                if x.id == LISTING and set(ds) == {-1}:
                    reached.append(at)
                    continue
                for dnid in sorted(ds):
                    if dnid < 0 or (dnid, x.id) in seen or depth > 6:
                        continue
                    seen.add((dnid, x.id))
                    dn_ = cfg.nodes[dnid]
                    v = assign_value(dn_, x.id) if dn_.kind == "stmt" else None
                    if v is None:
                        if x.id == LISTING:
                            flagged.append((dn_, dn_.ast))
                        continue
                    expand(dn_, v, depth + 1, seen)
        expand(head, L1.iter, 0, set())
        r.site(CH, L1.iter, "iterable of the loop over the listing")
        for (at, x) in flagged[:1]:
            r.violation(CH, CH.loc(x), "the listing is filtered / re-bound (%s) before the per-child loop sees it: children "
                        "are dropped without the per-child test" % src(CH, x))
        r.require(bool(reached) or bool(flagged), CH, CH.loc(L1), "the loop over the children does not run over the listing "
                  "%s that was handed in" % LISTING)

        # (c) what was queued stays queued until its visit is registered
        def no_shortening(G, gcfg, start_ids, queues):
            after, work = set(start_ids), list(start_ids)
            while work:
                cur = work.pop()
                for (dnid, lab) in gcfg.succ[cur]:
                    if lab != "exc" and dnid not in after:
                        after.add(dnid)
                        work.append(dnid)
            for n in gcfg.nodes:
                if n.id not in after or n.id in start_ids:
                    continue
                for kind, q in queues.items():
                    dropped = None
                    if n.kind in ("stmt", "iter") and not grows(n, q) and (q in node_stores(n) or (
                            isinstance(n.ast, ast.Delete) and (q + "[]") in node_stores(n))):
                        dropped = n.ast if n.kind == "stmt" else n.ast.target
                    for c in node_calls(n):
                        if _recv_is(c, q) and call_tail(c) in ("pop", "remove", "clear", "__delitem__"):
                            dropped = c
                    if dropped is not None:
                        r.violation(G, G.loc(dropped), "%s is re-bound / shortened (%s) after children were queued in it: "
                                    "those children are never visited" % (q, src(G, dropped)))
        no_shortening(CLS, cfg, {head.id}, QUEUE)
        if CON is not CLS:
            got = _node_of_call(ccfg, CLS_CALL)
            if got is None:
                raise AnchorVanished("%s: the call of %s is not in the CFG" % (short(CON), CLS.name))
            no_shortening(CON, ccfg, {got.id}, CQUEUE)

        # (d) decisions taken from the found set
        n_dec = 0
        for n in cfg.nodes:
            if n.kind != "test" or n.ast is None:
                continue
            mentions = any(isinstance(x, ast.Name) and x.id == FOUND for x in own_nodes(n.ast, into_lambda=True))
            if not mentions and FOUND not in depends_on(CH, n.ast):
                continue
            n_dec += 1
            ok = False
            for (dnid, lab) in cfg.succ[n.id]:
                f = fnorm.edge_fact(n, lab)
                if f and f[0] in ("in", "not in") and f[1] == VER and f[2] == FOUND:
                    ok = True
            ok = ok and id(n.ast) in body_ids
            r.site(CH, n.ast, "decision taken from %s" % FOUND)
            r.require(ok, CH, CH.loc(n.ast), "the walk takes a decision from the %s set (%s) that is not the test of the "
                      "current child's own verify cap inside the per-child loop: %s also holds None (LIT children) and caps "
                      "of other children, so children can be skipped for what is known about others" % (
                          FOUND, src(CH, n.ast), FOUND))
        if not n_dec:
            raise AnchorVanished("%s takes no decision from %s" % (CLS.name, FOUND))
        if CON is not CLS:
            # names whose value is computed from the found set in the consuming function (the queues themselves come out
            # of the classification, whose use of the set is checked above)
            tainted, grew = {CON_FOUND}, True
            while grew:
                grew = False
                for x in func_own_nodes(CON):
                    v, tg = None, []
                    if isinstance(x, ast.Assign):
                        v, tg = x.value, x.targets
                    elif isinstance(x, (ast.AugAssign, ast.AnnAssign)) and x.value is not None:
                        v, tg = x.value, [x.target]
                    elif isinstance(x, (ast.For, ast.comprehension)):
                        v, tg = x.iter, [x.target]
                    if v is None or any(y is CLS_CALL for y in ast.walk(v)):
                        continue
                    if any(isinstance(y, ast.Name) and y.id in tainted for y in ast.walk(v)):
                        for t_ in tg:
                            for y in ast.walk(t_):
                                if isinstance(y, ast.Name) and y.id not in tainted:
                                    tainted.add(y.id)
                                    grew = True
            for n in ccfg.nodes:
                if n.kind == "test" and n.ast is not None and any(
                        isinstance(x, ast.Name) and x.id in tainted for x in own_nodes(n.ast, into_lambda=True)):
                    r.violation(CON, CON.loc(n.ast), "the walk takes a decision from the %s set (%s) outside the per-child "
                                "test of the current child's own verify cap" % (CON_FOUND, src(CON, n.ast)))


def _node_of_call(cfg, call, into_lambda=True):
    for n in cfg.nodes:
        for e in node_exprs(n):
            for x in own_nodes(e, into_lambda=into_lambda):
                if x is call:
                    return n
    return None
