"""C22 Immutable share storage semantics.

Decided: the conflicting-write comparison dominates the write, visibility only
through the rename in BucketWriter.close, abort/timeout/disconnect clean up on
every path, clipped reads, size guard (DESIGN.md section 5, C22)."""
from sa.h import *

EXPLANATION = (
    "Decided (structural, all paths): (1) BucketWriter.write reaches write_share_data(offset, data) only after the "
    "loop over _already_written.ranges(offset, offset+len(data)) finished, every iteration of which compared the "
    "stored chunk with the same slice of the new data (mismatch raises ConflictingWriteError); the written range is "
    "recorded afterwards on every normal path. (2) A path under sharedir/<si-dir> is created for immutables only by "
    "fileutil.rename(incominghome, finalhome) in BucketWriter.close: ShareFile(create=True) is built only on "
    "incominghome, BucketWriter only in allocate_buckets with incominghome under incomingdir, finalhome is never "
    "handed to another file effect, get_shares/get_buckets list only sharedir/storage_index_to_dir(si). (3) abort "
    "removes the incoming file and calls bucket_writer_closed(self, 0) on every non-closed path; disconnected and "
    "_abort_due_to_timeout reach abort; the timeout is armed in __init__ and cancelled only by close/abort; Foolscap "
    "registers bw.disconnected for every writer handed out; stopService disconnects every tracked writer. "
    "(4) read_share_data reads max(0, min(length, lease_offset - (data_offset+offset))) bytes at data_offset+offset; "
    "BucketReader.read passes its arguments through. (5) write_share_data raises DataTooLargeError unless "
    "offset+len(data) <= max_size before any byte is written, and writes the data parameter at data_offset+offset. "
    "Added after the mutation sweep: (3') an os.rmdir in abort/close that precedes bucket_writer_closed is guarded by an "
    "empty-listdir test of the same directory or protected by a handler for OSError (a sibling share in progress must "
    "not cut the clean-up short); the incoming directory is wiped (rm_dir(self.incomingdir), directly or through a "
    "helper method) on every path of StorageServer.__init__/startService, so uploads cut off by a crash leave nothing "
    "behind. (4') the read and (5') the write of share data are reached only over the edge 0 <= offset (a negative "
    "offset would address the 12-byte header); ShareFile._length (get_length, the clip of HTTP range reads) equals "
    "_lease_offset - 12. (6) BucketWriter.write returns normally only after self._sharefile.write_share_data, over "
    "the truth edge of self.throw_out_all_data, or for empty data; throw_out_all_data is False at construction and "
    "set otherwise only under the truth edge of StorageServer.no_storage, which is the discard_storage constructor "
    "argument with default False. (7) allocate_buckets constructs a BucketWriter only over the false edge of "
    "os.path.exists(finalhome) (a complete immutable share is never replaced by a later upload) and over the false "
    "edge of os.path.exists(incominghome) unless ShareFile.__init__ itself refuses to create over an existing file. "
    "(8) the same across helpers: every package function that abort / close call before bucket_writer_closed is followed "
    "(3 levels, name/MRO call resolution); an os.rmdir / os.removedirs reached there must sit in a try whose OSError handler can "
    "complete normally (in the helper or around the call), or behind an empty-listdir test of the same directory in the "
    "helper, or - for a helper method called on self - behind such a test in abort / close (directories compared as "
    "normal forms over self, os.path.split(X)[0] == os.path.dirname(X)). "
    "Undecided: RangeMap semantics, OS rename atomicity, the actual byte values; whether the 30-minute inactivity "
    "timer is re-armed by write (liveness of slow uploads); the return value of write/_is_finished (auto-close of "
    "HTTP uploads); exceptions raised by os.remove/os.listdir inside abort (environment); the admission arithmetic "
    "and the _bucket_writers bookkeeping (property C28); lease records written into the container (property C25); "
    "who passes discard_storage=True to the StorageServer constructor (node configuration).")
TECHNIQUE = ("static analysis: CFG path monitors with normalised edge facts, who-may-call / who-may-write sweeps, "
             "exception-escape summary of called helpers")

IMM = "storage.immutable"
SRV = "storage.server"
BW = IMM + ":BucketWriter"
SF = IMM + ":ShareFile"
SS = SRV + ":StorageServer"


def real_sites(sites):
    """Engine quirk: calls inside module-level functions are listed a second time under the
    '<module>' pseudo function; keep one CallSite per call node, preferring the real function."""
    best = {}
    for cs in sites:
        k = id(cs.call)
        if k not in best or best[k].fn.name == "<module>":
            best[k] = cs
    return list(best.values())


def node_of(fn, call):
    for n in fn.cfg().nodes:
        if any(c is call for c in node_calls(n)):
            return n
    raise AnalysisError("call not found in CFG of %s" % fn.qual)


def loop_target_names(for_node):
    t = for_node.target
    if isinstance(t, ast.Name):
        return [t.id]
    if isinstance(t, (ast.Tuple, ast.List)):
        return [e.id if isinstance(e, ast.Name) else None for e in t.elts]
    return []


_VIEW_CALLS = {"sorted", "reversed", "list", "tuple"}


def _view_base(e):
    """`e` denotes (a re-ordering of) a subsequence of a local list L: L, L[a:b], sorted(L), list(L) ... -> 'L'."""
    while True:
        if isinstance(e, ast.Name):
            return e.id
        if isinstance(e, ast.Subscript) and isinstance(e.slice, ast.Slice):
            e = e.value
            continue
        if isinstance(e, ast.Call) and isinstance(e.func, ast.Name) and e.func.id in _VIEW_CALLS and len(e.args) == 1 \
                and not any(isinstance(a_, ast.Starred) for a_ in e.args) and all(k.arg == "key" or k.arg == "reverse"
                                                                                  for k in e.keywords):
            e = e.args[0]
            continue
        return None


def _list_feeds(fn, lname):
    """Every use of the local name `lname` in fn, classified.  The list may only be born empty, grow by
    `L.append(X)` statements and be narrowed / re-ordered by `L = <view of L>` or `L = [x for x in <view of L> if c]`;
    it may be iterated, measured and tested.  Anything else (extend, +=, item stores, escapes into calls, nested
    functions, returns) makes its contents undecidable here -> AnalysisError.  Returns the append calls."""
    parent = {}
    for p in ast.walk(fn.node):
        for ch in ast.iter_child_nodes(p):
            parent[id(ch)] = p
    if lname in fn.params:
        raise AnalysisError("%s: the list %s is a parameter; cannot tell what it holds" % (short(fn), lname))
    appends = []

    def is_empty_list(v):
        return (isinstance(v, ast.List) and not v.elts) or \
            (isinstance(v, ast.Call) and isinstance(v.func, ast.Name) and v.func.id == "list" and not v.args and not v.keywords)

    def is_self_narrowing(v):
        if _view_base(v) == lname:
            return True
        if isinstance(v, ast.ListComp) and len(v.generators) == 1 and not v.generators[0].is_async:
            g = v.generators[0]
            return isinstance(g.target, ast.Name) and isinstance(v.elt, ast.Name) and v.elt.id == g.target.id \
                and _view_base(g.iter) == lname
        return False

    def top_of_view(x):
        # climb through slices / sorted() ... wrapped around the name
        while True:
            p = parent.get(id(x))
            if isinstance(p, ast.Subscript) and p.value is x and isinstance(p.slice, ast.Slice):
                x = p
            elif isinstance(p, ast.Call) and isinstance(p.func, ast.Name) and p.func.id in _VIEW_CALLS and len(p.args) == 1 \
                    and p.args[0] is x:
                x = p
            else:
                return x, p

    for x in ast.walk(fn.node):
        if not (isinstance(x, ast.Name) and x.id == lname):
            continue
        # inside a nested def / lambda: give up
        q = parent.get(id(x))
        while q is not None and q is not fn.node:
            if isinstance(q, (ast.FunctionDef, ast.AsyncFunctionDef, ast.Lambda, ast.ClassDef)):
                raise AnalysisError("%s: the list %s is used inside a nested function" % (short(fn), lname))
            q = parent.get(id(q))
        p = parent.get(id(x))
        if isinstance(x.ctx, ast.Store):
            if isinstance(p, ast.Assign) and len(p.targets) == 1 and p.targets[0] is x and \
                    (is_empty_list(p.value) or is_self_narrowing(p.value)):
                continue
            raise AnalysisError("%s: cannot follow what is stored into the list %s at line %s" % (
                short(fn), lname, getattr(x, "lineno", "?")))
        if not isinstance(x.ctx, ast.Load):
            raise AnalysisError("%s: the list %s is deleted" % (short(fn), lname))
        # L.append(X) as a statement
        if isinstance(p, ast.Attribute) and p.value is x:
            c = parent.get(id(p))
            if p.attr == "append" and isinstance(c, ast.Call) and c.func is p and len(c.args) == 1 and not c.keywords \
                    and not isinstance(c.args[0], ast.Starred) and isinstance(parent.get(id(c)), ast.Expr):
                appends.append(c)
                continue
            if p.attr in ("index", "count", "copy") and isinstance(c, ast.Call) and c.func is p:
                continue
            raise AnalysisError("%s: cannot follow %s.%s" % (short(fn), lname, p.attr))
        top, tp = top_of_view(x)
        if isinstance(tp, (ast.For, ast.AsyncFor)) and tp.iter is top:
            continue
        if isinstance(tp, ast.comprehension) and tp.iter is top:
            continue        # reading it in a comprehension (incl. the self-narrowing one)
        if isinstance(tp, ast.Assign) and tp.value is top and len(tp.targets) == 1 and isinstance(tp.targets[0], ast.Name) \
                and tp.targets[0].id == lname:
            continue
        if isinstance(tp, ast.Call) and isinstance(tp.func, ast.Name) and tp.func.id in ("len", "bool") and top in tp.args:
            continue
        if isinstance(tp, (ast.If, ast.While, ast.IfExp)) and tp.test is top:
            continue
        if isinstance(tp, ast.UnaryOp) and isinstance(tp.op, ast.Not):
            continue
        if isinstance(tp, ast.BoolOp):
            continue
        if isinstance(tp, ast.Compare) and all(isinstance(o, (ast.Eq, ast.NotEq, ast.Is, ast.IsNot)) for o in tp.ops):
            continue
        raise AnalysisError("%s: the list %s escapes at line %s; cannot tell what it holds" % (
            short(fn), lname, getattr(x, "lineno", "?")))
    return appends


def carried_sources(fn, node, exprs, depth=3):
    """Reaching definitions through `L.append((a, b, c))` + `for (x, y, z) in L`.

    For each expression of `exprs` (evaluated at CFG node `node`) that is a plain name bound only by the target of a
    for-loop over (a view of) a local list, step back to the element expression at the append statement.  Returns the
    alternatives [[(node_i, expr_i) for each expr], ...] - one alternative per combination of append statements
    (names unpacked by the same loop head step back to the same append).  Names not bound by a loop stay (node, expr).
    Shapes that cannot be followed raise AnalysisError (fail closed)."""
    cfg = fn.cfg()
    rd = C.reaching_defs(cfg)
    per = []
    for e in exprs:
        hit = None
        if isinstance(e, ast.Name):
            defs = rd.get(node.id, {}).get(e.id, frozenset())
            dn = [cfg.nodes[d] for d in defs if d != C.PARAM_DEF]
            heads = [d for d in dn if d.kind == "iter"]
            if heads and (len(heads) != len(defs)):
                raise AnalysisError("%s: %s is bound by a loop and by something else" % (short(fn), e.id))
            if heads:
                if len(heads) != 1:
                    raise AnalysisError("%s: %s is bound by several loops" % (short(fn), e.id))
                h = heads[0]
                tgt = h.ast.target
                if isinstance(tgt, ast.Name):
                    k = None
                elif isinstance(tgt, (ast.Tuple, ast.List)) and all(isinstance(t_, ast.Name) for t_ in tgt.elts):
                    k = [t_.id for t_ in tgt.elts].index(e.id)
                else:
                    raise AnalysisError("%s: cannot follow the loop target that binds %s" % (short(fn), e.id))
                lname = _view_base(h.ast.iter)
                if lname is not None and lname not in fn.params and lname in all_defs(fn):
                    apps = _list_feeds(fn, lname)
                    if not apps:
                        raise AnalysisError("%s: nothing is ever appended to %s" % (short(fn), lname))
                    srcs = []
                    for c in apps:
                        x = c.args[0]
                        if k is None:
                            el = x
                        elif isinstance(x, ast.Tuple) and len(x.elts) == len(tgt.elts) \
                                and not any(isinstance(y, ast.Starred) for y in x.elts):
                            el = x.elts[k]
                        else:
                            raise AnalysisError("%s: %s.append(%s) does not match the loop target" % (short(fn), lname, src(fn, x)))
                        srcs.append((node_of(fn, c), el))
                    hit = (h.id, srcs)
        per.append(hit)
    alts = [([], {})]
    for e, hit in zip(exprs, per):
        nxt = []
        for (pairs, chosen) in alts:
            if hit is None:
                nxt.append((pairs + [(node, e)], chosen))
                continue
            hid, srcs = hit
            if hid in chosen:
                nxt.append((pairs + [srcs[chosen[hid]]], chosen))
            else:
                for i, s in enumerate(srcs):
                    ch = dict(chosen)
                    ch[hid] = i
                    nxt.append((pairs + [s], ch))
        alts = nxt
    out = []
    for (pairs, _c) in alts:
        if depth > 0 and any(p[0] is not node for p in pairs):
            # an element may itself have been carried through an earlier list
            nodes_ = {id(p[0]) for p in pairs}
            if len(nodes_) == 1:
                for sub in carried_sources(fn, pairs[0][0], [p[1] for p in pairs], depth - 1):
                    out.append(sub)
                continue
        out.append(pairs)
    return out


def every_iteration_passes(cfg, head, gate_node):
    """Paths head -iter-> ... -> head (or normal exit) that do not pass a node satisfying gate_node."""
    bad = []

    def transfer(n, lab, nxt, st):
        if lab == "exc":
            return None
        if n is head:
            if st == 0:
                return 1 if lab == "iter" else None
            return None        # back at the head: stop
        if st == 1 and gate_node(n):
            return 2
        return st
    visited, parent = explore(cfg, 0, transfer, start=head)
    for (nid, st) in sorted(visited):
        n = cfg.nodes[nid]
        if st == 1 and (n is head or n.kind == "exit"):
            bad.append(witness(cfg, parent, (nid, st)))
    return bad


def _atom_defs(fn, atom):
    """An atom of a normal form is either an expression string or a local name that the
    normaliser refused to substitute (impure definition); give the normal forms of what it denotes."""
    if re.match(r"^[A-Za-z_]\w*$", atom):
        ds = all_defs(fn).get(atom) or []
        if ds and all(d is not None for d in ds):
            return [norm_plain(d) for d in ds]
        return []
    return [atom]


def _is_filesize(fn, atom):
    ds = _atom_defs(fn, atom)
    return bool(ds) and all(d in ("os.path.getsize(self.home)", "os.stat(self.home).st_size",
                                   "os.stat(self.home)[stat.ST_SIZE]") for d in ds)


def _is_header_count(fn, atom):
    ds = _atom_defs(fn, atom)
    return bool(ds) and all(re.match(r"^struct\.unpack\('>LLL', .*\)\[2\]$", d) for d in ds)


def _is_exit(n):
    return n.kind == "exit"


def stmt_node_of(fn, sub):
    """The CFG node whose statement contains the AST node `sub` (a store target, a call)."""
    for n in fn.cfg().nodes:
        if n.kind == "stmt" and isinstance(n.ast, (ast.Assign, ast.AugAssign, ast.AnnAssign, ast.Expr, ast.Delete)) \
                and any(x is sub for x in ast.walk(n.ast)):
            return n
    raise AnalysisError("AST node not found in a simple statement of %s" % fn.qual)


def param_default(fn, name):
    """Default expression of parameter `name` (None when it has none / is absent)."""
    a = fn.node.args
    pos = list(getattr(a, "posonlyargs", [])) + list(a.args)
    defaults = [None] * (len(pos) - len(a.defaults)) + list(a.defaults)
    for p, d in zip(pos, defaults):
        if p.arg == name:
            return d
    for p, d in zip(a.kwonlyargs, a.kw_defaults):
        if p.arg == name:
            return d
    return None


def is_const(e, value):
    return isinstance(e, ast.Constant) and e.value is value


_OSERR = {"OSError", "EnvironmentError", "IOError", "Exception", "BaseException"}


def exc_protected(cfg, n):
    """The statement at n sits in a try whose handler catches OSError (bare, OSError family, Exception)."""
    for (d, lab) in cfg.successors(n):
        if lab == "exc" and d.kind == "except":
            t = d.ast.type
            if t is None:
                return True
            elts = t.elts if isinstance(t, ast.Tuple) else [t]
            for e in elts:
                nm = e.id if isinstance(e, ast.Name) else (e.attr if isinstance(e, ast.Attribute) else None)
                if nm in _OSERR:
                    return True
    return False


# ------------------------------------------------ directory removal that fails on a non-empty directory
_RMDIR_TAILS = ("rmdir", "removedirs")


def _canon_path(form):
    """A normal form with os.path.split(X)[0] folded into os.path.dirname(X), so that the same directory spelled
    in two functions compares equal."""
    try:
        tree = ast.parse(form, mode="eval").body
    except (SyntaxError, ValueError):
        return form

    class Fold(ast.NodeTransformer):
        def visit_Subscript(self, x):
            self.generic_visit(x)
            if isinstance(x.value, ast.Call) and call_name(x.value) == "os.path.split" and len(x.value.args) == 1 \
                    and not x.value.keywords and isinstance(x.slice, ast.Constant) and x.slice.value == 0:
                return ast.Call(func=ast.parse("os.path.dirname", mode="eval").body, args=[x.value.args[0]], keywords=[])
            return x
    return ast.unparse(Fold().visit(tree))


def _self_only(form):
    """The normal form mentions no variable besides self (and modules reached through os)."""
    try:
        tree = ast.parse(form, mode="eval").body
    except (SyntaxError, ValueError):
        return False
    return {x.id for x in ast.walk(tree) if isinstance(x, ast.Name)} <= {"self", "os"}


def exc_swallowed(cfg, n):
    """exc_protected, and the handler that catches the OSError can complete normally (it does not re-raise on
    every path)."""
    for (d, lab) in cfg.successors(n):
        if lab != "exc" or d.kind != "except":
            continue
        t = d.ast.type
        elts = [] if t is None else (t.elts if isinstance(t, ast.Tuple) else [t])
        names = {e.id if isinstance(e, ast.Name) else (e.attr if isinstance(e, ast.Attribute) else None) for e in elts}
        if t is not None and not (names & _OSERR):
            continue
        vis, _par = explore(cfg, 0, lambda a_, l_, nx, s_: None if l_ == "exc" else 0, start=d)
        if any(cfg.nodes[i].kind == "exit" for (i, _s) in vis):
            return True
    return False


def _empty_dir_guarded(cfg, fnorm, n, canon_form):
    """Every path to n saw os.listdir(<the same directory>) falsy.  Returns the unguarded paths."""
    def gate(x, lab):
        f = fnorm.edge_fact(x, lab)
        if not f:
            return False
        op, l, rr = f
        if op == "false" and l and l.startswith("os.listdir("):
            return _canon_path(l) == "os.listdir(%s)" % canon_form
        if op == "==" and {l, rr} & {"0"} and any(v and v.startswith("len(os.listdir(") for v in (l, rr)):
            v = l if rr == "0" else rr
            return _canon_path(v) == "len(os.listdir(%s))" % canon_form
        return False
    return find_path_avoiding(cfg, lambda x: x is n, skip_exc_edges=True, gate_edge=gate)


def escaping_rmdirs(cg, fn, depth=0, seen=None):
    """[(fn', call, canonical form or None, chain)]: the os.rmdir-like calls that `fn` can reach (through package
    functions it calls, 3 levels deep) and whose 'directory not empty' OSError propagates out of `fn`: not inside a
    try that swallows OSError and not behind an empty-listdir test of the same directory in the function that makes
    the call.  `form` is the directory in terms of self (None when it depends on locals / parameters)."""
    seen = set() if seen is None else seen
    if fn.qual in seen or depth > 3:
        return []
    seen = seen | {fn.qual}
    cfg = fn.cfg()
    fnorm = FlowNorm(fn)
    out = []
    for n in cfg.nodes:
        if n.id not in cfg.reachable_nodes():
            continue
        for c in node_calls(n):
            if call_tail(c) in _RMDIR_TAILS and len(c.args) >= 1 and not cg.resolve(fn, c):
                if exc_swallowed(cfg, n):
                    continue
                form = _canon_path(fnorm.norm(n, c.args[0]))
                if not _empty_dir_guarded(cfg, fnorm, n, form):
                    continue
                out.append((fn, c, form if (_self_only(form) and fn.cls is not None) else None, [short(fn)]))
                continue
            for h in cg.resolve(fn, c):
                if h is fn or exc_swallowed(cfg, n):
                    continue
                same_self = isinstance(c.func, ast.Attribute) and attr_path(c.func.value) == "self" and h.cls is not None
                for (g, rc, form, chain) in escaping_rmdirs(cg, h, depth + 1, seen):
                    if form is not None and same_self and not _empty_dir_guarded(cfg, fnorm, n, form):
                        continue
                    out.append((g, rc, form if same_self else None, [short(fn)] + chain))
    return out


def reaches(cfg, src_node, pred):
    """Some non-exceptional path leads from src_node to a node satisfying pred."""
    vis, _par = explore(cfg, 0, lambda a_, l_, nx, s_: None if l_ == "exc" else 0, start=src_node)
    return any(cfg.nodes[i] is not src_node and pred(cfg.nodes[i]) for (i, _s) in vis)


def run(ctx: Context):
    idx = ctx.idx
    cg = get_callgraph(idx)

    # ---------------------------------------------------------------- 1. conflicting writes
    with ctx.rule("C22.1", "R1", "BucketWriter.write: write_share_data(offset, data) only after the overlap loop "
                  "compared every already-written chunk with the new bytes; the range is recorded afterwards",
                  expected=3) as r:
        fn = idx.func(BW + ".write")
        cfg = fn.cfg()
        fnorm = FlowNorm(fn)
        ps = first_positional_params(fn)
        if len(ps) < 2:
            raise AnchorVanished("BucketWriter.write(offset, data) signature changed")
        p_off, p_data = ps[0], ps[1]
        is_write = has_call("write_share_data")
        wn = cfg.find(is_write)
        if not wn:
            raise AnchorVanished("BucketWriter.write no longer calls write_share_data")
        end_norm = norm_src("%s + len(%s)" % (p_off, p_data))
        for n in wn:
            r.site(fn, n.ast, "write")
            c = calls_at(n, "write_share_data")[0]
            r.require(call_name(c) == "self._sharefile.write_share_data" and len(c.args) == 2
                      and fnorm.norm(n, c.args[0]) == p_off and fnorm.norm(n, c.args[1]) == p_data,
                      fn, fn.loc(c), "the share file is written with %s, not with the (offset, data) that were "
                      "checked for conflicts" % src(fn, c))

        # the overlap loop
        def is_overlap_head(n):
            if n.kind != "iter":
                return False
            it = n.ast.iter
            return isinstance(it, ast.Call) and call_name(it) == "self._already_written.ranges" and len(it.args) == 2 \
                and fnorm.norm(n, it.args[0]) == p_off and fnorm.norm(n, it.args[1]) == end_norm
        heads = cfg.find(is_overlap_head)
        r.require(bool(heads), fn, fn.loc(), "no loop over self._already_written.ranges(%s, %s) - overlapping writes "
                  "are not compared with the stored bytes" % (p_off, end_norm))
        for head in heads:
            r.site(fn, head.ast, "overlap loop")
            tn = loop_target_names(head.ast)
            if len(tn) < 2 or not tn[0] or not tn[1]:
                raise AnalysisError("overlap loop target is not (start, stop, value)")
            a, b = tn[0], tn[1]
            want_read = norm_src("self._sharefile.read_share_data(%s, %s - %s)" % (a, b, a))
            want_slice = norm_src("%s[%s - %s:%s - %s]" % (p_data, a, p_off, b, p_off))

            def eq_edge(n, lab):
                f = fnorm.edge_fact(n, lab)
                return bool(f) and f[0] == "==" and {f[1], f[2]} == {want_read, want_slice}

            # monitor: (loop finished, iteration still unverified)
            def transfer(n, lab, nxt, st):
                done, pending = st
                if n.kind in ("entry", "exit", "raise"):
                    return st
                if n is head:
                    if lab == "iter":
                        return (False, True)
                    if lab == "done":
                        return (not pending, pending)
                if eq_edge(n, lab):
                    pending = False
                return (done, pending)
            visited, parent = explore(cfg, (False, False), transfer)
            r.count(len(visited))
            flagged = set()
            for (nid, st) in sorted(visited):
                n = cfg.nodes[nid]
                if n is head and st[1] and ("h", nid) not in flagged:
                    # arrived back at the head with an unverified chunk
                    p = parent.get((nid, st))
                    if p is not None:
                        flagged.add(("h", nid))
                        r.violation(fn, fn.loc(head.ast), "an already-written chunk is passed over without comparing "
                                    "read_share_data(%s, %s-%s) with %s[%s-%s:%s-%s] (mismatch must raise "
                                    "ConflictingWriteError)" % (a, b, a, p_data, a, p_off, b, p_off),
                                    witness(cfg, parent, (nid, st)))
                if is_write(n) and not st[0] and ("w", nid) not in flagged:
                    flagged.add(("w", nid))
                    w = witness(cfg, parent, (nid, st))
                    r.violation(fn, fn.loc(n.ast), "write_share_data is reached without completing the conflict check "
                                "over the already-written ranges (path: %s)" % w.brief(), w)
        # the mismatch edge must not continue to the write: it leads only to the exceptional exit
        for head in heads:
            for n in cfg.nodes:
                for (d, lab) in cfg.succ[n.id]:
                    f = fnorm.edge_fact(n, lab)
                    if f and f[0] == "!=" and any("read_share_data(" in s for s in (f[1], f[2])):
                        vis, par = explore(cfg, 0, lambda a_, l_, nx, s_: 0 if (a_ is not n or l_ is lab) else None, start=n)
                        for (nid, _s) in sorted(vis):
                            m = cfg.nodes[nid]
                            if m is not n and (is_write(m) or m.kind == "exit" or m is head):
                                r.violation(fn, fn.loc(n.ast), "a chunk that differs from the stored bytes does not "
                                            "abort the write (reaches %r)" % m, witness(cfg, par, (nid, 0)))
                                break

        # record the range afterwards
        def is_record(n):
            for c in calls_at(n, "set"):
                if call_name(c) == "self._already_written.set" and len(c.args) == 3 \
                        and fnorm.norm(n, c.args[1]) == p_off and fnorm.norm(n, c.args[2]) == end_norm:
                    return True
            return False
        recs = cfg.find(is_record)
        for n in recs:
            r.site(fn, n.ast, "record")
        r.require(bool(recs), fn, fn.loc(), "the written range (%s, %s) is never recorded in _already_written - "
                  "later conflicting writes go undetected" % (p_off, end_norm))
        for (s, w) in find_path_from_to_avoiding(cfg, is_write, is_record):
            r.violation(fn, fn.loc(s.ast), "a completed write is not recorded in _already_written on the path %s" % w.brief(), w)
        for (n, w) in find_path_avoiding(cfg, is_record, gate_node=is_write):
            r.violation(fn, fn.loc(n.ast), "the range is recorded as written before the bytes are stored", w)
        # throw-away mode aside, nothing else in the class writes share data
        for m in idx.cls(BW).methods.values():
            if m.name == "write":
                continue
            for c in calls_in_func(m, "write_share_data"):
                r.violation(m, m.loc(c), "%s writes share data without the conflict check" % short(m))

    # ---------------------------------------------------------------- 2. visibility
    with ctx.rule("C22.2", "R4", "an immutable share appears under sharedir only by rename(incominghome, finalhome) in "
                  "BucketWriter.close; readers list only sharedir/storage_index_to_dir(si)", expected=5) as r:
        # (i) ShareFile(create=...) only on incominghome in BucketWriter.__init__
        init = idx.func(BW + ".__init__")
        iparams = first_positional_params(init)
        n_create = 0
        for cs in real_sites(cg.calls_named("ShareFile")):
            c = cs.call
            cr = kwarg(c, "create")
            if cr is None and len(c.args) >= 3:
                cr = c.args[2]
            if cr is None or (isinstance(cr, ast.Constant) and cr.value is False):
                if any(k.arg is None for k in c.keywords) or any(isinstance(a_, ast.Starred) for a_ in c.args):
                    r.violation(cs.fn, cs.loc, "ShareFile(...) with opaque arguments in %s" % short(cs.fn))
                continue
            n_create += 1
            r.site(cs.fn, c, "ShareFile(create)")
            ok = cs.fn is init and len(c.args) >= 1 and isinstance(c.args[0], ast.Name) and c.args[0].id == "incominghome" \
                and "incominghome" in iparams
            r.require(ok, cs.fn, cs.loc, "a share container is created at %s in %s; only BucketWriter.__init__ may "
                      "create one, and only at incominghome" % (src(cs.fn, c.args[0]) if c.args else "?", short(cs.fn)))
        if n_create == 0:
            raise AnchorVanished("no ShareFile(create=True) construction found")
        for nd_attr, p in (("incominghome", "incominghome"), ("finalhome", "finalhome")):
            vals = [v for n in init.cfg().nodes for v in [assign_value(n, "self." + nd_attr)] if v is not None]
            if not vals:
                raise AnchorVanished("BucketWriter.__init__ no longer stores self.%s" % nd_attr)
            for v in vals:
                r.require(isinstance(v, ast.Name) and v.id == p, init, init.loc(v),
                          "self.%s is bound to %s" % (nd_attr, src(init, v)))
        for attr in ("incominghome", "finalhome"):
            for (f, nd) in cg.attr_stores(attr):
                if f is not init:
                    r.violation(f, f.loc(nd), "%s re-binds .%s of a bucket writer" % (short(f), attr))

        # (ii) BucketWriter only in allocate_buckets; incominghome under incomingdir, finalhome under sharedir
        alloc = idx.func(SS + ".allocate_buckets")
        anorm = FlowNorm(alloc)
        n_bw = 0
        for cs in real_sites(cg.calls_named("BucketWriter")):
            n_bw += 1
            r.site(cs.fn, cs.call, "BucketWriter(...)")
            if cs.fn is not alloc:
                r.violation(cs.fn, cs.loc, "%s constructs a BucketWriter outside StorageServer.allocate_buckets" % short(cs.fn))
                continue
            node = node_of(alloc, cs.call)
            inc = arg(cs.call, 1, "incominghome")
            fin = arg(cs.call, 2, "finalhome")
            if inc is None or fin is None:
                raise AnalysisError("BucketWriter(...) call shape changed")
            sp = first_positional_params(alloc)[0]
            sidir = norm_src("storage_index_to_dir(%s)" % sp)
            # the paths may have been computed in an earlier loop and carried here through a list of tuples
            for ((inode, inc_x), (fnode, fin_x)) in carried_sources(alloc, node, [inc, fin]):
                inc_e, fin_e = anorm.resolve(inode, inc_x), anorm.resolve(fnode, fin_x)

                def join_parts(e, at):
                    if isinstance(e, ast.Call) and call_name(e) == "os.path.join" and e.args:
                        return [anorm.norm(at, x) for x in e.args]
                    return None
                ip, fp = join_parts(inc_e, inode), join_parts(fin_e, fnode)
                r.require(ip is not None and ip[0] == "self.incomingdir" and len(ip) == 3 and ip[1] == sidir, alloc, cs.loc,
                          "the in-progress share is created at %s, not under self.incomingdir/<si-dir> - readers could "
                          "see it before close" % src(alloc, inc_e))
                r.require(fp is not None and fp[0] == "self.sharedir" and len(fp) == 3 and fp[1] == sidir, alloc, cs.loc,
                          "finalhome is %s, not self.sharedir/<si-dir>/<shnum>" % src(alloc, fin_e))
                r.require(ip is not None and fp is not None and ip[1:] == fp[1:], alloc, cs.loc,
                          "incoming and final paths name different shares (%s vs %s)" % (src(alloc, inc_e), src(alloc, fin_e)))
        if n_bw == 0:
            raise AnchorVanished("no BucketWriter construction found")
        # incomingdir is sharedir/'incoming'
        sinit = idx.func(SS + ".__init__")
        snorm = FlowNorm(sinit)
        ivals = [(n, v) for n in sinit.cfg().nodes for v in [assign_value(n, "self.incomingdir")] if v is not None]
        if not ivals:
            raise AnchorVanished("StorageServer.__init__ no longer sets self.incomingdir")
        for (n, v) in ivals:
            r.require(snorm.norm(n, v) == norm_src("os.path.join(os.path.join(%s, 'shares'), 'incoming')"
                                                   % first_positional_params(sinit)[0]),
                      sinit, sinit.loc(v), "incomingdir is %s, not <storedir>/shares/incoming" % src(sinit, v))

        # (iii) the rename in close; finalhome reaches no other file effect
        close = idx.func(BW + ".close")
        rn = [c for c in calls_in_func(close, "rename")]
        if not rn:
            raise AnchorVanished("BucketWriter.close no longer renames the share into place")
        for c in rn:
            r.site(close, c, "rename")
            r.require(call_name(c) in ("fileutil.rename", "os.rename") and len(c.args) >= 2
                      and attr_path(c.args[0]) == "self.incominghome" and attr_path(c.args[1]) == "self.finalhome",
                      close, close.loc(c), "close publishes with %s, not rename(self.incominghome, self.finalhome)" % src(close, c))
        pure = {"dirname", "stat", "exists", "basename", "split", "getsize", "msg", "format"}
        for m in idx.cls(BW).methods.values():
            for c in calls_in_func(m):
                uses_final = any(attr_path(x) == "self.finalhome" for a_ in list(c.args) + [k.value for k in c.keywords]
                                 for x in own_nodes(a_, into_lambda=True) if isinstance(x, ast.Attribute))
                if not uses_final:
                    continue
                t = call_tail(c)
                if t in pure:
                    continue
                if t == "make_dirs" and len(c.args) == 1 and isinstance(c.args[0], ast.Call) and call_tail(c.args[0]) == "dirname":
                    continue
                if t == "rename" and m is close and c in rn:
                    continue
                r.violation(m, m.loc(c), "%s passes the final share path to %s - the share could become visible other "
                            "than by the rename in close" % (short(m), src(m, c)))
        # ShareFile never learns the final path
        for c in calls_in_func(init, "ShareFile"):
            for x in own_nodes(c, into_lambda=True):
                if isinstance(x, ast.Name) and x.id == "finalhome":
                    r.violation(init, init.loc(c), "the share container is opened on finalhome")

        # (iv) readers list only sharedir/<si-dir>
        gs = idx.func(SS + ".get_shares")
        gnorm = FlowNorm(gs)
        gp = first_positional_params(gs)[0]
        want_dir = norm_src("os.path.join(self.sharedir, storage_index_to_dir(%s))" % gp)
        lds = [n for n in gs.cfg().nodes if calls_at(n, "listdir")]
        if not lds:
            raise AnchorVanished("get_shares no longer lists a directory")
        for n in lds:
            for c in calls_at(n, "listdir"):
                r.site(gs, c, "listdir")
                r.require(len(c.args) == 1 and gnorm.norm(n, c.args[0]) == want_dir, gs, gs.loc(c),
                          "get_shares lists %s, not sharedir/storage_index_to_dir(%s)" % (src(gs, c.args[0]) if c.args else "?", gp))
        n_y = 0
        for n in gs.cfg().nodes:
            for x in node_exprs(n):
                for y in own_nodes(x):
                    if isinstance(y, ast.Yield):
                        n_y += 1
                        v = y.value
                        ok = isinstance(v, ast.Tuple) and len(v.elts) == 2
                        if ok:
                            pth = gnorm.resolve(n, v.elts[1])
                            ok = isinstance(pth, ast.Call) and call_name(pth) == "os.path.join" and len(pth.args) == 2 \
                                and gnorm.norm(n, pth.args[0]) == want_dir
                        r.require(ok, gs, gs.loc(y), "get_shares yields %s, which is not a file of sharedir/<si-dir>" % src(gs, v))
        if n_y == 0:
            raise AnchorVanished("get_shares no longer yields (shnum, path)")
        gb = idx.func(SS + ".get_buckets")
        bnorm = FlowNorm(gb)
        bp = first_positional_params(gb)[0]
        n_rd = 0
        for cs in real_sites(cg.calls_named("BucketReader")):
            n_rd += 1
            r.site(cs.fn, cs.call, "BucketReader(...)")
            if cs.fn is not gb:
                r.violation(cs.fn, cs.loc, "%s opens a BucketReader outside get_buckets" % short(cs.fn))
                continue
            fa = arg(cs.call, 1, "sharefname")
            heads = [n for n in gb.cfg().nodes if n.kind == "iter"
                     and bnorm.norm(n, n.ast.iter) == "self.get_shares(%s)" % bp]
            ok = False
            for h in heads:
                tn = loop_target_names(h.ast)
                if len(tn) == 2 and isinstance(fa, ast.Name) and fa.id == tn[1]:
                    ok = True
            r.require(ok, gb, cs.loc, "BucketReader is opened on %s, which does not come from get_shares(%s)" % (
                src(gb, fa), bp))
        if n_rd == 0:
            raise AnchorVanished("no BucketReader construction found")

    # ---------------------------------------------------------------- 3. abort / timeout / disconnect
    with ctx.rule("C22.3", "R2", "abort removes the incoming file and releases the reservation on every non-closed "
                  "path; timeout, disconnect and service stop reach abort; directory tidying cannot cut the clean-up short; "
                  "the incoming area is wiped at server start", expected=8) as r:
        ab = idx.func(BW + ".abort")
        cfg = ab.cfg()
        anorm2 = FlowNorm(ab)

        def closed_edge(n, lab):
            return anorm2.edge_fact(n, lab) == ("truth", "self.closed", None)

        def removes(n):
            for c in node_calls(n):
                if call_name(c) in ("os.remove", "os.unlink", "fileutil.remove") and len(c.args) >= 1 \
                        and attr_path(c.args[0]) == "self.incominghome":
                    return True
            return False

        def releases(n):
            for c in calls_at(n, "bucket_writer_closed"):
                if call_name(c) == "self.ss.bucket_writer_closed" and len(c.args) == 2 \
                        and isinstance(c.args[0], ast.Name) and c.args[0].id == "self" \
                        and isinstance(c.args[1], ast.Constant) and c.args[1].value == 0:
                    return True
            return False
        for (what, pred, msg) in (("remove", removes, "without removing the incoming share file"),
                                  ("release", releases, "without bucket_writer_closed(self, 0) - the space reservation is kept")):
            found = cfg.find(pred)
            r.require(bool(found), ab, ab.loc(), "abort never does the %s step" % what)
            for n in found:
                r.site(ab, n.ast, what)
            for (n, w) in find_path_avoiding(cfg, lambda n: n.kind == "exit", gate_node=pred, gate_edge=closed_edge):
                r.violation(ab, ab.loc(), "abort of an open writer can return %s (path: %s)" % (msg, w.brief()), w)
        r.count(len(cfg.nodes))

        def calls_self_abort(n):
            return any(call_name(c) == "self.abort" for c in node_calls(n))
        dis = idx.func(BW + ".disconnected")
        dnorm = FlowNorm(dis)
        r.site(dis, None, "disconnected")
        for (n, w) in find_path_avoiding(dis.cfg(), lambda n: n.kind == "exit", gate_node=calls_self_abort,
                                         gate_edge=lambda n, lab: dnorm.edge_fact(n, lab) == ("truth", "self.closed", None)):
            r.violation(dis, dis.loc(), "disconnected() can return without aborting an open upload", w)
        to = idx.func(BW + "._abort_due_to_timeout")
        r.site(to, None, "timeout")
        for (n, w) in find_path_avoiding(to.cfg(), lambda n: n.kind == "exit", gate_node=calls_self_abort):
            r.violation(to, to.loc(), "the upload timeout fires without aborting the upload", w)
        # the timeout is armed in __init__ with _abort_due_to_timeout
        init = idx.func(BW + ".__init__")

        def arms(n):
            for c in calls_at(n, "callLater"):
                if len(c.args) >= 2 and attr_path(c.args[1]) == "self._abort_due_to_timeout":
                    return True
            return False
        armed = init.cfg().find(arms)
        r.require(bool(armed), init, init.loc(), "no callLater(.., self._abort_due_to_timeout): abandoned uploads are never discarded")
        for n in armed:
            r.site(init, n.ast, "timeout armed")
            r.require(assign_value(n, "self._timeout") is not None, init, init.loc(n.ast),
                      "the delayed call is not kept in self._timeout")
        for (n, w) in find_path_avoiding(init.cfg(), lambda n: n.kind == "exit", gate_node=arms):
            r.violation(init, init.loc(), "a BucketWriter can be constructed without arming the abort timeout", w)
        # only close/abort cancel it
        for m in idx.cls(BW).methods.values():
            for c in calls_in_func(m, "cancel"):
                if call_name(c) == "self._timeout.cancel" and m.name not in ("close", "abort"):
                    r.violation(m, m.loc(c), "%s cancels the upload timeout while the upload stays open" % short(m))

        # Foolscap: every writer handed out gets bw.disconnected registered
        ra = idx.func(SRV + ":FoolscapStorageServer.remote_allocate_buckets")
        rcfg = ra.cfg()
        rnorm = FlowNorm(ra)
        pat = re.compile(r"^self\._server\.allocate_buckets\(.*\)\[1\]\.(values|items)\(\)$")
        heads = [n for n in rcfg.nodes if n.kind == "iter" and pat.match(rnorm.norm(n, n.ast.iter))]
        r.require(bool(heads), ra, ra.loc(), "remote_allocate_buckets does not walk the writers returned by allocate_buckets")
        for h in heads:
            r.site(ra, h.ast, "foolscap loop")
            tn = loop_target_names(h.ast)
            var = tn[-1] if tn else None

            def registers(n, _v=var):
                for c in calls_at(n, "notifyOnDisconnect"):
                    a0 = arg(c, 0)
                    if isinstance(a0, ast.Attribute) and a0.attr in ("disconnected", "abort") \
                            and isinstance(a0.value, ast.Name) and a0.value.id == _v:
                        return True
                return False
            for w in every_iteration_passes(rcfg, h, registers):
                r.violation(ra, ra.loc(h.ast), "a BucketWriter is handed to a Foolscap client without "
                            "notifyOnDisconnect(bw.disconnected)", w)

            def loop_done(n, lab, _h=h):
                return n is _h and lab == "done"
            for (n, w) in find_path_avoiding(rcfg, is_return, gate_edge=loop_done):
                r.violation(ra, ra.loc(n.ast), "remote_allocate_buckets can return writers without the disconnect registration", w)

        # stopService
        st = idx.func(SS + ".stopService")
        scfg = st.cfg()
        snorm2 = FlowNorm(st)
        pat2 = re.compile(r"^(list\()?self\._bucket_writers\.values\(\)\)?$")
        heads = [n for n in scfg.nodes if n.kind == "iter" and pat2.match(snorm2.norm(n, n.ast.iter))]
        r.require(bool(heads), st, st.loc(), "stopService does not walk self._bucket_writers")
        for h in heads:
            r.site(st, h.ast, "stopService loop")
            tn = loop_target_names(h.ast)
            var = tn[-1] if tn else None

            def disc(n, _v=var):
                return any(call_name(c) in ("%s.disconnected" % _v, "%s.abort" % _v) for c in node_calls(n))
            for w in every_iteration_passes(scfg, h, disc):
                r.violation(st, st.loc(h.ast), "stopService leaves an in-progress upload in place", w)
            for (n, w) in find_path_avoiding(scfg, is_return, gate_edge=lambda n, lab, _h=h: n is _h and lab == "done"):
                r.violation(st, st.loc(n.ast), "stopService can return without cancelling in-progress uploads", w)

        # directory tidying must not be able to abort the clean-up: an os.rmdir that precedes the release
        # (bucket_writer_closed) raises OSError on a non-empty directory - i.e. whenever a sibling share of the
        # same storage index is still in progress - unless it is guarded by an empty-listdir test of the same
        # directory or sits in a try that catches OSError.
        def any_release(n):
            return any(call_name(c) == "self.ss.bucket_writer_closed" for c in node_calls(n))
        for m in (ab, idx.func(BW + ".close")):
            mcfg = m.cfg()
            mnorm = FlowNorm(m)
            for n in mcfg.nodes:
                for c in node_calls(n):
                    if call_name(c) != "os.rmdir" or len(c.args) != 1:
                        continue
                    r.count(1)
                    if not reaches(mcfg, n, any_release) or exc_protected(mcfg, n):
                        continue
                    want = "os.listdir(%s)" % mnorm.norm(n, c.args[0])
                    bad = find_path_avoiding(mcfg, lambda x, _n=n: x is _n, skip_exc_edges=True,
                                             gate_edge=lambda x, lab, _w=want: mnorm.edge_fact(x, lab) == ("false", _w, None))
                    for (t, w) in bad:
                        r.violation(m, m.loc(c), "%s removes %s without checking that it is empty and outside a try: with a "
                                    "sibling share still in progress the OSError escapes before bucket_writer_closed - "
                                    "the reservation is kept and the writer never becomes closed" % (short(m), src(m, c.args[0])), w)

        # uploads cut off by a server crash: the incoming area is wiped when the server object is created/started
        ss_cls = idx.cls(SS)
        sinit2 = idx.func(SS + ".__init__")
        inc_vals = set()
        for n in sinit2.cfg().nodes:
            v = assign_value(n, "self.incomingdir")
            if v is not None:
                inc_vals.add(FlowNorm(sinit2).norm(n, v))

        def wipes_in(m):
            mn = FlowNorm(m)

            def p(n):
                for c in node_calls(n):
                    if call_tail(c) in ("rm_dir", "rmtree") and c.args and (
                            attr_path(c.args[0]) == "self.incomingdir" or mn.norm(n, c.args[0]) in inc_vals):
                        return True
                return False
            return p
        helpers = set()
        for m in ss_cls.methods.values():
            if m.name in ("__init__", "startService"):
                continue
            if calls_in_func(m, "rm_dir") or calls_in_func(m, "rmtree"):
                p = wipes_in(m)
                if m.cfg().find(p) and not find_path_avoiding(m.cfg(), _is_exit, gate_node=p, skip_exc_edges=True):
                    helpers.add("self." + m.name)
        starters = [m for m in (ss_cls.methods.get("__init__"), ss_cls.methods.get("startService")) if m is not None]
        cleaned = False
        for m in starters:
            p = wipes_in(m)

            def cleans(n, _p=p):
                return _p(n) or any(call_name(c) in helpers for c in node_calls(n))
            if m.cfg().find(cleans) and not find_path_avoiding(m.cfg(), _is_exit, gate_node=cleans, skip_exc_edges=True):
                cleaned = True
                r.site(m, None, "incoming wiped at start")
        r.require(cleaned, sinit2, sinit2.loc(), "the incoming directory is not wiped when the storage server is created: "
                  "partial shares of uploads cut off by a crash stay behind for ever and block re-upload of those shares")

    # ---------------------------------------------------------------- 4. clipped read
    with ctx.rule("C22.4", "R5", "read_share_data reads max(0, min(length, lease_offset - (data_offset+offset))) bytes "
                  "at data_offset+offset, only for offset >= 0; BucketReader.read passes (offset, length) through; "
                  "_length is the size of the data region", expected=5) as r:
        rd = idx.func(SF + ".read_share_data")
        rcfg = rd.cfg()
        rn_ = FlowNorm(rd)
        ps = first_positional_params(rd)
        if len(ps) < 2:
            raise AnchorVanished("read_share_data(offset, length) signature changed")
        o, ln = ps[0], ps[1]
        want_len = norm_src("max(0, min(%s, self._lease_offset - (self._data_offset + %s)))" % (ln, o))
        want_pos = norm_src("self._data_offset + %s" % o)
        reads = [(n, c) for n in rcfg.nodes for c in calls_at(n, "read")]
        if not reads:
            raise AnchorVanished("read_share_data no longer reads the file")
        for (n, c) in reads:
            r.site(rd, c, "read")
            got = rn_.norm(n, c.args[0]) if c.args else "<unbounded>"
            r.require(got == want_len, rd, rd.loc(c), "reads %s bytes; the clipped length is %s - bytes of the lease "
                      "area (or none) would be returned" % (got, want_len))

            def seeks(m):
                return any(len(cc.args) == 1 and rn_.norm(m, cc.args[0]) == want_pos for cc in calls_at(m, "seek"))
            for (t, w) in find_path_avoiding(rcfg, lambda x, _n=n: x is _n, gate_node=seeks):
                r.violation(rd, rd.loc(c), "the read is not positioned at data_offset+offset", w)
            # a negative offset would position the read inside the 12-byte header
            for (t, w) in find_path_avoiding(rcfg, lambda x, _n=n: x is _n, skip_exc_edges=True,
                                             gate_edge=lambda m, lab: rn_.edge_fact(m, lab) == ("<=", "0", o)):
                r.violation(rd, rd.loc(c), "share data is read without the %s >= 0 check: a negative offset returns "
                            "container header bytes instead of share data" % o, w)
        for n in rcfg.find(is_return):
            v = n.ast.value
            if v is None:
                r.violation(rd, rd.loc(n.ast), "read_share_data returns None")
                continue
            rv = rn_.resolve(n, v)
            if isinstance(rv, ast.Constant):
                r.require(rv.value == b"", rd, rd.loc(n.ast), "returns the constant %r" % (rv.value,))
                # empty result only when the clipped length is zero
                bad = find_path_avoiding(rcfg, lambda x, _n=n: x is _n,
                                         gate_edge=lambda m, lab: rn_.edge_fact(m, lab) in (
                                             ("==", "0", want_len), ("<=", want_len, "0"), ("false", want_len, None)))
                for (t, w) in bad:
                    r.violation(rd, rd.loc(n.ast), "returns no data although the clipped length may be positive", w)
        # BucketReader.read
        br = idx.func(IMM + ":BucketReader.read")
        bn = FlowNorm(br)
        bps = first_positional_params(br)
        got_any = False
        for n in br.cfg().find(is_return):
            got_any = True
            r.site(br, n.ast, "BucketReader.read")
            v = bn.resolve(n, n.ast.value) if n.ast.value is not None else None
            ok = isinstance(v, ast.Call) and call_name(v) == "self._share_file.read_share_data" and len(v.args) == 2 \
                and [attr_path(x) for x in v.args] == bps[:2]
            r.require(ok, br, br.loc(n.ast), "BucketReader.read returns %s, not read_share_data(%s)" % (
                src(br, v), ", ".join(bps[:2])))
        if not got_any:
            raise AnchorVanished("BucketReader.read has no return")
        # bounds used by the clip
        ini = idx.func(SF + ".__init__")
        inorm = FlowNorm(ini)
        mp = "max_size"
        n_lo = 0
        for n in ini.cfg().nodes:
            v = assign_value(n, "self._lease_offset")
            if v is None:
                continue
            n_lo += 1
            r.site(ini, n.ast, "_lease_offset")
            p = inorm.at(n).poly(v)
            if p == N().poly(parse_expr("%s + 12" % mp)):
                continue
            # reopen: file size - count * LEASE_SIZE, count = third header field
            terms = p.t
            ok = len(terms) == 2
            if ok:
                pos = [k for k, c in terms.items() if c == 1 and len(k) == 1]
                neg = [k for k, c in terms.items() if c == -1 and len(k) == 2 and "self.LEASE_SIZE" in k]
                ok = len(pos) == 1 and len(neg) == 1 and _is_filesize(ini, pos[0][0]) \
                    and any(_is_header_count(ini, a_) for a_ in neg[0] if a_ != "self.LEASE_SIZE")
            r.require(ok, ini, ini.loc(n.ast), "the end of the data region is computed as %s (expected max_size+0xc on "
                      "creation, filesize - num_leases*LEASE_SIZE on open)" % p)
        if n_lo < 2:
            raise AnchorVanished("ShareFile.__init__ no longer sets _lease_offset on both branches")
        # get_length() (= self._length) clips HTTP range reads: it must be the size of the data region,
        # _lease_offset - 12, computed from the same file size / lease count
        open_polys = [inorm.at(n).poly(v) for n in ini.cfg().nodes for v in [assign_value(n, "self._lease_offset")]
                      if v is not None]
        open_polys.append(N().poly(parse_expr("self._lease_offset")))
        n_len = 0
        for n in ini.cfg().nodes:
            v = assign_value(n, "self._length")
            if v is None:
                continue
            n_len += 1
            r.site(ini, n.ast, "_length")
            q = inorm.at(n).poly(ast.BinOp(left=v, op=ast.Add(), right=ast.Constant(value=12)))
            r.require(any(q == p_ for p_ in open_polys), ini, ini.loc(n.ast), "the share length reported to readers is %s, "
                      "not the size of the data region (end of data - 12-byte header): range reads are clipped at the "
                      "wrong place" % src(ini, v))
        if n_len == 0:
            raise AnchorVanished("ShareFile.__init__ no longer sets _length")
        dvals = [(n, v) for n in ini.cfg().nodes for v in [assign_value(n, "self._data_offset")] if v is not None]
        if not dvals:
            raise AnchorVanished("ShareFile.__init__ no longer sets _data_offset")
        for (n, v) in dvals:
            r.require(inorm.norm(n, v) == "12", ini, ini.loc(v), "data offset is %s, not the 12-byte header" % src(ini, v))

    # ---------------------------------------------------------------- 5. size guard and placement of writes
    with ctx.rule("C22.5", "R1", "write_share_data: DataTooLargeError unless offset+len(data) <= max_size before the "
                  "write; data is written at data_offset+offset", expected=1) as r:
        wr = idx.func(SF + ".write_share_data")
        wcfg = wr.cfg()
        wn_ = FlowNorm(wr)
        ps = first_positional_params(wr)
        if len(ps) < 2:
            raise AnchorVanished("write_share_data(offset, data) signature changed")
        o, d = ps[0], ps[1]
        fits = N().poly(parse_expr("self._max_size - (%s + len(%s))" % (o, d)))
        want_pos = norm_src("self._data_offset + %s" % o)

        def guard(n, lab):
            f = wn_.edge_fact(n, lab)
            if not f:
                return False
            if f == ("is", "None", "self._max_size"):
                return True
            return f[0] == "<=" and f[1] == "0" and f[2] == str(fits)
        writes = [(n, c) for n in wcfg.nodes for c in calls_at(n, "write")]
        if not writes:
            raise AnchorVanished("write_share_data no longer writes")
        for (n, c) in writes:
            r.site(wr, c)
            r.require(len(c.args) == 1 and wn_.norm(n, c.args[0]) == d, wr, wr.loc(c),
                      "writes %s instead of the data parameter" % src(wr, c))
            for (t, w) in find_path_avoiding(wcfg, lambda x, _n=n: x is _n, gate_edge=guard):
                r.violation(wr, wr.loc(c), "share data can be written beyond the allocated size: no "
                            "offset+len(data) <= max_size guard on the path %s" % w.brief(), w)

            def seeks(m):
                return any(len(cc.args) == 1 and wn_.norm(m, cc.args[0]) == want_pos for cc in calls_at(m, "seek"))
            for (t, w) in find_path_avoiding(wcfg, lambda x, _n=n: x is _n, gate_node=seeks):
                r.violation(wr, wr.loc(c), "the write is not positioned at data_offset+offset (reads use that position)", w)
            for (t, w) in find_path_avoiding(wcfg, lambda x, _n=n: x is _n, skip_exc_edges=True,
                                             gate_edge=lambda m, lab: wn_.edge_fact(m, lab) == ("<=", "0", o)):
                r.violation(wr, wr.loc(c), "share data is written without the %s >= 0 check: a negative offset "
                            "overwrites the container header (version, lease count) that reads depend on" % o, w)
        # the too-large edge raises
        for n in wcfg.nodes:
            for (dd, lab) in wcfg.succ[n.id]:
                f = wn_.edge_fact(n, lab)
                if f and f[0] == "<" and f[1] == "0" and f[2] == str(-fits):
                    vis, par = explore(wcfg, 0, lambda a_, l_, nx, s_, _n=n, _lab=lab: 0 if (a_ is not _n or l_ is _lab) else None, start=n)
                    if any(wcfg.nodes[i].kind == "exit" for (i, _s) in vis):
                        r.violation(wr, wr.loc(n.ast), "an oversized write is not rejected")
        # max_size given to the ShareFile is the one the writer was allocated with
        init = idx.func(BW + ".__init__")
        for c in calls_in_func(init, "ShareFile"):
            ms = kwarg(c, "max_size") or arg(c, 1)
            r.require(isinstance(ms, ast.Name) and ms.id == "max_size", init, init.loc(c),
                      "the share container is created with max_size=%s" % src(init, ms))

    # ---------------------------------------------------------------- 6. bytes are dropped only in discard mode
    with ctx.rule("C22.6", "R1", "BucketWriter.write returns normally only after write_share_data, except in discard mode; "
                  "discard mode is switched on only under StorageServer.no_storage (= discard_storage, default False)",
                  expected=4) as r:
        fn = idx.func(BW + ".write")
        cfg = fn.cfg()
        fnorm = FlowNorm(fn)

        def stored(n):
            return any(call_name(c) == "self._sharefile.write_share_data" for c in node_calls(n))

        ps6 = first_positional_params(fn)
        if len(ps6) < 2:
            raise AnchorVanished("BucketWriter.write(offset, data) signature changed")
        d6 = ps6[1]
        len6 = norm_src("len(%s)" % d6)

        def discard_edge(n, lab):
            # discard mode, or nothing to store (empty data)
            return fnorm.edge_fact(n, lab) in (("truth", "self.throw_out_all_data", None), ("false", d6, None),
                                               ("false", len6, None), ("==", "0", len6), ("<=", len6, "0"))
        if not cfg.find(stored):
            raise AnchorVanished("BucketWriter.write no longer calls self._sharefile.write_share_data")
        r.site(fn, None, "normal exits of write")
        r.count(len(cfg.nodes))
        for (n, w) in find_path_avoiding(cfg, _is_exit, gate_node=stored, gate_edge=discard_edge, skip_exc_edges=True):
            r.violation(fn, fn.loc(), "write() can return normally without storing the bytes although the writer is not "
                        "in discard mode (path: %s) - the share later reads back without them" % w.brief(), w)
        # who switches discard mode on
        for v in idx.cls(BW).attrs.get("throw_out_all_data", []):
            r.require(is_const(v, False), idx.func(BW + ".__init__"), "class body",
                      "BucketWriter.throw_out_all_data defaults to something other than False at class level")
        alloc = idx.func(SS + ".allocate_buckets")
        n_false = 0
        for (f, target) in cg.attr_stores("throw_out_all_data"):
            n = stmt_node_of(f, target)
            val = n.ast.value if isinstance(n.ast, (ast.Assign, ast.AnnAssign)) else None
            if isinstance(n.ast, ast.Assign) and isinstance(n.ast.targets[0], (ast.Tuple, ast.List)):
                val = assign_value(n, attr_path(target))
            r.site(f, n.ast, "throw_out_all_data store")
            if is_const(val, False):
                n_false += 1
                continue
            ok = f.cls is not None and f.cls.name == "StorageServer"
            if ok:
                fno = FlowNorm(f)
                ok = not find_path_avoiding(f.cfg(), lambda x, _n=n: x is _n, skip_exc_edges=True,
                                            gate_edge=lambda x, lab, _fno=fno: _fno.edge_fact(x, lab) == ("truth", "self.no_storage", None))
            r.require(ok, f, f.loc(n.ast), "%s puts a bucket writer into discard mode (%s) outside the `if self.no_storage` "
                      "branch of the storage server: uploaded bytes are silently thrown away" % (short(f), src(f, n.ast)))
        if n_false == 0:
            raise AnchorVanished("BucketWriter.__init__ no longer initialises throw_out_all_data to False")
        # no_storage is the discard_storage constructor argument, off by default
        sinit = idx.func(SS + ".__init__")
        n_ns = 0
        for (f, target) in cg.attr_stores("no_storage"):
            if f.cls is None or f.cls.name != "StorageServer":
                continue
            n_ns += 1
            n = stmt_node_of(f, target)
            r.site(f, n.ast, "no_storage store")
            val = assign_value(n, "self.no_storage")
            if is_const(val, False):
                continue
            rv = FlowNorm(f).resolve(n, val) if val is not None else None
            ok = f is sinit and isinstance(rv, ast.Name) and rv.id in f.params and is_const(param_default(f, rv.id), False)
            r.require(ok, f, f.loc(n.ast), "StorageServer.no_storage is set by %s; it must be the constructor's "
                      "discard_storage argument whose default is False" % src(f, n.ast))
        if n_ns == 0:
            raise AnchorVanished("StorageServer no longer stores self.no_storage")

    # ---------------------------------------------------------------- 7. no second upload of the same share
    with ctx.rule("C22.7", "R4", "a BucketWriter is created only for a share that is neither complete (finalhome exists) "
                  "nor in progress (incominghome exists, or ShareFile refuses to create over an existing file)",
                  expected=1) as r:
        alloc = idx.func(SS + ".allocate_buckets")
        acfg = alloc.cfg()
        anorm = FlowNorm(alloc)
        # the container's own refusal: open(self.home, 'w..') only after `not os.path.exists(self.home)`
        sfi = idx.func(SF + ".__init__")
        sfn = FlowNorm(sfi)
        creates = []
        for n in sfi.cfg().nodes:
            for c in calls_at(n, "open"):
                mode = arg(c, 1, "mode")
                if isinstance(mode, ast.Constant) and isinstance(mode.value, str) and mode.value[:1] in ("w", "a", "x"):
                    creates.append((n, c))
        sf_guard = bool(creates)
        for (n, c) in creates:
            mode = arg(c, 1, "mode").value
            if mode[:1] == "x":
                continue
            if find_path_avoiding(sfi.cfg(), lambda x, _n=n: x is _n, skip_exc_edges=True,
                                  gate_edge=lambda x, lab: sfn.edge_fact(x, lab) == ("false", "os.path.exists(self.home)", None)):
                sf_guard = False
        n_bw = 0
        for cs in real_sites(cg.calls_named("BucketWriter")):
            if cs.fn is not alloc:
                continue        # reported by C22.2
            n_bw += 1
            r.site(alloc, cs.call, "BucketWriter(...)")
            node = node_of(alloc, cs.call)
            inc = arg(cs.call, 1, "incominghome")
            fin = arg(cs.call, 2, "finalhome")
            if inc is None or fin is None:
                raise AnalysisError("BucketWriter(...) call shape changed")

            def unguarded(at, e):
                wants = {"os.path.%s(%s)" % (fname, anorm.norm(at, e)) for fname in ("exists", "lexists", "isfile")}
                return find_path_avoiding(acfg, lambda x, _n=at: x is _n, skip_exc_edges=True,
                                          gate_edge=lambda x, lab: (lambda f_: bool(f_) and f_[0] == "false" and f_[1] in wants)(
                                              anorm.edge_fact(x, lab)))
            r.count(len(acfg.nodes))
            # When the paths were computed (and tested) in an earlier loop and carried to this call through a list of
            # tuples, the test has to guard the statement that puts them into the list: nothing else feeds the list
            # (carried_sources fails closed otherwise) and nothing in between publishes a share (only close does).
            for ((inode, inc_x), (fnode, fin_x)) in carried_sources(alloc, node, [inc, fin]):
                for (t, w) in unguarded(fnode, fin_x):
                    r.violation(alloc, cs.loc, "a new upload is started although the share may already exist at %s: closing it "
                                "renames over the complete immutable share and changes the bytes readers get (path: %s)"
                                % (src(alloc, fin_x), w.brief()), w)
                if not sf_guard:
                    for (t, w) in unguarded(inode, inc_x):
                        r.violation(alloc, cs.loc, "a second upload of a share that is still in progress at %s is accepted and "
                                    "ShareFile(create=True) does not refuse an existing file: the first upload's bytes are "
                                    "truncated away" % src(alloc, inc_x), w)
        if n_bw == 0:
            raise AnchorVanished("allocate_buckets no longer constructs a BucketWriter")

    # ---------------------------------------------------------------- 8. tidying through helpers cannot cut abort / close short
    with ctx.rule("C22.8", "R2/E4", "no call that abort / close make before bucket_writer_closed can let the 'directory not "
                  "empty' OSError of an os.rmdir escape: an rmdir reached through a helper is inside a try that swallows "
                  "OSError (in the helper or around the call) or behind an empty-listdir test of the same directory",
                  expected=3) as r:
        def any_release8(n):
            return any(call_name(c) == "self.ss.bucket_writer_closed" for c in node_calls(n))
        n_rmdir = 0
        for m in (idx.func(BW + ".abort"), idx.func(BW + ".close")):
            mcfg = m.cfg()
            mnorm = FlowNorm(m)
            if not mcfg.find(any_release8):
                raise AnchorVanished("%s no longer calls self.ss.bucket_writer_closed" % short(m))
            for n in mcfg.nodes:
                if n.id not in mcfg.reachable_nodes() or not node_calls(n) or any_release8(n):
                    continue
                if not reaches(mcfg, n, any_release8):
                    continue
                for c in node_calls(n):
                    direct = call_tail(c) in _RMDIR_TAILS and len(c.args) >= 1 and not cg.resolve(m, c)
                    helpers = [] if direct else [h for h in cg.resolve(m, c) if h is not m]
                    if not direct and not helpers:
                        continue
                    r.site(m, c, "removes a directory" if direct else "calls %s" % ", ".join(short(h) for h in helpers))
                    r.count(1)
                    if exc_swallowed(mcfg, n):
                        n_rmdir += 1 if direct else 0
                        continue
                    if direct:
                        n_rmdir += 1
                        if call_name(c) == "os.rmdir" and len(c.args) == 1:
                            continue          # the plain spelling is decided by C22.3
                        form = _canon_path(mnorm.norm(n, c.args[0]))
                        for (t, w) in _empty_dir_guarded(mcfg, mnorm, n, form):
                            r.violation(m, m.loc(c), "%s removes %s with %s without checking that it is empty and outside a "
                                        "try: with a sibling share still in progress the OSError escapes before "
                                        "bucket_writer_closed" % (short(m), src(m, c.args[0]), call_name(c) or call_tail(c)), w)
                        continue
                    same_self = isinstance(c.func, ast.Attribute) and attr_path(c.func.value) == "self"
                    for h in helpers:
                        for (g, rc, form, chain) in escaping_rmdirs(cg, h):
                            n_rmdir += 1
                            bad = [(n, None)] if (form is None or not same_self or h.cls is None) else \
                                _empty_dir_guarded(mcfg, mnorm, n, form)
                            for (t, w) in bad:
                                r.violation(m, m.loc(c), "%s calls %s outside a try, and %s there removes %s without knowing "
                                            "that it is empty: with another upload in progress next to this one (a sibling "
                                            "share, or a storage index with the same prefix directory) the OSError escapes "
                                            "%s before self.closed is set and bucket_writer_closed is called - the "
                                            "reservation is never released" % (
                                                short(m), " -> ".join(chain), src(g, rc), form or src(g, rc.args[0]), short(m)), w)
        if n_rmdir == 0:
            raise AnchorVanished("abort / close no longer remove the incoming directories (nothing for the rule to decide)")
