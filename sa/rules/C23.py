"""C23 Mutable share containers behave like byte arrays.

Decided: the structural necessary conditions of the byte-array behaviour in
storage/mutable.py (zero fill, length update, container growth before the
write, lease relocation, clipped reads, truncation through the length field)
and storage/server.py (new_length == 0 unlinks).  DESIGN.md section 5, C23."""
from sa.h import *

EXPLANATION = (
    "Decided (structural, all paths): (1) _write_share_data fills the gap [data_length, offset) with "
    "offset-data_length zero bytes at DATA_OFFSET+data_length whenever offset > data_length, records "
    "offset+len(data) as the new data length exactly when the write reaches the old end, and writes the "
    "caller's bytes at DATA_OFFSET+offset; (2) every write into the data region is preceded by "
    "_change_container_size(offset+len) or the fact that the data fits below the extra-lease offset, and "
    "_change_container_size re-writes at DATA_OFFSET+new_size exactly the 4+n*LEASE_SIZE bytes it read at the "
    "old extra-lease offset (read before the old area is zeroed, zeroing before the write-back) and then "
    "records the new offset; (3) _read_share_data clips the length to max(0, data_length-offset), returns "
    "b'' only for length 0 and reads at DATA_OFFSET+offset; readv passes (offset, length) in order and returns the "
    "collected reads; assertions over the fit/clip forms are exactly the non-strict ones (an exact fit is legal); (4) writev "
    "applies every (offset, data) pair and truncates only by writing the length field under "
    "new_length < current length, read after the data writes; (5) _evaluate_write_vectors unlinks (never "
    "writev) under new_length == 0 and calls writev(datav, new_length) on an existing or freshly allocated "
    "share otherwise; (6) the file writes reachable from writev are exactly the six classified sites, no "
    "lease-record writer is reachable, and the readers/writers of the length and extra-lease-offset fields "
    "agree with each other and with the header packed by mutable_schema._header, whose initial layout is fixed header + "
    "four blank lease slots + extra-lease count 0 with the extra-lease offset equal to DATA_OFFSET; (7) test vectors are compared "
    "(==) against _read_share_data of the share, and against b'' for a missing share; any failing vector makes "
    "the verdict False, and an assertion over the operator in testv_compare lets b'eq' through; (8) an assert / precondition "
    "over offset (write) or offset / length (read) alone lets every value >= 0 through; no decision in _write_share_data uses "
    "the extra-lease offset read before _change_container_size moved it; DataTooLargeError is raised (in _write_share_data, "
    "_change_container_size, writev, _evaluate_write_vectors) only on an edge where a positive sum of request quantities "
    "exceeds or reaches MAX_SIZE; an os.rmdir inside the apply loop of _evaluate_write_vectors is guarded by listdir of the "
    "same directory being empty (or sits in a try with a handler), so that clean-up cannot abort the remaining vectors; "
    "(9) every server-side protocol entry point hands StorageServer the request's own vectors: FoolscapStorageServer.remote_slot_* "
    "pass their arguments through and return the server's answer; HTTPServer.mutable_read_test_write rebuilds, per share number and "
    "element by element, (offset, size, b'eq', specimen), (offset, data), new-length and the read vector from the decoded body's own "
    "fields (nothing filtered, clipped, reordered or recomputed - e.g. a read length clipped to the specimen length turns 'the share "
    "must be empty' into a test every share passes) and answers the server's verdict and reads; read_mutable_chunk's reader asks for "
    "exactly [(offset, length)] of the one requested share and returns that read; (10) the client half: both IStorageServer adapters "
    "and http_client send the caller's vectors the same way (value objects whose attrs fields are the wire keys, "
    "TestWriteVectors.asdict renaming to test / write / new-length, every share's asdict() and every read vector in the body).  "
    "Rules 9/10 compare provenance terms (comprehensions and fill-in-a-loop give the same term); a helper call the evaluator does not "
    "follow is reported as ANALYSIS-ERROR, not as a pass.  "
    "Undecided: byte-level results of seek/read/write, integer arithmetic, crash windows between the writes; the exact "
    "MAX_SIZE boundary (> vs >=) and the presence of the size limit at all (not part of the byte-array behaviour; the "
    "pre-validation is C24.8); whether the bucket directory is removed after the last share is deleted and which shares "
    "are reported as remaining for lease renewal; flushes; open() modes; the CBOR / Foolscap (de)serialisation itself, the Range "
    "header arithmetic of read_range / http_client.read_share (shared with immutable shares), _HTTPStorageServer.slot_readv's "
    "fan-out of chunk reads and the decoding of answers on the client side.")
TECHNIQUE = ("static analysis: CFG path rules over linear normal forms, seek/write site table, call reachability, "
             "provenance terms of the vectors handed across protocol hops")

MSF = "storage.mutable:MutableShareFile"
SRV = "storage.server:StorageServer"


# ---------------------------------------------------------------- helpers
def PP(s: str) -> Poly:
    """Polynomial normal form of a source expression (no local substitution)."""
    return Normaliser(Env(None, depth=0)).poly(parse_expr(s))


def P(s: str) -> str:
    return str(PP(s))


_NEGOP = {ast.Eq: ast.NotEq, ast.NotEq: ast.Eq, ast.Lt: ast.GtE, ast.LtE: ast.Gt, ast.Gt: ast.LtE, ast.GtE: ast.Lt}
_SYM = {ast.Eq: "==", ast.NotEq: "!=", ast.Lt: "<", ast.LtE: "<="}


def lin_fact(fnm, n, lab, allow_assume=False):
    """The comparison holding on edge (n, lab) as (op, poly) meaning ``0 op poly`` with
    op in < <= == != ; None for anything else (and for assert/precondition edges)."""
    if n.kind != "test" or not isinstance(lab, tuple):
        return None
    if n.assume and not allow_assume:
        return None
    e, pol = n.ast, lab[0] == "T"
    while isinstance(e, ast.UnaryOp) and isinstance(e.op, ast.Not):
        e, pol = e.operand, not pol
    if not isinstance(e, ast.Compare) or len(e.ops) != 1 or type(e.ops[0]) not in _NEGOP:
        return None
    op = type(e.ops[0])
    if not pol:
        op = _NEGOP[op]
    l, r = e.left, e.comparators[0]
    if op in (ast.Gt, ast.GtE):
        op = {ast.Gt: ast.Lt, ast.GtE: ast.LtE}[op]
        l, r = r, l
    nz = fnm.at(n)
    try:
        d = nz.poly(r) - nz.poly(l)
    except Exception:
        return None
    if op in (ast.Eq, ast.NotEq):
        return (_SYM[op], min(str(d), str(-d)))
    return (_SYM[op], str(d))


def pass_polarity(cfg, n):
    """Truth value of the atomic test `n` of an assert / precondition with which the assertion goes on (the
    condition may have been decomposed: 'not', 'and'); None when neither outcome fails by itself ('or')."""
    fails = {lab[0] for (d, lab) in cfg.succ[n.id] if isinstance(lab, tuple) and cfg.nodes[d].kind in ("raise", "except")}
    if len(fails) != 1:
        return None
    return "F" in fails


def assume_fact(fnm, n):
    """(op, poly) holding when the assert / precondition at test node n passes.  A local all of whose reaching
    definitions are the same call (e.g. extra_lease_offset re-read after the container grew) is spelt as that call."""
    if n.kind != "test" or not n.assume:
        return None
    env = fnm.env_at(n)
    ren = {}
    for name, ds in fnm.rd.get(n.id, {}).items():
        if name in env.defs or len(ds) < 2 or any(d < 0 for d in ds):
            continue
        vals = {norm_plain(v) if v is not None else None for v in (fnm._def_value(fnm.cfg.nodes[d], name) for d in ds)}
        if len(vals) == 1 and None not in vals:
            ren[name] = vals.pop()
    nz = Normaliser(Env(None, extra=env.defs, rename=ren, depth=fnm.depth))
    e = n.ast
    pol = pass_polarity(fnm.cfg, n)
    if pol is None:
        return None
    while isinstance(e, ast.UnaryOp) and isinstance(e.op, ast.Not):
        e, pol = e.operand, not pol
    if not isinstance(e, ast.Compare) or len(e.ops) != 1 or type(e.ops[0]) not in _NEGOP:
        return None
    op = type(e.ops[0])
    if not pol:
        op = _NEGOP[op]
    l, r_ = e.left, e.comparators[0]
    if op in (ast.Gt, ast.GtE):
        op = {ast.Gt: ast.Lt, ast.GtE: ast.LtE}[op]
        l, r_ = r_, l
    try:
        d = nz.poly(r_) - nz.poly(l)
    except Exception:
        return None
    if op in (ast.Eq, ast.NotEq):
        return (_SYM[op], min(str(d), str(-d)))
    return (_SYM[op], str(d))


def check_assumes(r, fn, cfg, fnm, expr, what):
    """An assert/precondition over the linear form `expr` (or its negation) must be exactly ``0 <= expr``:
    anything else rejects inputs the byte-array behaviour has to accept (e.g. an exact fit)."""
    want = P(expr)
    neg = P("-(%s)" % expr)
    for n in cfg.nodes:
        f_ = assume_fact(fnm, n)
        if f_ and f_[1] in (want, neg):
            r.require(f_ == ("<=", want), fn, fn.loc(n.ast), "%s: the assertion %s rejects %s" % (short(fn), src(fn, n.ast), what))


def cmp_poly(nz, e, pol=True):
    """Comparison `e` (negated when not pol) as (op, Poly) meaning ``0 op poly``, op in < <= == != ; else None."""
    while isinstance(e, ast.UnaryOp) and isinstance(e.op, ast.Not):
        e, pol = e.operand, not pol
    if not isinstance(e, ast.Compare) or len(e.ops) != 1 or type(e.ops[0]) not in _NEGOP:
        return None
    op = type(e.ops[0])
    if not pol:
        op = _NEGOP[op]
    l, r_ = e.left, e.comparators[0]
    if op in (ast.Gt, ast.GtE):
        op = {ast.Gt: ast.Lt, ast.GtE: ast.LtE}[op]
        l, r_ = r_, l
    try:
        return (_SYM[op], nz.poly(r_) - nz.poly(l))
    except Exception:
        return None


def _loads(e):
    return {x.id for x in ast.walk(e) if isinstance(x, ast.Name) and isinstance(x.ctx, ast.Load)}


def check_param_assumes(r, fn, cfg, fnm, params, what):
    """An assert / precondition over one caller-supplied parameter alone (linear, reached without an earlier
    decision about that parameter) must let every value >= 0 through: offset 0, length 0 and every larger
    value are legal arguments of the byte-array operations."""
    for n in cfg.nodes:
        if n.kind != "test" or not n.assume:
            continue
        pol = pass_polarity(cfg, n)
        f_ = cmp_poly(fnm.at(n), n.ast, pol) if pol is not None else None
        if f_ is None:
            continue
        op, d = f_
        at = d.atoms()
        if len(at) != 1 or any(len(k) > 1 for k in d.t):
            continue
        (p_,) = tuple(at)
        if p_ not in params or set(fnm.rd.get(n.id, {}).get(p_, ())) != {-1}:
            continue
        decided = lambda m: m.kind == "test" and not m.assume and p_ in _loads(m.ast)
        if not find_path_avoiding(cfg, lambda x: x is n, gate_node=decided, skip_exc_edges=True):
            continue
        a, c = d.t.get((p_,), 0), d.t.get((), 0)
        if op == "<=":
            ok = a >= 0 and c >= 0
        elif op == "<":
            ok = a >= 0 and c > 0
        elif op == "!=":
            x = -c / a
            ok = x < 0 or x.denominator != 1
        else:
            ok = False
        r.require(ok, fn, fn.loc(n.ast), "%s: the assertion %s rejects %s" % (short(fn), src(fn, n.ast), what % p_))


def stale_after(cfg, fnm, reader, changer):
    """Decisions (tests, assertions) that use a local read through self.<reader>(..) before a call of
    self.<changer>(..) lying on the path between that read and the decision: [(test node, local, witness)]."""
    changed = {n.id for n in cfg.nodes if self_call(n, changer)}
    out = []
    for n in cfg.nodes:
        if n.kind != "test":
            continue
        for v in sorted(_loads(n.ast)):
            for d in sorted(fnm.rd.get(n.id, {}).get(v, ())):
                if d < 0:
                    continue
                dn = cfg.nodes[d]
                val = fnm._def_value(dn, v)
                if not (isinstance(val, ast.Call) and call_name(val) == "self." + reader):
                    continue

                def transfer(a, lab, b, st, dn=dn, v=v):
                    if lab == "exc" or (a is not dn and v in node_stores(a)):
                        return None
                    return st or a.id in changed
                vis, par = explore(cfg, False, transfer, start=dn)
                if (n.id, True) in vis:
                    out.append((n, v, witness(cfg, par, (n.id, True))))
    return out


def accepts_eq(e, opname, pol):
    """Does the assertion test `e` (going on when it evaluates to `pol`) pass for the operator b'eq'?  None = not decidable."""
    if pol is None:
        return None
    while isinstance(e, ast.UnaryOp) and isinstance(e.op, ast.Not):
        e, pol = e.operand, not pol
    if not isinstance(e, ast.Compare) or len(e.ops) != 1:
        return None
    l, c = e.left, e.comparators[0]
    try:
        if isinstance(l, ast.Name) and l.id == opname:
            a, b = b"eq", ast.literal_eval(c)
        elif isinstance(c, ast.Name) and c.id == opname:
            a, b = ast.literal_eval(l), b"eq"
        else:
            return None
        op = e.ops[0]
        if isinstance(op, ast.Eq):
            res = a == b
        elif isinstance(op, ast.NotEq):
            res = a != b
        elif isinstance(op, ast.In):
            res = a in b
        elif isinstance(op, ast.NotIn):
            res = a not in b
        else:
            return None
    except (ValueError, TypeError, SyntaxError):
        return None
    return res if pol else not res


def le_facts(expr: str):
    """Accepted spellings of ``0 <= expr`` (strict form implies it)."""
    return {("<=", P(expr)), ("<", P(expr))}


def fcalls(n, fvar, meth):
    return [c for c in node_calls(n) if isinstance(c.func, ast.Attribute) and c.func.attr == meth
            and isinstance(c.func.value, ast.Name) and c.func.value.id == fvar]


def fileops(n, fvar):
    """Calls at node n that can move the position of / write to the file object."""
    out = []
    for c in node_calls(n):
        if isinstance(c.func, ast.Attribute) and isinstance(c.func.value, ast.Name) and c.func.value.id == fvar:
            out.append(c)
        elif any(isinstance(a, ast.Name) and a.id == fvar for a in c.args):
            out.append(c)
    return out


def unpositioned(cfg, fnm, fvar, target, want):
    """Paths reaching `target` whose last file operation is not f.seek(<want>)."""
    def gate(n):
        for c in fcalls(n, fvar, "seek"):
            try:
                if len(c.args) == 1 and str(fnm.at(n).poly(c.args[0])) == want:
                    return True
            except Exception:
                pass
        return False
    return find_path_avoiding(cfg, lambda x: x is target, gate_node=gate, kill=lambda n: bool(fileops(n, fvar)))


def zero_count(e):
    """b'\\x00' * n  /  n * b'\\x00'  /  bytes(n)  -> n ; else None."""
    if isinstance(e, ast.BinOp) and isinstance(e.op, ast.Mult):
        for a, b in ((e.left, e.right), (e.right, e.left)):
            if isinstance(a, ast.Constant) and a.value == b"\x00":
                return b
    if isinstance(e, ast.Call) and isinstance(e.func, ast.Name) and e.func.id == "bytes" and len(e.args) == 1 \
            and not e.keywords and not isinstance(e.args[0], ast.Constant):
        return e.args[0]
    return None


def def_of(fnm, n, e):
    """Follow a plain name at node n to its unique reaching assignment (also through calls the normaliser
    treats as impure, e.g. f.read): (defining node, value expression); (None, e) when e is not a name."""
    if not isinstance(e, ast.Name):
        return None, e
    ds = fnm.rd.get(n.id, {}).get(e.id)
    if not ds or len(ds) != 1:
        return None, None
    (d,) = tuple(ds)
    if d < 0:
        return None, None
    dn = fnm.cfg.nodes[d]
    return dn, fnm._def_value(dn, e.id)


def poly_at(fnm, n, e):
    try:
        return str(fnm.at(n).poly(e))
    except Exception:
        return None


def self_call(n, name, fvar=None):
    out = []
    for c in node_calls(n):
        if call_name(c) == "self." + name and (fvar is None or (c.args and isinstance(c.args[0], ast.Name)
                                                                and c.args[0].id == fvar)):
            out.append(c)
    return out


def struct_call(e, which):
    """struct.pack / struct.unpack call -> (fmt expr, rest args) else None."""
    if isinstance(e, ast.Call) and call_name(e) == "struct." + which and e.args:
        return e.args[0], e.args[1:]
    return None


class _Subst(ast.NodeTransformer):
    def __init__(self, pred, value):
        self.pred, self.value = pred, value

    def visit_Call(self, node):
        if self.pred(node):
            return ast.copy_location(ast.Constant(value=self.value), node)
        return self.generic_visit(node)


def verdict_monitor(r, fn, is_cmp, what, need_done):
    """Boolean-verdict loop: a false comparison makes the function return False; True is returned only
    when no comparison failed (and, when need_done, only after the loop ran to completion); no iteration
    skips the comparison; no break before a failure."""
    cfg = fn.cfg()
    heads = [n for n in cfg.nodes if n.kind == "iter"]
    rets = cfg.find(is_return)
    if not rets or not cfg.find(is_cmp):
        raise AnchorVanished("%s: comparison / return not found" % short(fn))
    rvars = {x.ast.value.id for x in rets if isinstance(x.ast.value, ast.Name)}

    def const_of(e):
        if isinstance(e, ast.Constant) and isinstance(e.value, bool):
            return e.value
        return "?"

    # state: (values of verdict variables as sorted tuple, failed, tested, done)
    def transfer(n, lab, nxt, st):
        vals, failed, tested, done, bad = st
        if bad:
            return None
        if lab == "exc":
            return None
        vals = dict(vals)
        if n.kind == "stmt":
            for v in rvars:
                a = assign_value(n, v)
                if a is not None:
                    vals[v] = const_of(a)
                elif v in node_stores(n):
                    vals[v] = "?"
            if isinstance(n.ast, ast.Break) and not failed:
                bad = "leaves the loop with 'break' although no %s failed" % what
        if n.kind == "iter":
            if lab == "iter":
                tested = False
            elif lab == "done":
                done = True
        if n.kind == "test" and is_cmp(n):
            tested = True
            if isinstance(lab, tuple) and lab[0] == "F":
                failed = True
        if nxt.kind == "iter" and n.kind != "iter" and tested is False and nxt in heads and _in_loop(cfg, nxt, n):
            bad = "an iteration completes without evaluating the %s" % what
        return (tuple(sorted(vals.items())), failed, tested, done, bad)

    visited, parent = explore(cfg, ((), False, None, False, ""), transfer)
    r.count(len(visited))
    seen = set()
    for (nid, st) in sorted(visited, key=lambda x: (x[0], repr(x[1]))):
        n = cfg.nodes[nid]
        vals, failed, tested, done, bad = st
        msg = None
        if bad:
            msg = bad
        elif is_return(n):
            v = n.ast.value
            val = dict(vals).get(v.id, "?") if isinstance(v, ast.Name) else const_of(v)
            if failed and val is not False:
                msg = "returns %s after a failing %s" % (val, what)
            elif not failed and val is not True:
                msg = "returns %s although every %s succeeded" % (val, what)
            elif not failed and need_done and heads and not done:
                msg = "returns True before all entries were examined"
        if msg and (nid, msg) not in seen:
            seen.add((nid, msg))
            r.violation(fn, fn.loc(n.ast), "%s: %s" % (short(fn), msg), witness(cfg, parent, (nid, st)))


def _in_loop(cfg, head, n):
    """n is inside the body of the loop headed by `head` (reachable from its 'iter' edge without passing head)."""
    body = getattr(head.ast, "body", [])
    lo = body[0].lineno if body else head.lineno
    hi = max(getattr(s, "end_lineno", lo) for s in body) if body else lo
    return lo <= n.lineno <= hi


def _quantified_refusal(st):
    """``if any(E for ..): <..; raise>`` / ``if not all(E for ..): <..; raise>`` -> (comprehension, negate E?) or None.
    Only a straight-line body ending in a raise is accepted: then the statement means the same as the loop nest
    ``for ..: if E: <..; raise>`` (the body runs at most once either way)."""
    if not isinstance(st, ast.If) or st.orelse or not st.body or not isinstance(st.body[-1], ast.Raise):
        return None
    if any(isinstance(x, (ast.For, ast.While, ast.Try, ast.With, ast.If)) for x in st.body):
        return None
    t, neg = st.test, False
    while isinstance(t, ast.UnaryOp) and isinstance(t.op, ast.Not):
        t, neg = t.operand, not neg
    if not (isinstance(t, ast.Call) and isinstance(t.func, ast.Name) and t.func.id in ("any", "all") and len(t.args) == 1
            and not t.keywords and isinstance(t.args[0], (ast.GeneratorExp, ast.ListComp, ast.SetComp))):
        return None
    if (t.func.id == "all") != neg:
        return None                   # `if all(..): raise` / `if not any(..): raise` are no existential refusals
    if any(g.is_async for g in t.args[0].generators):
        return None
    return t.args[0], neg


class _RenameNames(ast.NodeTransformer):
    def __init__(self, mapping):
        self.mapping = mapping

    def visit_Name(self, node):
        if node.id in self.mapping:
            node.id = self.mapping[node.id]
        return node


def quantifiers_as_loops(fn):
    """A refusal written with a quantifier - ``if any(cond for .. in vectors for .. in datav): raise X`` or
    ``if not all(ok ..): raise X`` - is the loop nest ``for ..: for ..: if cond: raise X``.  Returns a scratch FuncInfo
    (deep copy of the function, source locations kept) in which such statements are spelt as loops, or fn itself
    when it holds none.  The names a comprehension binds live in its own scope, so they get fresh names in the loop
    form (the first iterable is evaluated in the enclosing scope and keeps its names)."""
    if not any(_quantified_refusal(x) for x in func_own_nodes(fn)):
        return fn
    import copy
    node = copy.deepcopy(fn.node)
    counter = [0]

    class T(ast.NodeTransformer):
        def visit_FunctionDef(self, n):
            if n is node:
                self.generic_visit(n)
            return n
        visit_AsyncFunctionDef = visit_FunctionDef

        def visit_Lambda(self, n):
            return n

        def visit_If(self, st):
            self.generic_visit(st)
            q = _quantified_refusal(st)
            if q is None:
                return st
            comp, neg = q
            bound = set()
            for g in comp.generators:
                bound |= {x.id for x in ast.walk(g.target) if isinstance(x, ast.Name)}
            counter[0] += 1
            ren = _RenameNames({b: "%s__q%d" % (b, counter[0]) for b in bound})
            first = comp.generators[0].iter
            comp.generators[0].iter = ast.Constant(value=None)
            ren.visit(comp)
            comp.generators[0].iter = first
            cond = ast.copy_location(ast.UnaryOp(op=ast.Not(), operand=comp.elt), comp.elt) if neg else comp.elt
            stmt = ast.copy_location(ast.If(test=cond, body=st.body, orelse=[]), st)
            for g in reversed(comp.generators):
                for c in reversed(g.ifs):
                    stmt = ast.copy_location(ast.If(test=c, body=[stmt], orelse=[]), st)
                stmt = ast.copy_location(ast.For(target=g.target, iter=g.iter, body=[stmt], orelse=[], type_comment=None), st)
            return stmt
    T().visit(node)
    ast.fix_missing_locations(node)
    g = FuncInfo(fn.module, node, fn.qual, fn.cls, fn.parent)
    g.nested = dict(fn.nested)
    return g


# ---- procedure-style helpers of _write_share_data, followed (same technique as C38.14) ------------------------
import copy as _copy

_WSD_PROTOCOL = {"_write_share_data", "_change_container_size", "_read_data_length", "_write_data_length",
                 "_read_extra_lease_offset", "_write_extra_lease_offset", "_read_num_extra_leases", "_read_share_data"}


class _Rebind(ast.NodeTransformer):
    def __init__(self, names, exprs):
        self.names, self.exprs = names, exprs

    def visit_Name(self, n):
        if n.id in self.exprs and isinstance(n.ctx, ast.Load):
            return ast.copy_location(_copy.deepcopy(self.exprs[n.id]), n)
        if n.id in self.names:
            return ast.copy_location(ast.Name(id=self.names[n.id], ctx=n.ctx), n)
        return n


def _self_helper(fn, st):
    """(call, callee) when the statement is nothing but ``self.h(..)`` of a method of fn's class, else None"""
    if not (isinstance(st, ast.Expr) and isinstance(st.value, ast.Call) and fn.cls is not None):
        return None
    c = st.value
    if not (isinstance(c.func, ast.Attribute) and isinstance(c.func.value, ast.Name) and c.func.value.id == "self"):
        return None
    h = fn.cls.lookup(c.func.attr)
    return (c, h) if h is not None and isinstance(h.node, ast.FunctionDef) else None


def _helper_body(c, h, counter):
    """Statements of the straight procedure h with its parameters bound to the arguments of the call c (positional or
    keyword, no defaults) and its locals renamed apart; None when h is not such a procedure."""
    hn = h.node
    a = hn.args
    if a.vararg or a.kwarg or a.kwonlyargs or getattr(a, "posonlyargs", None) or hn.decorator_list:
        return None
    ps = [x.arg for x in a.args]
    if not ps or ps[0] != "self" or any(isinstance(x, ast.Starred) for x in c.args) or any(k.arg is None for k in c.keywords):
        return None
    ps = ps[1:]
    if len(c.args) > len(ps):
        return None
    bound = dict(zip(ps, c.args))
    for k in c.keywords:
        if k.arg not in ps or k.arg in bound:
            return None
        bound[k.arg] = k.value
    if set(bound) != set(ps):
        return None                      # defaults: not followed
    body = list(hn.body)
    if body and isinstance(body[0], ast.Expr) and isinstance(body[0].value, ast.Constant) and isinstance(body[0].value.value, str):
        body = body[1:]
    if body and isinstance(body[-1], ast.Return) and body[-1].value is None:
        body = body[:-1]
    inner = [x for s in body for x in ast.walk(s)]
    if not body or any(isinstance(x, (ast.Return, ast.Yield, ast.YieldFrom, ast.FunctionDef, ast.AsyncFunctionDef, ast.Lambda,
                                      ast.ClassDef, ast.Global, ast.Nonlocal, ast.Await)) for x in inner):
        return None
    stored = {x.id for x in inner if isinstance(x, ast.Name) and isinstance(x.ctx, (ast.Store, ast.Del))}
    counter[0] += 1
    pre = "_h%d_" % counter[0]
    names = {x: pre + x for x in stored | set(ps)}
    exprs, head = {}, []
    for p_ in ps:
        v = bound[p_]
        if isinstance(v, ast.Name) and p_ not in stored:
            exprs[p_] = v                  # the same variable under another name
        else:
            t = ast.Assign(targets=[ast.Name(id=names[p_], ctx=ast.Store())], value=_copy.deepcopy(v), type_comment=None)
            head.append(ast.copy_location(t, c))
    rn = _Rebind(names, exprs)
    out = head + [rn.visit(_copy.deepcopy(s)) for s in body]
    for s in out:
        ast.fix_missing_locations(s)
    return out


def _touches_file(h, depth=4, seen=None):
    """does h (or a self.method it calls, transitively) seek / write / truncate some file or resize the container"""
    seen = set() if seen is None else seen
    if h.qual in seen or depth < 0:
        return False
    seen.add(h.qual)
    for c in [x for x in func_own_nodes(h) if isinstance(x, ast.Call)]:
        if call_tail(c) in ("seek", "write", "truncate", "writelines", "_change_container_size", "_write_data_length",
                            "_write_extra_lease_offset"):
            return True
        if h.cls is not None and isinstance(c.func, ast.Attribute) and attr_path(c.func.value) == "self":
            g = h.cls.lookup(c.func.attr)
            if g is not None and _touches_file(g, depth - 1, seen):
                return True
    return False


def wsd_with_helpers(idx, rounds=4):
    """_write_share_data with the procedure-style helpers it hands the file to (``self.h(f, ..)`` as a statement) replaced
    by their bodies, repeatedly: (FuncInfo - the function itself when nothing was followed, {qual of every helper all of
    whose uses were followed}).  A helper that is handed the file, touches it and cannot be followed (returns a value, is
    used inside an expression, has defaults ..) is an ANALYSIS-ERROR: its part of the write protocol is not seen."""
    fn = idx.func(MSF + "._write_share_data")
    ps = first_positional_params(fn)
    if len(ps) < 3:
        raise AnchorVanished("%s(f, offset, data)" % fn.qual)
    fp = ps[0]

    def passes_file(c):
        return any(attr_path(a) == fp for a in c.args) or any(attr_path(k.value) == fp for k in c.keywords)

    def want(c, h):
        return h.name not in _WSD_PROTOCOL and passes_file(c)
    node = _copy.deepcopy(fn.node)
    counter, changed, followed = [0], [False], {}

    class T(ast.NodeTransformer):
        def visit_FunctionDef(self, n):
            return n if n is not node else self.generic_visit(n)
        visit_AsyncFunctionDef = visit_Lambda = visit_ClassDef = lambda self, n: n

        def visit_Expr(self, st):
            hit = _self_helper(fn, st)
            if hit is None or not want(*hit):
                return st
            b = _helper_body(hit[0], hit[1], counter)
            if b is None:
                return st
            changed[0] = True
            followed[hit[1].qual] = hit[1]
            return b
    did = False
    for _i in range(rounds):
        changed[0] = False
        T().visit(node)
        if not changed[0]:
            break
        did = True
    if not did:
        g = fn
    else:
        ast.fix_missing_locations(node)
        g = FuncInfo(fn.module, node, fn.qual, fn.cls, fn.parent)
        g.nested = dict(fn.nested)
    left = set()
    for c in [x for x in func_own_nodes(g) if isinstance(x, ast.Call)]:
        if isinstance(c.func, ast.Attribute) and attr_path(c.func.value) == "self" and fn.cls is not None:
            h = fn.cls.lookup(c.func.attr)
            if h is None:
                continue
            left.add(h.qual)
            if want(c, h) and _touches_file(h):
                raise AnalysisError("%s: the helper %s is handed the share file, touches it and cannot be followed (it returns a "
                                    "value / is not a plain procedure)" % (fn.qual, src(g, c)))
    return g, {q for q in followed if q not in left}


# -------------------------------------------------------------------- rules
def run(ctx: Context):
    idx = ctx.idx
    cg = get_callgraph(idx)

    # -- 1. zero fill, length update, data write ------------------------------
    with ctx.rule("C23.1", "R1/R2", "_write_share_data: a gap is zero-filled at DATA_OFFSET+data_length, the data length "
                  "becomes offset+len(data) exactly when the write reaches the old end, the bytes go to "
                  "DATA_OFFSET+offset", expected=3) as r:
        fn, _followed = wsd_with_helpers(idx)
        f, off, data = first_positional_params(fn)[:3]
        cfg = fn.cfg()
        fnm = FlowNorm(fn)
        DL = "self._read_data_length(%s)" % f
        END = "%s + len(%s)" % (off, data)
        is_exit = lambda n: n.kind == "exit"

        def writes(n):
            return [c for c in fcalls(n, f, "write") if len(c.args) == 1]
        zero_nodes, data_nodes, other = [], [], []
        for n in cfg.nodes:
            for c in writes(n):
                a = fnm.resolve(n, c.args[0])
                if zero_count(a) is not None:
                    zero_nodes.append((n, c, zero_count(a)))
                elif isinstance(a, ast.Name) and a.id == data:
                    data_nodes.append((n, c))
                else:
                    other.append((n, c))
        for (n, c) in other:
            r.violation(fn, fn.loc(c), "_write_share_data writes %s, which is neither the caller's data nor a zero "
                        "fill" % src(fn, c.args[0]))
        # (a) gap fill
        r.site(fn, None, "gap-fill obligation")
        good_zero = set()
        for (n, c, cnt) in zero_nodes:
            ok = poly_at(fnm, n, cnt) == P("%s - %s" % (off, DL))
            r.require(ok, fn, fn.loc(c), "zero fill writes %s bytes, not offset - data_length" % src(fn, cnt))
            if ok:
                good_zero.add(n.id)
            for (t, w) in unpositioned(cfg, fnm, f, n, P("self.DATA_OFFSET + %s" % DL)):
                r.violation(fn, fn.loc(c), "zero fill is not written at DATA_OFFSET + data_length (path: %s)" % w.brief(), w)
        nogap = le_facts("%s - %s" % (DL, off)) | le_facts("%s - (%s)" % (DL, END))
        bad = find_path_avoiding(cfg, is_exit, gate_node=lambda n: n.id in good_zero,
                                 gate_edge=lambda n, lab: lin_fact(fnm, n, lab) in nogap)
        r.count(len(cfg.nodes))
        for (n, w) in bad:
            r.violation(fn, fn.loc(), "_write_share_data can finish with offset > data_length without zero-filling "
                        "the gap (path: %s)" % w.brief(), w)
        # (b) length update
        r.site(fn, None, "length-update obligation")

        def len_update(n):
            return any(len(c.args) == 2 and poly_at(fnm, n, c.args[1]) == P(END) for c in self_call(n, "_write_data_length", f))
        for n in cfg.nodes:
            for c in self_call(n, "_write_data_length"):
                r.require(len(c.args) == 2 and poly_at(fnm, n, c.args[1]) == P(END), fn, fn.loc(c),
                          "data length is set to %s, not offset + len(data)" % src(fn, c.args[-1]))
        grows = le_facts("(%s) - %s" % (END, DL))
        for (n, w) in find_path_avoiding(cfg, has_call("_write_data_length"),
                                         gate_edge=lambda n, lab: lin_fact(fnm, n, lab) in grows):
            r.violation(fn, fn.loc(n.ast), "data length is rewritten although the write may end before the current "
                        "end of data: truncation by a plain write (path: %s)" % w.brief(), w)
        inside = le_facts("%s - (%s)" % (DL, END))
        for (n, w) in find_path_avoiding(cfg, is_exit, gate_node=len_update,
                                         gate_edge=lambda n, lab: lin_fact(fnm, n, lab) in inside):
            r.violation(fn, fn.loc(), "_write_share_data can finish a write that extends past data_length without "
                        "recording offset + len(data) as the new length (path: %s)" % w.brief(), w)
        # (c) the data itself
        r.site(fn, None, "data-write obligation")
        dn = {n.id for (n, c) in data_nodes}
        for (n, c) in data_nodes:
            for (t, w) in unpositioned(cfg, fnm, f, n, P("self.DATA_OFFSET + %s" % off)):
                r.violation(fn, fn.loc(c), "data is not written at DATA_OFFSET + offset (path: %s)" % w.brief(), w)
        for (n, w) in find_path_avoiding(cfg, is_exit, gate_node=lambda n: n.id in dn):
            r.violation(fn, fn.loc(), "_write_share_data can return without writing the data (path: %s)" % w.brief(), w)
        check_param_assumes(r, fn, cfg, fnm, {off}, "a write with a legal (zero or positive) %s")

    # -- 2. container growth, lease relocation --------------------------------
    with ctx.rule("C23.2", "R1/R2", "container growth precedes every data-region write; _change_container_size moves "
                  "the extra-lease block intact", expected=4) as r:
        fn, _followed = wsd_with_helpers(idx)
        f, off, data = first_positional_params(fn)[:3]
        cfg = fn.cfg()
        fnm = FlowNorm(fn)
        DL = "self._read_data_length(%s)" % f
        ELO = "self._read_extra_lease_offset(%s)" % f
        END = "%s + len(%s)" % (off, data)
        fits = le_facts("%s - self.DATA_OFFSET - (%s)" % (ELO, END)) | le_facts("%s - (%s)" % (DL, END))

        def grown(n):
            return any(len(c.args) == 2 and poly_at(fnm, n, c.args[1]) == P(END)
                       for c in self_call(n, "_change_container_size", f))
        wn = [n for n in cfg.nodes if fcalls(n, f, "write")]
        if not wn:
            raise AnchorVanished("no file write in _write_share_data")
        r.site(fn, None, "%d data-region writes" % len(wn))
        for n in cfg.nodes:
            for c in self_call(n, "_change_container_size"):
                r.require(len(c.args) == 2 and poly_at(fnm, n, c.args[1]) == P(END), fn, fn.loc(c),
                          "container is resized to %s, not offset + len(data)" % src(fn, c.args[-1]))
        for (n, w) in find_path_avoiding(cfg, lambda n: n in wn, gate_node=grown,
                                         gate_edge=lambda n, lab: lin_fact(fnm, n, lab) in fits):
            r.violation(fn, fn.loc(n.ast), "data-region write without growing the container first: the write can land "
                        "on the extra-lease block (path: %s)" % w.brief(), w)
        r.count(len(cfg.nodes))
        check_assumes(r, fn, cfg, fnm, "%s - self.DATA_OFFSET - (%s)" % (ELO, END), "a write that exactly fills the container")
        for (n, v, w) in stale_after(cfg, fnm, "_read_extra_lease_offset", "_change_container_size"):
            r.violation(fn, fn.loc(n.ast), "%s: %s decides on '%s', the extra-lease offset read before _change_container_size "
                        "moved it: a growing write is judged against the old container (path: %s)" % (
                            short(fn), src(fn, n.ast), v, w.brief()), w)

        cs = idx.func(MSF + "._change_container_size")
        f2, ncs = first_positional_params(cs)[:2]
        ccfg = cs.cfg()
        cnm = FlowNorm(cs)
        OLD = "self._read_extra_lease_offset(%s)" % f2
        NEW = "self.DATA_OFFSET + %s" % ncs
        SIZE = "4 + self._read_num_extra_leases(%s) * self.LEASE_SIZE" % f2
        reads = [n for n in ccfg.nodes if fcalls(n, f2, "read")]
        OLDp, SIZEp = PP(OLD), PP(SIZE)
        fo2 = get_folder(idx)

        def num_format():
            """struct format with which _read_num_extra_leases decodes the count in front of the block."""
            g = idx.func(MSF + "._read_num_extra_leases")
            fm = {_fold(fo2, sc[0], g) for sc in (struct_call(x, "unpack") for x in func_own_nodes(g)) if sc}
            if len(fm) != 1 or not isinstance(list(fm)[0], str):
                raise AnalysisError("_read_num_extra_leases: the format of the extra-lease count is not a single constant")
            return fm.pop()

        def piece(n, e):
            """The part of the extra-lease block that expression e (evaluated at node n) holds ->
            {kind, rn: node of this function at which the bytes are obtained, size: Poly, misplaced(delta) -> [(witness)]}:
              raw     f.read(k) of this function: the k bytes at the position of the read;
              helper  self.h(f) of a method that returns f.read(k) without writing: the k bytes at the helper's seek;
              count   struct.pack(fmt, self._read_num_extra_leases(f)) with the format the reader decodes: the count
                      field, i.e. the first calcsize(fmt) bytes of the block.
            None when e is none of these."""
            dn, a = def_of(cnm, n, e)
            if a is None:
                return None
            at = dn or n
            if isinstance(a, ast.Call):
                for m in reads:
                    if a in fcalls(m, f2, "read") and len(a.args) == 1:
                        try:
                            size = cnm.at(m).poly(a.args[0])
                        except Exception:
                            return None
                        return dict(kind="raw", rn=m, size=size, node=a,
                                    misplaced=lambda d, m=m: unpositioned(ccfg, cnm, f2, m, str(OLDp + d)))
                nm = call_name(a)
                if nm.startswith("self.") and nm.count(".") == 1 and len(a.args) == 1 and not a.keywords \
                        and isinstance(a.args[0], ast.Name) and a.args[0].id == f2 and cs.cls is not None:
                    h = cs.cls.lookup(nm[5:])
                    if h is None or h is cs:
                        return None
                    hp = first_positional_params(h)
                    if len(hp) != 1:
                        return None
                    if hp[0] != f2:
                        raise AnalysisError("%s names the file %s, %s names it %s: the helper's reads are not compared" % (
                            short(h), hp[0], short(cs), f2))
                    hcfg, hnm = h.cfg(), FlowNorm(h)
                    rets = hcfg.find(is_return)
                    if len(rets) != 1 or rets[0].ast.value is None or any(
                            call_tail(c) in ("write", "truncate", "writelines") or (call_name(c).startswith("self.") and call_name(c)[5:] not in (
                                "_read_extra_lease_offset", "_read_num_extra_leases", "_read_data_length"))
                            for x in hcfg.nodes for c in node_calls(x)):
                        return None
                    hd, hv = def_of(hnm, rets[0], rets[0].ast.value)
                    hm = hd or rets[0]
                    if not (isinstance(hv, ast.Call) and hv in fcalls(hm, f2, "read") and len(hv.args) == 1):
                        return None
                    try:
                        size = hnm.at(hm).poly(hv.args[0])
                    except Exception:
                        return None
                    return dict(kind="helper", rn=at, size=size, node=a,
                                misplaced=lambda d, hm=hm, hcfg=hcfg, hnm=hnm: unpositioned(hcfg, hnm, f2, hm, str(OLDp + d)))
                sc = struct_call(a, "pack")
                if sc and len(sc[1]) == 1 and poly_at(cnm, at, sc[1][0]) == P("self._read_num_extra_leases(%s)" % f2):
                    fm = _fold(fo2, sc[0], cs)
                    if not isinstance(fm, str) or fm != num_format():
                        return None
                    vd = def_of(cnm, at, sc[1][0])[0]
                    return dict(kind="count", rn=vd or at, size=Poly.const(struct_calcsize(fm)), node=a,
                                misplaced=lambda d: [] if str(d) == "0" else [(None, None)])
            return None

        def size_of(n, e):
            """Poly of e at node n in which len(X), X holding a piece read from the file, stands for the size read."""
            import copy
            e2, found = copy.deepcopy(e), []

            class L(ast.NodeTransformer):
                def visit_Call(self, c):
                    if isinstance(c.func, ast.Name) and c.func.id == "len" and len(c.args) == 1 and not c.keywords:
                        orig = c.args[0]
                        if isinstance(orig, ast.Name):
                            p_ = piece(n, orig)
                            if p_ is not None and p_["kind"] in ("raw", "helper"):
                                found.append(p_["size"])
                                return ast.copy_location(ast.Name(id="len__piece%d" % (len(found) - 1), ctx=ast.Load()), c)
                    return self.generic_visit(c)
            e2 = L().visit(e2)
            try:
                pl = cnm.at(n).poly(e2)
            except Exception:
                return None
            out = Poly()
            for k, v in pl.t.items():
                ph = [x for x in k if x.startswith("len__piece")]
                if not ph:
                    out = out + Poly({k: v})
                elif len(k) == 1:
                    out = out + found[int(k[0][len("len__piece"):])] * Poly.const(v)
                else:
                    return None
            return out

        back, zeros = [], []
        for n in ccfg.nodes:
            ws = fcalls(n, f2, "write")
            if len(ws) > 1:
                raise AnalysisError("_change_container_size: several file writes in one statement")
            for c in ws:
                a = def_of(cnm, n, c.args[0])[1] if len(c.args) == 1 else None
                pc = piece(n, c.args[0]) if len(c.args) == 1 else None
                if a is not None and zero_count(a) is not None:
                    zeros.append((n, c, zero_count(a)))
                elif pc is not None:
                    back.append((n, c, pc))
                else:
                    r.violation(cs, cs.loc(c), "_change_container_size writes %s: neither the lease bytes it read nor a "
                                "zero fill" % src(cs, c.args[0] if c.args else c))
        r.site(cs, None, "lease block read")
        r.site(cs, None, "lease block write-back")
        r.site(cs, None, "extra-lease offset update")
        # where inside the block each write-back lands: the first one is positioned by seek(DATA_OFFSET + new size), the
        # next one continues where the previous write-back stopped (no file operation in between)
        delta = {}
        for (n, c, pc) in back:
            if not unpositioned(ccfg, cnm, f2, n, P(NEW)):
                delta[n.id] = Poly()
        progress = True
        while progress:
            progress = False
            for (n, c, pc) in back:
                if n.id in delta:
                    continue
                for (pn, _c, ppc) in back:
                    if pn.id in delta and pn is not n and not find_path_avoiding(
                            ccfg, lambda x, n=n: x is n, gate_node=lambda x, pn=pn: x is pn, kill=lambda x: bool(fileops(x, f2))):
                        delta[n.id] = delta[pn.id] + ppc["size"]
                        progress = True
                        break
        total = Poly()
        for (n, c, pc) in back:
            a = pc["node"]
            if n.id not in delta:
                for (t, w) in unpositioned(ccfg, cnm, f2, n, P(NEW)):
                    r.violation(cs, cs.loc(c), "lease block is not written back at DATA_OFFSET + new_container_size "
                                "(path: %s)" % w.brief(), w)
                continue
            total = total + pc["size"]
            for (t, w) in pc["misplaced"](delta[n.id]):
                if w is None:
                    r.violation(cs, cs.loc(c), "the extra-lease count is written back %s bytes into the block, not at its start" % delta[n.id])
                elif len(back) == 1:
                    r.violation(cs, cs.loc(a), "lease block is not read at the old extra-lease offset (path: %s)" % w.brief(), w)
                else:
                    r.violation(cs, cs.loc(a), "the bytes written back %s bytes into the lease block were not read %s bytes behind the old "
                                "extra-lease offset (path: %s)" % (delta[n.id], delta[n.id], w.brief()), w)
            rn = pc["rn"]
            # zeroing of the old area: after the read, before the write-back (the areas may overlap)
            for (zn, zc, cnt) in zeros:
                for (t, w) in find_path_avoiding(ccfg, lambda x: x is zn, gate_node=lambda x: x is rn):
                    r.violation(cs, cs.loc(zc), "old lease area is zeroed before it was read (path: %s)" % w.brief(), w)
                vis, par = explore(ccfg, 0, lambda a_, l_, b_, s_: None if l_ == "exc" else 0, start=n)
                if any(i == zn.id for (i, _s) in vis if i != n.id):
                    r.violation(cs, cs.loc(zc), "old lease area is zeroed after the write-back: overlapping areas lose leases")
            # the header still has to point at the old block when it is read
            for un in ccfg.nodes:
                if self_call(un, "_write_extra_lease_offset"):
                    vis, par = explore(ccfg, 0, lambda a_, l_, b_, s_: None if l_ == "exc" else 0, start=un)
                    if any(i == rn.id for (i, _s) in vis if i != un.id):
                        r.violation(cs, cs.loc(a), "the lease block is read after the extra-lease offset in the header was moved")
        if back and all(n.id in delta for (n, c, pc) in back):
            if len(back) == 1 and back[0][2]["kind"] == "raw":
                a = back[0][2]["node"]
                r.require(total == SIZEp, cs, cs.loc(a),
                          "lease block read has size %s, not 4 + num_extra_leases * LEASE_SIZE" % src(cs, a.args[0] if a.args else a))
            else:
                r.require(total == SIZEp, cs, cs.loc(back[0][1]),
                          "the pieces written back have size %s together, not 4 + num_extra_leases * LEASE_SIZE" % total)
        for (zn, zc, cnt) in zeros:
            for (t, w) in unpositioned(ccfg, cnm, f2, zn, P(OLD)):
                r.violation(cs, cs.loc(zc), "zero fill in _change_container_size is not at the old extra-lease offset "
                            "(path: %s)" % w.brief(), w)
            r.require(size_of(zn, cnt) == SIZEp, cs, cs.loc(zc), "zero fill covers %s bytes, not the lease "
                      "block size" % src(cs, cnt))
        shrink = le_facts("%s - (%s)" % (OLD, NEW))
        keep = lambda n, lab: lin_fact(cnm, n, lab) in shrink
        if not back:
            for (n, w) in find_path_avoiding(ccfg, lambda n: n.kind == "exit", gate_node=lambda n: False, gate_edge=keep):
                r.violation(cs, cs.loc(), "_change_container_size can return without writing the lease block back "
                            "(path: %s)" % w.brief(), w)
        for (bn_, _c, _pc) in back:
            for (n, w) in find_path_avoiding(ccfg, lambda n: n.kind == "exit", gate_node=lambda n, bn_=bn_: n is bn_, gate_edge=keep):
                r.violation(cs, cs.loc(), "_change_container_size can return without writing the lease block back "
                            "(path: %s)" % w.brief(), w)
                break

        def upd(n):
            return any(len(c.args) == 2 and poly_at(cnm, n, c.args[1]) == P(NEW) for c in self_call(n, "_write_extra_lease_offset", f2))
        for n in ccfg.nodes:
            for c in self_call(n, "_write_extra_lease_offset"):
                r.require(len(c.args) == 2 and poly_at(cnm, n, c.args[1]) == P(NEW), cs, cs.loc(c),
                          "extra-lease offset is set to %s, not DATA_OFFSET + new_container_size" % src(cs, c.args[-1]))
        for (n, w) in find_path_avoiding(ccfg, lambda n: n.kind == "exit", gate_node=upd, gate_edge=keep):
            r.violation(cs, cs.loc(), "_change_container_size can return without recording the new extra-lease offset "
                        "(path: %s)" % w.brief(), w)
        r.count(len(ccfg.nodes))

    # -- 3. clipped reads -------------------------------------------------------
    with ctx.rule("C23.3", "R1", "_read_share_data clips to max(0, data_length - offset), returns b'' only for length 0, "
                  "reads at DATA_OFFSET + offset; readv passes (offset, length)", expected=4) as r:
        fn = idx.func(MSF + "._read_share_data")
        f, off, ln = first_positional_params(fn)[:3]
        cfg = fn.cfg()
        fnm = FlowNorm(fn)
        DL = "self._read_data_length(%s)" % f
        rd = [n for n in cfg.nodes if fcalls(n, f, "read")]
        if not rd:
            raise AnchorVanished("no f.read in _read_share_data")
        within = le_facts("%s - %s - %s" % (DL, off, ln))
        clipv = norm_src("max(0, %s - %s)" % (DL, off))

        # the clip applied unconditionally: min(length, ..) leaves a length that fits as it is, so
        # length = max(0, min(length, data_length - offset)) is the guarded assignment in one expression
        clipvs = {clipv, norm_src("max(0, min(%s, %s - %s))" % (ln, DL, off)), norm_src("min(%s, max(0, %s - %s))" % (ln, DL, off))}

        def clip(n):
            v = assign_value(n, ln)
            return v is not None and fnm.norm(n, v) in clipvs
        for n in rd:
            r.site(fn, n.ast, "read")
            c = fcalls(n, f, "read")[0]
            r.require(len(c.args) == 1 and isinstance(c.args[0], ast.Name) and c.args[0].id == ln, fn, fn.loc(c),
                      "reads %s bytes instead of the clipped length" % src(fn, c.args[0] if c.args else c))
            for (t, w) in find_path_avoiding(cfg, lambda x: x is n, gate_node=clip,
                                             gate_edge=lambda m, lab: lin_fact(fnm, m, lab) in within,
                                             kill=stores(ln)):
                r.violation(fn, fn.loc(c), "read is not clipped at the current data length (path: %s)" % w.brief(), w)
            for (t, w) in unpositioned(cfg, fnm, f, n, P("self.DATA_OFFSET + %s" % off)):
                r.violation(fn, fn.loc(c), "data is not read at DATA_OFFSET + offset (path: %s)" % w.brief(), w)
        r.count(len(cfg.nodes))
        # returns: the bytes read, or b'' under length == 0
        for n in cfg.find(is_return):
            r.site(fn, n.ast, "return")
            v = def_of(fnm, n, n.ast.value)[1] if n.ast.value is not None else None
            if isinstance(v, ast.Call) and any(v in fcalls(m, f, "read") for m in rd):
                continue
            if isinstance(v, ast.Constant) and v.value == b"":
                empty = lambda m, lab: fnm.edge_fact(m, lab) in (("==", "0", ln), ("==", ln, "0"))
                for (t, w) in find_path_avoiding(cfg, lambda x: x is n, gate_edge=empty, kill=stores(ln)):
                    r.violation(fn, fn.loc(n.ast), "returns b'' without having established length == 0 (path: %s)" % w.brief(), w)
                continue
            r.violation(fn, fn.loc(n.ast), "returns %s, not the bytes read from the share" % src(fn, n.ast.value))
        check_assumes(r, fn, cfg, fnm, "%s - %s - %s" % (DL, off, ln), "a read that ends exactly at the end of the data")
        check_param_assumes(r, fn, cfg, fnm, {off, ln}, "a read with a legal (zero or positive) %s")
        rv = idx.func(MSF + ".readv")
        _pairs_loop(r, rv, first_positional_params(rv)[0], "_read_share_data", "read vector")
        # readv returns the list to which every clipped read was appended
        rets = [n for n in func_own_nodes(rv) if isinstance(n, ast.Return)]
        acc = attr_path(rets[0].value) if len(rets) == 1 and rets[0].value is not None else None
        apps = [c for c in calls_in_func(rv, "append") if isinstance(c.func, ast.Attribute) and attr_path(c.func.value) == acc
                and len(c.args) == 1 and isinstance(c.args[0], ast.Call) and call_name(c.args[0]) == "self._read_share_data"]
        r.require(acc is not None and len(apps) == 1, rv, rv.loc(), "readv does not return the list of the data it read")

    # -- 4. writev --------------------------------------------------------------
    with ctx.rule("C23.4", "R1/R3", "writev applies every (offset, data) pair, then truncates only through the length "
                  "field under new_length < current length", expected=2) as r:
        fn = idx.func(MSF + ".writev")
        dv, nl = first_positional_params(fn)[:2]
        cfg = fn.cfg()
        fnm = FlowNorm(fn)
        fv = _pairs_loop(r, fn, dv, "_write_share_data", "write vector")
        allowed = {"_write_share_data", "_read_data_length", "_write_data_length"}
        for n in cfg.nodes:
            for c in fileops(n, fv):
                t = call_tail(c)
                if call_name(c) != "self." + t or t not in allowed:
                    r.violation(fn, fn.loc(c), "writev performs %s on the share file: only data writes and the length "
                                "field may change" % src(fn, c))
        CUR = "self._read_data_length(%s)" % fv
        tr = [n for n in cfg.nodes if self_call(n, "_write_data_length")]
        r.site(fn, None, "truncation obligation")
        shorter = {("<", nl, CUR), ("<=", nl, CUR)}
        for n in tr:
            c = self_call(n, "_write_data_length")[0]
            r.require(len(c.args) == 2 and isinstance(c.args[1], ast.Name) and c.args[1].id == nl, fn, fn.loc(c),
                      "length field is set to %s, not new_length" % src(fn, c.args[-1]))
            for (t, w) in find_path_avoiding(cfg, lambda x: x is n, gate_edge=lambda m, lab: fnm.edge_fact(m, lab) in shorter):
                r.violation(fn, fn.loc(c), "length field is written without new_length < current length: a larger "
                            "new_length would extend the share with stale bytes (path: %s)" % w.brief(), w)
            def fresh(m):
                """the current length is read here: into a local, or inside the comparison new_length < <read> itself"""
                if not self_call(m, "_read_data_length", fv):
                    return False
                if isinstance(m.ast, ast.Assign):
                    return True
                return m.kind == "test" and not m.assume and any(
                    isinstance(lab, tuple) and fnm.edge_fact(m, lab) in shorter for (_d, lab) in cfg.succ[m.id])
            for (t, w) in find_path_avoiding(cfg, lambda x: x is n, gate_node=fresh, kill=has_call("_write_share_data")):
                r.violation(fn, fn.loc(c), "truncation compares against a data length read before the data writes "
                            "(path: %s)" % w.brief(), w)
        skip = {("is", "None", nl), ("<=", CUR, nl), ("<", CUR, nl)}
        tn = {n.id for n in tr}
        for (n, w) in find_path_avoiding(cfg, lambda n: n.kind == "exit", gate_node=lambda n: n.id in tn,
                                         gate_edge=lambda m, lab: fnm.edge_fact(m, lab) in skip):
            r.violation(fn, fn.loc(), "writev can return without truncating to a smaller new_length (path: %s)" % w.brief(), w)
        r.count(len(cfg.nodes))

    # -- 5. new_length == 0 deletes ---------------------------------------------
    with ctx.rule("C23.5", "R3", "_evaluate_write_vectors: new_length == 0 unlinks the share and never calls writev; "
                  "otherwise writev(datav, new_length) on an existing or newly allocated share", expected=2) as r:
        fn = idx.func(SRV + "._evaluate_write_vectors")
        ps = first_positional_params(fn)
        tw, shares = ps[2], ps[3]
        cfg = fn.cfg()
        fnm = FlowNorm(fn)
        wv = [n for n in cfg.nodes if calls_at(n, "writev")]
        if len(wv) != 1:
            raise AnchorVanished("expected exactly one writev call in _evaluate_write_vectors, found %d" % len(wv))
        wn = wv[0]

        def body_of(h):
            seen, work = set(), [d for (d, l) in cfg.succ[h.id] if l == "iter"]
            while work:
                x = work.pop()
                if x in seen or x == h.id:
                    continue
                seen.add(x)
                work.extend(d for (d, l) in cfg.succ[x] if l != "exc")
            return seen
        # the loop that applies the vectors (a separate validation pass over the same dict is not it)
        heads = [n for n in cfg.nodes if n.kind == "iter" and fnm.norm(n, n.ast.iter) in (tw, tw + ".items()", tw + ".keys()")
                 and wn.id in body_of(n)]
        if len(heads) != 1:
            raise AnchorVanished("loop over test_and_write_vectors applying writev not found in _evaluate_write_vectors")
        head = heads[0]
        wc = calls_at(wn, "writev")[0]
        r.site(fn, wc, "writev")
        tgt = head.ast.target
        if isinstance(tgt, ast.Name):
            sn = tgt.id
            want = (norm_src("%s[%s][1]" % (tw, sn)), norm_src("%s[%s][2]" % (tw, sn)))
        elif isinstance(tgt, ast.Tuple) and len(tgt.elts) == 2 and isinstance(tgt.elts[0], ast.Name) \
                and isinstance(tgt.elts[1], ast.Tuple) and len(tgt.elts[1].elts) == 3 \
                and fnm.norm(head, head.ast.iter) == tw + ".items()":
            sn = tgt.elts[0].id
            want = tuple(e.id if isinstance(e, ast.Name) else "?" for e in tgt.elts[1].elts[1:])
        else:
            raise AnchorVanished("unrecognised loop target in _evaluate_write_vectors")
        got = tuple(fnm.norm(wn, a) for a in wc.args)
        r.require(len(wc.args) == 2 and not wc.keywords and got == want, fn, fn.loc(wc),
                  "writev is given %s, not (datav, new_length) of this share's vector" % src(fn, wc))
        recv = fnm.norm(wn, wc.func.value)
        SH = "%s[%s]" % (shares, sn)
        r.require(recv == SH, fn, fn.loc(wc), "writev is applied to %s, not to %s" % (recv, SH))
        nlv = want[1]
        rebind = lambda n: n is head

        def zero_fact(n, lab):
            f_ = fnm.edge_fact(n, lab)
            if f_ and f_[0] in ("==", "!=") and {f_[1], f_[2]} == {"0", nlv}:
                return f_[0]
            return None
        present = lambda n, lab: fnm.edge_fact(n, lab) == ("in", sn, shares)
        absent = lambda n, lab: fnm.edge_fact(n, lab) == ("not in", sn, shares)
        for (t, w) in find_path_avoiding(cfg, lambda x: x is wn, gate_edge=present,
                                         gate_node=lambda n: (shares + "[]") in node_stores(n), kill=rebind):
            r.violation(fn, fn.loc(wc), "writev on a share that neither exists nor was allocated (path: %s)" % w.brief(), w)
        for n in cfg.nodes:
            if (shares + "[]") in node_stores(n) and isinstance(n.ast, ast.Assign):
                v = fnm.resolve(n, n.ast.value)
                r.require(isinstance(v, ast.Call) and call_name(v) == "self._allocate_slot_share", fn, fn.loc(n.ast),
                          "shares[...] is bound to %s, not to a newly allocated slot share" % src(fn, n.ast.value))

        def is_unlink(n):
            return any(fnm.norm(n, c.func.value) == SH for c in calls_at(n, "unlink") if isinstance(c.func, ast.Attribute))
        un = [n for n in cfg.nodes if calls_at(n, "unlink")]
        r.site(fn, None, "unlink obligation (%d unlink call(s))" % len(un))
        for n in un:
            r.require(is_unlink(n), fn, fn.loc(n.ast), "unlink is applied to something other than %s" % SH)

        # directory clean-up inside the apply loop must not be able to abort it: os.rmdir of a directory that still
        # holds other shares raises OSError, and the remaining write vectors of the request are never applied
        for n in cfg.nodes:
            for c in calls_at(n, "rmdir"):
                if not c.args or n.id not in body_of(head):
                    continue
                dirn = fnm.norm(n, c.args[0])
                if any(l == "exc" and cfg.nodes[d].kind == "except" for (d, l) in cfg.succ[n.id]):
                    continue        # a handler takes the failure

                def is_empty(m, lab, dirn=dirn):
                    f_ = fnm.edge_fact(m, lab)
                    if not f_:
                        return False
                    for x in ast.walk(m.ast):
                        if isinstance(x, ast.Call) and call_tail(x) == "listdir" and x.args and fnm.norm(m, x.args[0]) == dirn:
                            ls = fnm.norm(m, x)
                            if f_ == ("false", ls, None) or (f_[0] == "==" and {f_[1], f_[2]} in ({"[]", ls}, {"0", "len(%s)" % ls})):
                                return True
                    return False
                for (t, w) in find_path_avoiding(cfg, lambda x: x is n, gate_edge=is_empty, kill=rebind):
                    r.violation(fn, fn.loc(c), "_evaluate_write_vectors: %s is not guarded by the directory being empty: with "
                                "other shares left it raises and the remaining write vectors are dropped (path: %s)" % (
                                    src(fn, c), w.brief()), w)

        # typestate per iteration: mode (None / Z / NZ), unlinked, written, absent
        def transfer(n, lab, nxt, st):
            if st[0] == "END":
                return None
            mode, unl, wr, ab = st
            if lab == "exc":
                return None
            if n is head:
                if lab != "iter":
                    return None
            z = zero_fact(n, lab)
            if z is not None:
                m2 = "Z" if z == "==" else "NZ"
                if mode is not None and mode != m2:
                    return None          # contradicts an earlier test of the same value
                mode = m2
            if present(n, lab) and ab:
                return None
            if absent(n, lab):
                ab = True
            if n is not head and (shares + "[]") in node_stores(n):
                ab = False
            if calls_at(n, "unlink"):
                unl = True
            if n is wn:
                wr = True
            if nxt is head or nxt.kind == "exit" or is_return(nxt):
                return ("END", mode, unl, wr, ab)
            return (mode, unl, wr, ab)
        visited, parent = explore(cfg, (None, False, False, False), transfer, start=head)
        r.count(len(visited))
        seen = set()
        for (nid, st) in sorted(visited, key=lambda x: (x[0], repr(x[1]))):
            if st[0] != "END":
                continue
            _e, mode, unl, wr, ab = st
            msg = None
            if mode is None:
                msg = "a write vector is applied without distinguishing new_length == 0"
            elif mode == "Z" and wr:
                msg = "writev is called although new_length == 0 (the share must be deleted)"
            elif mode == "Z" and not unl and not ab:
                msg = "new_length == 0 on an existing share does not unlink it"
            elif mode == "NZ" and unl:
                msg = "a share is unlinked although new_length != 0"
            elif mode == "NZ" and not wr:
                msg = "a write vector with new_length != 0 is not applied"
            if msg and msg not in seen:
                seen.add(msg)
                w = witness(cfg, parent, (nid, st))
                r.violation(fn, fn.loc(wc), "_evaluate_write_vectors: %s (path: %s)" % (msg, w.brief()), w)

    # -- 6. lease isolation: the write-site table --------------------------------
    with ctx.rule("C23.6", "R4/R5", "file writes reachable from MutableShareFile.writev are the six classified sites; "
                  "no lease-record writer is reachable; length / extra-lease-offset field accessors agree with each "
                  "other and with the packed header", expected=13) as r:
        root = idx.func(MSF + ".writev")
        reach = cg.reachable([root])
        table = {"_write_share_data": 2, "_change_container_size": 2, "_write_data_length": 1, "_write_extra_lease_offset": 1}
        lease_writers = {"_write_lease_record", "_write_num_extra_leases", "add_lease", "renew_lease", "cancel_lease",
                         "add_or_renew_lease", "_pack_leases", "create", "unlink"}
        # helpers of _write_share_data that C23.1 / C23.2 read as part of it: their writes are classified there, as long as
        # nothing else reachable from writev calls (or mentions) them
        wsd, followed = wsd_with_helpers(idx)
        wsd_q = wsd.qual
        for hq in sorted(followed):
            hname = idx.funcs[hq].name
            for q in sorted(reach):
                if q == wsd_q or q in followed:
                    continue
                g = idx.funcs[q]
                if any(isinstance(x, ast.Attribute) and x.attr == hname for x in func_own_nodes(g)):
                    followed = followed - {hq}
        for q in sorted(reach):
            g = idx.funcs[q]
            if q in followed:
                continue                     # counted with _write_share_data below
            if q == wsd_q:
                g = wsd
            if g.name in lease_writers:
                r.violation(root, root.loc(), "%s is reachable from writev: a data write can alter lease records" % short(g))
            sites = [c for c in calls_in_func(g) if call_tail(c) in ("write", "truncate", "writelines")
                     and isinstance(c.func, ast.Attribute)]
            for c in sites:
                r.site(g, c, "file write")
            if g.cls is None or g.cls.name != "MutableShareFile" or g.name not in table:
                for c in sites:
                    r.violation(g, g.loc(c), "unclassified file write reachable from writev: %s in %s" % (src(g, c), short(g)))
            elif g.name == "_change_container_size":
                # C23.2 classifies every f.write of this function (zero fill of the old area / a piece of the lease block
                # written back, however many pieces the block is moved in) and reports any other; anything that is not a
                # plain write of the file it was handed is not classified there
                fpar = first_positional_params(g)[:1]
                for c in sites:
                    if not (call_tail(c) == "write" and isinstance(c.func.value, ast.Name) and [c.func.value.id] == fpar):
                        r.violation(g, g.loc(c), "unclassified file write reachable from writev: %s in %s" % (src(g, c), short(g)))
                if len(sites) < table[g.name]:
                    r.violation(g, g.loc(), "%s has %d file writes, %d are classified (see C23.1/C23.2)" % (
                        short(g), len(sites), table[g.name]))
            elif len(sites) != table[g.name]:
                r.violation(g, g.loc(), "%s has %d file writes, %d are classified (see C23.1/C23.2)" % (
                    short(g), len(sites), table[g.name]))
        # header field accessors
        fo = get_folder(idx)
        ci = idx.cls(MSF)
        consts = {}
        for a in ("DATA_LENGTH_OFFSET", "EXTRA_LEASE_OFFSET", "HEADER_SIZE", "LEASE_SIZE", "DATA_OFFSET"):
            try:
                consts[a] = fo.class_attr(ci, a)
            except NotConstant as e:
                raise AnalysisError("cannot fold MutableShareFile.%s: %s" % (a, e))
        for (field, rname, wname) in (("DATA_LENGTH_OFFSET", "_read_data_length", "_write_data_length"),
                                      ("EXTRA_LEASE_OFFSET", "_read_extra_lease_offset", "_write_extra_lease_offset")):
            fmts = []
            for name in (rname, wname):
                g = idx.func(MSF + "." + name)
                ps = first_positional_params(g)
                gcfg = g.cfg()
                gnm = FlowNorm(g)
                meth = "read" if name == rname else "write"
                ops = [n for n in gcfg.nodes if fcalls(n, ps[0], meth)]
                if len(ops) != 1:
                    raise AnchorVanished("%s: expected one f.%s" % (short(g), meth))
                r.site(g, ops[0].ast, "header field " + meth)
                for (t, w) in unpositioned(gcfg, gnm, ps[0], ops[0], P("self." + field)):
                    r.violation(g, g.loc(ops[0].ast), "%s does not access the field at %s" % (short(g), field), w)
                c = fcalls(ops[0], ps[0], meth)[0]
                if meth == "write":
                    sc = struct_call(gnm.resolve(ops[0], c.args[0]), "pack") if c.args else None
                    ok = sc is not None and len(sc[1]) == 1 and isinstance(sc[1][0], ast.Name) and sc[1][0].id == ps[1]
                    r.require(ok, g, g.loc(c), "%s does not write struct.pack(fmt, %s)" % (short(g), ps[1] if len(ps) > 1 else "?"))
                    if sc:
                        fmts.append(_fold(fo, sc[0], g))
                else:
                    sc = None
                    for x in func_own_nodes(g):
                        s2 = struct_call(x, "unpack")
                        if s2 and len(s2[1]) == 1 and gnm.resolve(ops[0], s2[1][0]) is not None \
                                and c in [y for y in own_nodes(s2[1][0]) if isinstance(y, ast.Call)]:
                            sc = s2
                    r.require(sc is not None, g, g.loc(c), "%s does not struct.unpack the bytes it read" % short(g))
                    if sc:
                        fm = _fold(fo, sc[0], g)
                        fmts.append(fm)
                        size = _fold(fo, c.args[0], g) if c.args else None
                        r.require(isinstance(fm, str) and size == struct_calcsize(fm), g, g.loc(c),
                                  "%s reads %r bytes for format %r" % (short(g), size, fm))
                        rets = [x for x in gcfg.find(is_return)]
                        r.require(len(rets) == 1 and _unpacked_first(g, rets[0].ast.value, sc), g, g.loc(),
                                  "%s does not return the unpacked field" % short(g))
            r.require(len(fmts) == 2 and fmts[0] == fmts[1] and fmts[0] == ">Q", g, g.loc(),
                      "reader and writer of %s disagree on the field format: %r" % (field, fmts))
        # the header packed by mutable_schema._header puts 0 (data length) and extra_lease_offset at these offsets
        hd = idx.func("storage.mutable_schema:_header")
        hps = hd.params
        packs = [c for c in calls_in_func(hd, "pack") if struct_call(c, "pack") and len(c.args) > 2]
        if not packs:
            raise AnchorVanished("mutable_schema._header no longer packs the fixed header")
        pc = packs[0]
        r.site(hd, pc, "header pack")
        fmt = _fold(fo, pc.args[0], hd)
        vals = pc.args[1:]
        fields = struct_fields(fmt) if isinstance(fmt, str) else []
        r.require(len(fields) == len(vals) == 5, hd, hd.loc(pc), "header format %r does not have five fields" % (fmt,))
        if len(fields) == len(vals) == 5:
            offs = []
            pre = fmt[0] if fmt[0] in "<>=!@" else ""
            body = _split_fmt(fmt)
            for i in range(len(body)):
                offs.append(struct_calcsize(pre + "".join(body[:i])))
            zero_at = [i for i, v in enumerate(vals) if isinstance(v, ast.Constant) and v.value == 0]
            elo_at = [i for i, v in enumerate(vals) if isinstance(v, ast.Name) and v.id == "extra_lease_offset"]
            r.require(len(zero_at) == 1 and offs[zero_at[0]] == consts["DATA_LENGTH_OFFSET"] and fields[zero_at[0]] == ("Q", 1),
                      hd, hd.loc(pc), "a new container's data length (0) is not packed as Q at DATA_LENGTH_OFFSET=%d" % consts["DATA_LENGTH_OFFSET"])
            r.require(len(elo_at) == 1 and offs[elo_at[0]] == consts["EXTRA_LEASE_OFFSET"] and fields[elo_at[0]] == ("Q", 1),
                      hd, hd.loc(pc), "extra_lease_offset is not packed as Q at EXTRA_LEASE_OFFSET=%d" % consts["EXTRA_LEASE_OFFSET"])
            r.require(struct_calcsize(fmt) == consts["HEADER_SIZE"], hd, hd.loc(pc), "packed header size != HEADER_SIZE")
        r.require(consts["DATA_OFFSET"] == consts["HEADER_SIZE"] + 4 * consts["LEASE_SIZE"], ci.qual, "%s:%d" % (
            ci.module.relpath, ci.node.lineno), "DATA_OFFSET != HEADER_SIZE + 4 * LEASE_SIZE")
        # the initial extra-lease offset of a fresh container equals DATA_OFFSET (empty data region)
        ms = idx.module("allmydata.storage.mutable_schema")
        lease_fmt = fo.module_const("storage.lease", "MUTABLE_FORMAT")
        msz = idx.func("storage.lease:LeaseInfo.mutable_size")
        mret = [n for n in func_own_nodes(msz) if isinstance(n, ast.Return)]
        if len(mret) != 1 or _fold(fo, mret[0].value, msz) != struct_calcsize(lease_fmt):
            raise AnalysisError("LeaseInfo.mutable_size() is not calcsize(MUTABLE_FORMAT)")
        e = ms.assigns.get("_EXTRA_LEASE_OFFSET")
        if not e:
            raise AnchorVanished("mutable_schema._EXTRA_LEASE_OFFSET")
        r.site("mutable_schema._EXTRA_LEASE_OFFSET")
        sub = _Subst(lambda c: isinstance(c.func, ast.Attribute) and c.func.attr == "mutable_size"
                     and isinstance(c.func.value, ast.Call) and call_name(c.func.value) == "LeaseInfo", struct_calcsize(lease_fmt))
        import copy
        try:
            init_elo = fo.fold(sub.visit(copy.deepcopy(e[-1])), ms)
        except NotConstant as ex:
            raise AnalysisError("cannot fold mutable_schema._EXTRA_LEASE_OFFSET: %s" % ex)
        r.require(init_elo == consts["DATA_OFFSET"], "allmydata.storage.mutable_schema:_EXTRA_LEASE_OFFSET",
                  "%s:%d" % (ms.relpath, e[-1].lineno),
                  "a fresh container's extra-lease offset is %r but data starts at DATA_OFFSET=%d" % (init_elo, consts["DATA_OFFSET"]))
        # the complete initial header: fixed part, four blank lease slots, extra-lease count 0
        hret = [n for n in func_own_nodes(hd) if isinstance(n, ast.Return)]
        hdefs = unique_defs(hd)
        parts = None
        if len(hret) == 1 and isinstance(hret[0].value, ast.Call) and call_tail(hret[0].value) == "join" \
                and len(hret[0].value.args) == 1 and isinstance(hret[0].value.args[0], (ast.List, ast.Tuple)):
            parts = [hdefs.get(e.id) if isinstance(e, ast.Name) else e for e in hret[0].value.args[0].elts]
        if not parts or len(parts) != 3 or any(p_ is None for p_ in parts):
            raise AnalysisError("mutable_schema._header: shape of the returned header not recognised")
        r.site(hd, hret[0], "initial header layout")
        r.require(parts[0] is pc, hd, hd.loc(hret[0]), "the header does not start with the packed fixed header")
        try:
            blank = fo.fold(sub.visit(copy.deepcopy(parts[1])), ms)
        except NotConstant:
            blank = None
        r.require(isinstance(blank, bytes) and len(blank) == 4 * consts["LEASE_SIZE"] and not blank.strip(b"\x00"), hd, hd.loc(hret[0]),
                  "a fresh container does not have exactly four blank lease slots (%s bytes) after the fixed header" % (
                      len(blank) if isinstance(blank, bytes) else "?"))
        cnt = struct_call(parts[2], "pack")
        r.require(cnt is not None and _fold(fo, cnt[0], hd) == ">L" and len(cnt[1]) == 1 and _fold(fo, cnt[1][0], hd) == 0,
                  hd, hd.loc(hret[0]), "a fresh container's extra-lease count is not struct.pack('>L', 0)")
        sh = idx.func("storage.mutable_schema:_Schema.header")
        hc = calls_in_func(sh, "_header")
        r.require(len(hc) == 1 and len(hc[0].args) >= 2 and isinstance(hc[0].args[1], ast.Name)
                  and hc[0].args[1].id == "_EXTRA_LEASE_OFFSET", sh, sh.loc(),
                  "_Schema.header does not pass _EXTRA_LEASE_OFFSET as the initial extra-lease offset")

    # -- 7. test vectors -----------------------------------------------------------
    with ctx.rule("C23.7", "R1", "check_testv compares (==) each vector with _read_share_data of the share / with b'' "
                  "for a missing share; a failing vector makes the verdict False", expected=3) as r:
        tc = idx.func("storage.mutable:testv_compare")
        r.site(tc, None)
        tps = tc.params
        rets = [n for n in func_own_nodes(tc) if isinstance(n, ast.Return)]
        ok = len(rets) == 1 and isinstance(rets[0].value, ast.Compare) and len(rets[0].value.ops) == 1 \
            and isinstance(rets[0].value.ops[0], ast.Eq) \
            and {attr_path(rets[0].value.left), attr_path(rets[0].value.comparators[0])} == {tps[0], tps[2]}
        r.require(ok, tc, tc.loc(), "testv_compare does not return (data == specimen)")
        if len(tps) > 1:
            tcfg = tc.cfg()
            for n in tcfg.nodes:
                if n.kind == "test" and n.assume:
                    r.require(accepts_eq(n.ast, tps[1], pass_polarity(tcfg, n)) is not False, tc, tc.loc(n.ast),
                              "testv_compare: the assertion %s rejects the operator b'eq': every test vector fails" % src(tc, n.ast))
        for qual, empty in ((MSF + ".check_testv", False), ("storage.mutable:EmptyShare.check_testv", True)):
            fn = idx.func(qual)
            tv = first_positional_params(fn)[0]
            cfg = fn.cfg()
            fnm = FlowNorm(fn)
            heads = [n for n in cfg.nodes if n.kind == "iter" and attr_path(n.ast.iter) == tv]
            if len(heads) != 1 or not isinstance(heads[0].ast.target, ast.Tuple) or len(heads[0].ast.target.elts) != 4:
                raise AnchorVanished("%s: loop over the test vector not found" % short(fn))
            names = [attr_path(e) for e in heads[0].ast.target.elts]
            is_cmp = lambda n: n.kind == "test" and bool(calls_at(n, "testv_compare"))
            cn = cfg.find(is_cmp)
            if not cn:
                raise AnchorVanished("%s: no testv_compare test" % short(fn))
            r.site(fn, cn[0].ast)
            for n in cn:
                c = calls_at(n, "testv_compare")[0]
                r.require(len(c.args) == 3 and [attr_path(a) for a in c.args[1:]] == names[2:], fn, fn.loc(c),
                          "testv_compare is not given (data, operator, specimen) of the vector")
                d = fnm.resolve(n, c.args[0]) if c.args else None
                if empty:
                    r.require(isinstance(d, ast.Constant) and d.value == b"", fn, fn.loc(c),
                              "a missing share is compared as %s, not as b''" % src(fn, d))
                else:
                    okd = isinstance(d, ast.Call) and call_name(d) == "self._read_share_data" and len(d.args) == 3 \
                        and [attr_path(a) for a in d.args[1:]] == names[:2]
                    r.require(okd, fn, fn.loc(c), "test vector is compared against %s, not the share's current data at "
                              "(offset, length)" % src(fn, d))
            verdict_monitor(r, fn, is_cmp, "test vector", need_done=False)

    # -- 8. size refusals ------------------------------------------------------------
    with ctx.rule("C23.8", "R1", "a write is refused with DataTooLargeError only on an edge where a sum of request "
                  "quantities exceeds (or reaches) MAX_SIZE", expected=1) as r:
        for qual in (MSF + "._write_share_data", MSF + "._change_container_size", MSF + ".writev",
                     SRV + "._evaluate_write_vectors"):
            fn = quantifiers_as_loops(wsd_with_helpers(idx)[0] if qual == MSF + "._write_share_data" else idx.func(qual))     # `if any(end > MAX_SIZE for ..): raise` read as the loops it abbreviates
            cfg = fn.cfg()
            fnm = FlowNorm(fn)

            def too_big(m, lab, fnm=fnm):
                if m.kind != "test" or not isinstance(lab, tuple) or m.assume:
                    return False
                f_ = cmp_poly(fnm.at(m), m.ast, lab[0] == "T")
                if not f_ or f_[0] not in ("<", "<="):
                    return False
                d = f_[1]
                mx = [k for k in d.t if len(k) == 1 and (k[0] == "MAX_SIZE" or k[0].endswith(".MAX_SIZE"))]
                return len(mx) == 1 and d.t[mx[0]] == -1 and any(k not in ((), mx[0]) for k in d.t) \
                    and all(v > 0 for k, v in d.t.items() if k not in ((), mx[0]))
            for n in cfg.find(raises("DataTooLargeError")):
                r.site(fn, n.ast, "size refusal")
                for (t, w) in find_path_avoiding(cfg, lambda x: x is n, gate_edge=too_big):
                    r.violation(fn, fn.loc(n.ast), "%s refuses a write as too large without having found its end above "
                                "MAX_SIZE: writes of legal size fail (path: %s)" % (short(fn), w.brief()), w)
            r.count(len(cfg.nodes))

    # -- 9. the protocol front ends ----------------------------------------------------
    with ctx.rule("C23.9", "R5", "every server-side protocol entry point (Foolscap remote_*, HTTP handlers) hands StorageServer."
                  "slot_testv_and_readv_and_writev / slot_readv the request's own vectors - per share number, element by "
                  "element, every (offset, length, b'eq', specimen), (offset, data), new_length and (offset, length) from the "
                  "request's own fields, nothing dropped, clipped or recomputed - and answers what the server returned",
                  expected=4) as r:
        _front_ends(r, idx, cg)

    # -- 10. the client half of the same hops ---------------------------------------------
    with ctx.rule("C23.10", "R5", "the IStorageServer adapters (Foolscap, HTTP) and the HTTP client send, per share number and "
                  "element by element, the caller's own (offset, length, specimen), (offset, data), new_length and read vector "
                  "in the places the server reads them from: attrs fields named like the wire keys, TestWriteVectors.asdict "
                  "renaming to test / write / new-length, every share's asdict() in the body", expected=7) as r:
        _client_half(r, idx)


# ------------------------------------------------ protocol front ends (C23.9)
# The byte-array behaviour is what a client sees through a protocol: Foolscap delivers the caller's tuples to
# FoolscapStorageServer.remote_*, the HTTP handlers rebuild them from the decoded CBOR body.  Whatever a front end
# hands to StorageServer is what the share is tested against, written with and read at; a front end that shortens a
# read length, drops an (empty) write, maps new_length 0 to None or reorders a vector makes the share behave unlike
# the array the client operates on although mutable.py is intact.  _Prov evaluates the argument expressions to
# provenance terms (which field of which request element lands where; comprehensions and accumulate-in-a-loop are the
# same term), and the rule compares terms - never statements - with the term of the reference expression below.
_RTW = "slot_testv_and_readv_and_writev"
_READV = "slot_readv"
# the HTTP wire keys are those of the storage protocol specification (and of the CDDL schema the body is validated against)
_HTTP_TW = ('{k: ([(d["offset"], d["size"], b"eq", d["specimen"]) for d in v["test"]], '
            '[(d["offset"], d["data"]) for d in v["write"]], v["new-length"]) '
            'for (k, v) in REQ["test-write-vectors"].items()}')
_HTTP_RV = '[(d["offset"], d["size"]) for d in REQ["read-vector"]]'
_HTTP_ANSWER = '{"success": RES[0], "data": RES[1]}'
_TW_NAMES = {
    (): "the test-and-write vectors", ("over",): "the set of shares the vectors are taken from", ("key",): "the share number a "
    "share's vectors are filed under", ("value",): "a share's (test vector, write vector, new_length) triple",
    ("value", 0): "a share's test vector", ("value", 0, "each"): "a test vector element",
    ("value", 0, "each", 0): "the offset of a test vector element", ("value", 0, "each", 1): "the read length of a test vector element",
    ("value", 0, "each", 2): "the operator of a test vector element", ("value", 0, "each", 3): "the specimen of a test vector element",
    ("value", 1): "a share's write vector", ("value", 1, "each"): "a write vector element",
    ("value", 1, "each", 0): "the offset of a write vector element", ("value", 1, "each", 1): "the data of a write vector element",
    ("value", 2): "a share's new_length"}
_RV_NAMES = {(): "the read vector", ("each",): "a read vector element", ("each", 0): "the offset of a read vector element",
             ("each", 1): "the length of a read vector element"}
_BUILTINS = {"min", "max", "len", "int", "abs", "sorted", "reversed", "sum", "bytes", "bytearray", "str", "bool", "set",
             "frozenset", "enumerate", "zip", "range", "filter", "map", "any", "all", "slice", "divmod", "round"}
_MUTATORS = {"append", "extend", "insert", "pop", "remove", "clear", "update", "setdefault", "popitem", "sort", "reverse",
             "add", "discard", "__setitem__", "__delitem__"}


class _Prov:
    """Provenance terms of the expressions of one function:
    ('in', p) parameter (own or of an enclosing function) | ('const', repr) | ('seq', terms) tuple or list display |
    ('dict', pairs) | ('item', base, index) | ('attr', base, name) | ('elem', C) an element (a key, for a dict) of C |
    ('val', D) the value under that key | ('map', C, t) one t per element of C, in order | ('dmap', C, k, v) |
    ('filtered', t) a map that may skip elements | ('body',) the decoded request body | ('thecall',) the result of the
    call under examination | ('call', name, args, kwargs) | ('expr', dump) any other computed value |
    ('free', name) | ('unsupported', why) a construct this evaluator does not model (-> ANALYSIS-ERROR, not a verdict)."""

    def __init__(self, fn=None, the_call=None, idx=None):
        self.fn, self.the_call, self.idx = fn, the_call, idx
        self.defs = all_defs(fn) if fn is not None else {}
        self.own = list(fn.params) if fn is not None else []
        self.outer = set()
        g = fn.parent if fn is not None else None
        while g is not None:
            gd = all_defs(g)
            self.outer |= {p for p in g.params if p not in gd}
            g = g.parent
        self.parent = {}
        self.nodes = {}
        if fn is not None:
            for st in fn.body:
                self.parent[id(st)] = fn.node
            for n in func_own_nodes(fn):
                for c in ast.iter_child_nodes(n):
                    self.parent[id(c)] = n
        self._busy = set()

    # ---- terms
    @staticmethod
    def item(base, i):
        if base[0] == "seq" and i[0] == "const":
            try:
                k = ast.literal_eval(i[1])
                if isinstance(k, int) and not isinstance(k, bool) and 0 <= k < len(base[1]):
                    return base[1][k]
            except (ValueError, SyntaxError):
                pass
        if i == ("elem", base):
            return ("val", base)
        return ("item", base, i)

    @staticmethod
    def iterate(src):
        """(collection, term of one element) of a for / comprehension over src."""
        if src[0] == "items":
            return src[1], ("seq", (("elem", src[1]), ("val", src[1])))
        if src[0] == "keys":
            return src[1], ("elem", src[1])
        if src[0] == "values":
            return src[1], ("val", src[1])
        if src[0] in ("map", "dmap", "filtered", "seq", "dict"):
            return src, ("unsupported", "iteration over a collection built in the same function")
        return src, ("elem", src)

    def bind(self, target, term, env):
        if isinstance(target, ast.Name):
            env[target.id] = term
        elif isinstance(target, (ast.Tuple, ast.List)) and not any(isinstance(e, ast.Starred) for e in target.elts):
            for i, e in enumerate(target.elts):
                self.bind(e, self.item(term, ("const", repr(i))), env)
        else:
            for x in ast.walk(target):
                if isinstance(x, ast.Name):
                    env[x.id] = ("unsupported", "binding form %s" % type(target).__name__)

    # ---- evaluation
    def ev(self, e, env=None):
        env = env if env is not None else {}
        if isinstance(e, ast.Name):
            return self._name(e.id, env)
        if isinstance(e, ast.Constant):
            return ("const", repr(e.value))
        if isinstance(e, (ast.Tuple, ast.List)):
            if any(isinstance(x, ast.Starred) for x in e.elts):
                return ("unsupported", "starred display")
            return ("seq", tuple(self.ev(x, env) for x in e.elts))
        if isinstance(e, ast.Dict):
            if any(k is None for k in e.keys):
                return ("unsupported", "dict display with **")
            return ("dict", tuple(sorted(((self.ev(k, env), self.ev(v, env)) for k, v in zip(e.keys, e.values)),
                                         key=lambda kv: repr(kv[0]))))
        if isinstance(e, ast.Await):
            return self.ev(e.value, env)
        if isinstance(e, ast.Attribute):
            return ("attr", self.ev(e.value, env), e.attr)
        if isinstance(e, ast.Subscript):
            if isinstance(e.slice, ast.Slice):
                return self._expr(e)
            return self.item(self.ev(e.value, env), self.ev(e.slice, env))
        if isinstance(e, (ast.ListComp, ast.GeneratorExp, ast.DictComp)):
            if len(e.generators) != 1 or e.generators[0].is_async:
                return ("unsupported", "comprehension with several generators")
            g = e.generators[0]
            coll, el = self.iterate(self.ev(g.iter, env))
            env2 = dict(env)
            self.bind(g.target, el, env2)
            if isinstance(e, ast.DictComp):
                t = ("dmap", coll, self.ev(e.key, env2), self.ev(e.value, env2))
            else:
                t = ("map", coll, self.ev(e.elt, env2))
            return ("filtered", t) if g.ifs else t
        if isinstance(e, ast.Call):
            return self._call(e, env)
        return self._expr(e)

    def _expr(self, e):
        d = ast.dump(e)
        self.nodes[d] = e
        return ("expr", d)

    def _call(self, e, env):
        if e is self.the_call:
            return ("thecall",)
        tail = call_tail(e)
        if tail == "read_encoded":
            return ("body",)
        plain = not e.keywords and not any(isinstance(a, ast.Starred) for a in e.args)
        if isinstance(e.func, ast.Attribute) and e.func.attr in ("items", "keys", "values") and plain and not e.args:
            return (e.func.attr, self.ev(e.func.value, env))
        if isinstance(e.func, ast.Name) and plain and len(e.args) == 1 and e.func.id not in env and e.func.id not in self.defs:
            if e.func.id in ("list", "tuple"):
                return self.ev(e.args[0], env)
            if e.func.id == "dict":
                t = self.ev(e.args[0], env)
                if t[0] == "map" and t[2][0] == "seq" and len(t[2][1]) == 2:
                    return ("dmap", t[1], t[2][1][0], t[2][1][1])
                if t[0] == "items":
                    return t[1]
                return t if t[0] != "map" else ("unsupported", "dict() of a sequence")
        if isinstance(e.func, ast.Attribute) and e.func.attr == "asdict" and plain and not e.args:
            return ("method", "asdict", self.ev(e.func.value, env))
        if isinstance(e.func, ast.Name) and e.func.id == "asdict" and plain and len(e.args) == 1 and "asdict" not in env \
                and "asdict" not in self.defs:
            return ("call", "asdict", (self.ev(e.args[0], env),), ())
        fields = self._fields_of(e.func) if self.idx is not None and isinstance(e.func, ast.Name) and e.func.id not in env \
            and e.func.id not in self.defs else None
        if fields is not None and not any(isinstance(a, ast.Starred) for a in e.args) and all(k.arg for k in e.keywords) \
                and len(e.args) <= len(fields):
            # an attrs value object: which term lands in which field
            given = [(fields[i], self.ev(a, env)) for i, a in enumerate(e.args)] + [(k.arg, self.ev(k.value, env)) for k in e.keywords]
            return ("obj", e.func.id, tuple(sorted(given, key=lambda kv: kv[0])))
        if isinstance(e.func, ast.Attribute) and e.func.attr == "get" and plain and len(e.args) == 1:
            return self.item(self.ev(e.func.value, env), self.ev(e.args[0], env))       # the body is schema-checked: keys exist
        if isinstance(e.func, ast.Name) and e.func.id in _BUILTINS and e.func.id not in env and e.func.id not in self.defs \
                and not any(isinstance(a, ast.Starred) for a in e.args):
            # a value computed from the request is not the request's value
            return ("call", e.func.id, tuple(self.ev(a, env) for a in e.args),
                    tuple(sorted(((k.arg or "**", self.ev(k.value, env)) for k in e.keywords), key=repr)))
        return ("unsupported", "the call %s(..) is not followed" % (call_name(e) or "<expression>"))

    def _fields_of(self, f):
        return _attrs_fields(self.idx, f.id)

    def _name(self, name, env):
        if name in env:
            return env[name]
        vals = self.defs.get(name)
        if vals is None:
            if name in self.own or name in self.outer:
                return ("in", name)
            return ("free", name)
        if name in self.own:
            return ("unsupported", "parameter '%s' is re-bound" % name)
        if len(vals) != 1 or vals[0] is None:
            return ("unsupported", "'%s' has several (or opaque) bindings" % name)
        if name in self._busy:
            return ("unsupported", "'%s' is defined in terms of itself" % name)
        self._busy.add(name)
        try:
            muts = self._mutations(name)
            if muts:
                return self._accumulated(name, vals[0], muts, env)
            return self.ev(vals[0], env)
        finally:
            self._busy.discard(name)

    # ---- x = [] / {} filled in a loop
    def _stmt_of(self, n):
        while n is not None and not isinstance(n, ast.stmt):
            n = self.parent.get(id(n))
        return n

    def _mutations(self, name):
        out = []
        for n in func_own_nodes(self.fn):
            if isinstance(n, ast.Call) and isinstance(n.func, ast.Attribute) and isinstance(n.func.value, ast.Name) \
                    and n.func.value.id == name and n.func.attr in _MUTATORS:
                if n.func.attr == "append" and len(n.args) == 1 and not n.keywords and isinstance(self.parent.get(id(n)), ast.Expr):
                    out.append(("append", self._stmt_of(n), None, n.args[0]))
                else:
                    out.append(("other", self._stmt_of(n), None, None))
            elif isinstance(n, ast.Subscript) and isinstance(n.value, ast.Name) and n.value.id == name \
                    and isinstance(n.ctx, (ast.Store, ast.Del)):
                st = self.parent.get(id(n))
                if isinstance(n.ctx, ast.Store) and isinstance(st, ast.Assign) and len(st.targets) == 1 and st.targets[0] is n \
                        and not isinstance(n.slice, ast.Slice):
                    out.append(("setitem", st, n.slice, st.value))
                else:
                    out.append(("other", self._stmt_of(n), None, None))
        return out

    def _ancestors(self, st):
        out = []
        child, p = st, self.parent.get(id(st))
        while p is not None and p is not self.fn.node:
            out.append((p, child))
            child, p = p, self.parent.get(id(p))
        return out

    def _accumulated(self, name, init, muts, env):
        empty = (isinstance(init, (ast.List, ast.Tuple)) and not init.elts) or (isinstance(init, ast.Dict) and not init.keys) \
            or (isinstance(init, ast.Call) and isinstance(init.func, ast.Name) and init.func.id in ("list", "dict")
                and not init.args and not init.keywords)
        if not empty or len(muts) != 1 or muts[0][0] == "other":
            return ("unsupported", "'%s' is modified in place in a way that is not a single append / item store into an "
                    "initially empty container" % name)
        kind, st, key, value = muts[0]
        init_st = None
        for n in func_own_nodes(self.fn):
            if isinstance(n, (ast.Assign, ast.AnnAssign)) and n.value is init:
                init_st = n
        if init_st is None:
            return ("unsupported", "cannot find where '%s' is initialised" % name)
        shared = {id(p) for (p, _c) in self._ancestors(init_st)}
        loops, filtered = [], False
        for (p, child) in self._ancestors(st):
            if id(p) in shared:
                continue
            if isinstance(p, ast.For) and any(child is s for s in p.body):
                loops.append(p)
                for x in p.body:
                    for y in own_nodes(x):
                        if isinstance(y, (ast.Break, ast.Continue, ast.Return)):
                            filtered = True
            elif isinstance(p, ast.If):
                filtered = True
            else:
                return ("unsupported", "'%s' is filled inside a %s statement" % (name, type(p).__name__))
        if len(loops) > 1:
            return ("unsupported", "'%s' is filled by nested loops" % name)
        env2 = dict(env)
        if loops:
            coll, el = self.iterate(self.ev(loops[0].iter, env))
            self.bind(loops[0].target, el, env2)
        v = self.ev(value, env2)
        if kind == "append":
            t = ("map", coll, v) if loops else ("seq", (v,))
        else:
            k = self.ev(key, env2)
            t = ("dmap", coll, k, v) if loops else ("dict", ((k, v),))
        return ("filtered", t) if filtered else t

    # ---- messages
    def show(self, t):
        k = t[0]
        if k in ("in", "free"):
            return t[1]
        if k == "const":
            return t[1]
        if k == "seq":
            return "(" + ", ".join(self.show(x) for x in t[1]) + ("," if len(t[1]) == 1 else "") + ")"
        if k == "dict":
            return "{" + ", ".join("%s: %s" % (self.show(a), self.show(b)) for a, b in t[1]) + "}"
        if k == "item":
            return "%s[%s]" % (self.show(t[1]), self.show(t[2]))
        if k == "attr":
            return "%s.%s" % (self.show(t[1]), t[2])
        if k == "elem":
            return "<element>"
        if k == "val":
            return "<entry>"
        if k == "map":
            return "[%s for each element of %s]" % (self.show(t[2]), self.show(t[1]))
        if k == "dmap":
            return "{%s: %s for each element of %s}" % (self.show(t[2]), self.show(t[3]), self.show(t[1]))
        if k == "filtered":
            return "%s with some elements left out" % self.show(t[1])
        if k == "body":
            return "<request body>"
        if k == "thecall":
            return "<what the storage server returned>"
        if k == "obj":
            return "%s(%s)" % (t[1], ", ".join("%s=%s" % (a, self.show(b)) for a, b in t[2]))
        if k == "method":
            return "%s.%s()" % (self.show(t[2]), t[1])
        if k in ("items", "keys", "values"):
            return "%s.%s()" % (self.show(t[1]), k)
        if k == "call":
            return "%s(%s)" % (t[1], ", ".join([self.show(x) for x in t[2]] + ["%s=%s" % (a, self.show(b)) for a, b in t[3]]))
        if k == "expr":
            n = self.nodes.get(t[1])
            return src(self.fn, n) if n is not None and self.fn is not None else "<computed value>"
        return "<%s>" % (t[1] if len(t) > 1 else k)


def _unsupported(t):
    if isinstance(t, tuple):
        if t and t[0] == "unsupported":
            return t[1]
        for x in t:
            u = _unsupported(x)
            if u:
                return u
    return None


def _term_diff(got, want, path=()):
    """First differing positions: [(path, got subterm, want subterm)]; descends while constructor and arity agree."""
    if got == want:
        return []
    if got[0] == want[0] == "seq" and len(got[1]) == len(want[1]):
        return [d for i in range(len(got[1])) for d in _term_diff(got[1][i], want[1][i], path + (i,))]
    if got[0] == want[0] == "map":
        if got[1] != want[1]:
            return [(path + ("over",), got[1], want[1])]
        return _term_diff(got[2], want[2], path + ("each",))
    if got[0] == want[0] == "dmap":
        if got[1] != want[1]:
            return [(path + ("over",), got[1], want[1])]
        return _term_diff(got[2], want[2], path + ("key",)) + _term_diff(got[3], want[3], path + ("value",))
    if got[0] == want[0] == "obj" and got[1] == want[1] and [k for k, _v in got[2]] == [k for k, _v in want[2]]:
        return [d for (k, a), (_k, b) in zip(got[2], want[2]) for d in _term_diff(a, b, path + (k,))]
    if got[0] == want[0] == "dict" and [k for k, _v in got[1]] == [k for k, _v in want[1]]:
        return [d for (k, a), (_k, b) in zip(got[1], want[1])
                for d in _term_diff(a, b, path + (k[1].strip("'\"") if k[0] == "const" else "?",))]
    return [(path, got, want)]


def _path_name(names, path):
    p = tuple(path)
    while p not in names and p:
        p = p[:-1]
    return names.get(p, "the vectors")


def _compare(r, pv, fn, node, got, want, names, callee, why, wshow=None):
    """Report where the term handed on differs from the term of the request's own vectors."""
    for (path, g, w) in _term_diff(got, want):
        u = _unsupported(g)
        if u:
            raise AnalysisError("%s: cannot follow %s on its way to %s: %s" % (short(fn), _path_name(names, path), callee, u))
        if g[0] == "filtered" and g[1][0] == w[0]:
            msg = "%s can leave out elements of %s before handing it to %s" % (short(fn), _path_name(names, path), callee)
        else:
            msg = "%s hands %s %s as %s, where the request gives %s" % (short(fn), callee, pv.show(g), _path_name(names, path),
                                                                       (wshow or pv).show(w))
        r.violation(fn, fn.loc(node), "%s: %s" % (msg, why))


def _front_ends(r, idx, cg):
    srv_fn = {t: idx.func(SRV + "." + t) for t in (_RTW, _READV)}
    roles = {_RTW: (2, 3), _READV: (1, 2)}         # (test_and_write_vectors, read_vector) / (shares, readv)
    kinds = set()
    why = {
        "tw": "the share is then tested and written with something other than what the client asked for, so over this "
              "protocol it does not behave like the byte array the client operates on",
        "rv": "the bytes read are then not the (clipped) range the client asked for",
        "res": "the client is then not told what the share held / whether the tests passed"}
    for tail in (_RTW, _READV):
        sps = first_positional_params(srv_fn[tail])
        for cs in sorted(cg.calls_named(tail), key=lambda c: (c.fn.qual, c.call.lineno)):
            fn = cs.fn
            mod = fn.module.name
            if not mod.startswith("allmydata.storage.") or fn.cls is None or fn.cls.qual == idx.cls(SRV).qual:
                continue
            call = cs.call
            pv = _Prov(fn, call)
            callee = "StorageServer." + tail
            args = [arg(call, i, sps[i]) if i < len(sps) else None for i in roles[tail]]
            if any(a is None for a in args):
                raise AnalysisError("%s: cannot find the vector arguments of the call of %s" % (short(fn), tail))
            got = [pv.ev(a) for a in args]
            rets = [n for n in func_own_nodes(fn) if isinstance(n, ast.Return)]
            r.count(1 + len(rets))
            if fn.name == "remote_" + tail:
                # Foolscap: the caller's own objects arrive as positional arguments and go on untouched
                kinds.add(("foolscap", tail))
                r.site(fn, call, "Foolscap front end of " + tail)
                ps = first_positional_params(fn)
                if len(ps) <= max(roles[tail]):
                    raise AnchorVanished("%s no longer takes the arguments of %s" % (short(fn), tail))
                for g, i, nm, key in zip(got, roles[tail], ({_RTW: _TW_NAMES, _READV: {(): "the list of shares to read"}}[tail], _RV_NAMES),
                                         ({_RTW: "tw", _READV: "rv"}[tail], "rv")):
                    _compare(r, pv, fn, call, g, ("in", ps[i]), nm, callee, why[key])
                for rn in rets:
                    rt = pv.ev(rn.value) if rn.value is not None else ("const", "None")
                    if _unsupported(rt):
                        raise AnalysisError("%s: cannot follow the value returned: %s" % (short(fn), _unsupported(rt)))
                    r.require(rt == ("thecall",), fn, fn.loc(rn), "%s answers %s, not what %s returned: %s" % (
                        short(fn), pv.show(rt), callee, why["res"]))
                r.require(bool(rets), fn, fn.loc(), "%s does not answer what %s returned: %s" % (short(fn), callee, why["res"]))
            elif tail == _RTW:
                # HTTP: the vectors are rebuilt from the decoded body
                bodies = [c for c in calls_in_func(fn, "read_encoded")]
                if len(bodies) != 1:
                    raise AnalysisError("%s calls %s but does not decode exactly one request body" % (short(fn), tail))
                kinds.add(("http", tail))
                r.site(fn, call, "HTTP front end of " + tail)
                ref = _Prov()
                env = {"REQ": ("body",), "RES": ("thecall",)}
                _compare(r, pv, fn, call, got[0], ref.ev(parse_expr(_HTTP_TW), dict(env)), _TW_NAMES, callee, why["tw"], ref)
                _compare(r, pv, fn, call, got[1], ref.ev(parse_expr(_HTTP_RV), dict(env)), _RV_NAMES, callee, why["rv"], ref)
                sends = calls_in_func(fn, "_send_encoded")
                if len(sends) != 1 or len(sends[0].args) < 2:
                    raise AnalysisError("%s: expected one self._send_encoded(request, answer)" % short(fn))
                _compare(r, pv, fn, sends[0], pv.ev(sends[0].args[1]), ref.ev(parse_expr(_HTTP_ANSWER), dict(env)),
                         {(): "the answer", ("success",): "the verdict of the tests", ("data",): "the data read"},
                         "the client", why["res"], ref)
            else:
                # HTTP: one chunk of one share, read through a callable (offset, length) -> bytes
                kinds.add(("http", tail))
                r.site(fn, call, "HTTP front end of " + tail)
                ps = [p for p in first_positional_params(fn)]
                if fn.parent is None or len(ps) != 2:
                    raise AnalysisError("%s calls %s but is not an (offset, length) -> bytes reader of a handler" % (short(fn), tail))
                sh = got[0]
                if _unsupported(sh):
                    raise AnalysisError("%s: cannot follow the share list: %s" % (short(fn), _unsupported(sh)))
                one = sh[0] == "seq" and len(sh[1]) == 1 and sh[1][0][0] == "in" and sh[1][0][1] in pv.outer
                r.require(one, fn, fn.loc(call), "%s reads the shares %s, not the one share the request names: %s" % (
                    short(fn), pv.show(sh), why["rv"]))
                _compare(r, pv, fn, call, got[1], ("seq", (("seq", (("in", ps[0]), ("in", ps[1]))),)),
                         {(): "the read vector", (0,): "the one (offset, length) pair", (0, 0): "the offset to read at",
                          (0, 1): "the number of bytes to read"}, callee, why["rv"])
                if one:
                    want = ("item", ("item", ("thecall",), sh[1][0]), ("const", "0"))
                    for rn in rets:
                        rt = pv.ev(rn.value) if rn.value is not None else ("const", "None")
                        if _unsupported(rt):
                            raise AnalysisError("%s: cannot follow the value returned: %s" % (short(fn), _unsupported(rt)))
                        r.require(rt == want, fn, fn.loc(rn), "%s answers %s, not the single read of the requested share: %s" % (
                            short(fn), pv.show(rt), why["res"]))
                    r.require(bool(rets), fn, fn.loc(), "%s does not return the data read" % short(fn))
    for need in (("foolscap", _RTW), ("http", _RTW), ("foolscap", _READV), ("http", _READV)):
        if need not in kinds:
            raise AnchorVanished("no %s front end calling StorageServer.%s found in allmydata.storage" % need)


# ------------------------------------------------ the client half (C23.10)
_HC = "storage.http_client:"
_SC = "storage_client:"
# IStorageServer callers give 3-tuples (offset, length, specimen); Foolscap carries 4-tuples with the operator
_FOOLSCAP_TW = '{k: ([(t[0], t[1], b"eq", t[2]) for t in v[0]], v[1], v[2]) for (k, v) in TW.items()}'
_HTTP_CLIENT_TW = ('{k: TestWriteVectors(test_vectors=[TestVector(offset=t[0], size=t[1], specimen=t[2]) for t in v[0]], '
                   'write_vectors=[WriteVector(offset=w[0], data=w[1]) for w in v[1]], new_length=v[2]) for (k, v) in TW.items()}')
_HTTP_CLIENT_RV = '[ReadVector(offset=x[0], size=x[1]) for x in RV]'
_HTTP_BODY = '{"test-write-vectors": {k: v.asdict() for (k, v) in TW.items()}, "read-vector": [asdict(x) for x in RV]}'
_WIRE_FIELDS = {"TestVector": ("offset", "size", "specimen"), "WriteVector": ("offset", "data"), "ReadVector": ("offset", "size"),
                "TestWriteVectors": ("test_vectors", "write_vectors", "new_length")}
_WIRE_RENAMES = {"test": "test_vectors", "write": "write_vectors", "new-length": "new_length"}
_OBJ_TW_NAMES = {
    (): "the test-and-write vectors", ("over",): "the set of shares the vectors are taken from", ("key",): "the share number a "
    "share's vectors are filed under", ("value",): "a share's vectors",
    ("value", "test_vectors"): "a share's test vector", ("value", "test_vectors", "each"): "a test vector element",
    ("value", "test_vectors", "each", "offset"): "the offset of a test vector element",
    ("value", "test_vectors", "each", "size"): "the read length of a test vector element",
    ("value", "test_vectors", "each", "specimen"): "the specimen of a test vector element",
    ("value", "write_vectors"): "a share's write vector", ("value", "write_vectors", "each"): "a write vector element",
    ("value", "write_vectors", "each", "offset"): "the offset of a write vector element",
    ("value", "write_vectors", "each", "data"): "the data of a write vector element",
    ("value", "new_length"): "a share's new_length"}
_OBJ_RV_NAMES = {(): "the read vector", ("each",): "a read vector element", ("each", "offset"): "the offset of a read vector element",
                 ("each", "size"): "the length of a read vector element"}
_BODY_NAMES = {(): "the request body", ("test-write-vectors",): "the test-and-write vectors in the body",
               ("test-write-vectors", "value"): "what is sent for a share", ("test-write-vectors", "key"): "the share number a share's "
               "vectors are sent under", ("read-vector",): "the read vector in the body", ("read-vector", "each"): "what is sent for a read vector element"}


def _attrs_fields(idx, name):
    """Field names, in declaration order, of the one attrs-style value class called `name` in allmydata.storage.http_client."""
    cands = [c for c in idx.class_by_name.get(name, []) if c.module.name == "allmydata.storage.http_client"]
    if len(cands) != 1:
        return None
    out = []
    for st in cands[0].node.body:
        if isinstance(st, ast.AnnAssign) and isinstance(st.target, ast.Name):
            out.append(st.target.id)
    return out or None


def _client_half(r, idx):
    why = {"tw": "the share is then tested and written with something other than what the caller asked for, so seen through "
                 "this adapter it does not behave like a byte array",
           "rv": "the bytes read are then not the (clipped) range the caller asked for"}
    srv = idx.func("storage.server:FoolscapStorageServer.remote_" + _RTW)
    sps = first_positional_params(srv)
    # -- Foolscap adapter: 3-tuples become 4-tuples with the operator, the rest goes through
    for tail, pos, wants in ((_RTW, (2, 3), (_FOOLSCAP_TW, None)), (_READV, (1, 2), (None, None))):
        fn = idx.func(_SC + "_StorageServer." + tail)
        ps = first_positional_params(fn)
        sends = [c for c in calls_in_func(fn, "callRemote") if c.args and isinstance(c.args[0], ast.Constant) and c.args[0].value == tail]
        if len(sends) != 1 or len(ps) <= max(pos):
            raise AnchorVanished("%s: one callRemote(%r, ..)" % (short(fn), tail))
        call = sends[0]
        r.site(fn, call, "Foolscap adapter of " + tail)
        r.count(1)
        pv = _Prov(fn, call, idx)
        ref = _Prov()
        for i, w, names, key in zip(pos, wants, (_TW_NAMES if tail == _RTW else {(): "the list of shares to read"}, _RV_NAMES),
                                    ("tw" if tail == _RTW else "rv", "rv")):
            a = arg(call, 1 + i)
            if a is None:
                raise AnalysisError("%s: cannot find argument %d of callRemote(%r, ..)" % (short(fn), 1 + i, tail))
            want = ref.ev(parse_expr(w), {"TW": ("in", ps[i])}) if w else ("in", ps[i])
            _compare(r, pv, fn, call, pv.ev(a), want, names, "the remote " + tail, why[key], ref)
    # -- HTTP adapter: value objects whose fields are the wire keys
    fn = idx.func(_SC + "_HTTPStorageServer." + _RTW)
    ps = first_positional_params(fn)
    sends = calls_in_func(fn, "read_test_write_chunks")
    if len(sends) != 1 or len(ps) < 4:
        raise AnchorVanished("%s: one call of read_test_write_chunks" % short(fn))
    call = sends[0]
    r.site(fn, call, "HTTP adapter of " + _RTW)
    hop = idx.func(_HC + "StorageClientMutables.read_test_write_chunks")
    hps = first_positional_params(hop)
    if len(hps) < 6:
        raise AnchorVanished("%s(storage_index, 3 secrets, testwrite_vectors, read_vector)" % short(hop))
    pv = _Prov(fn, call, idx)
    ref = _Prov(None, None, idx)
    for i, w, env, names, key in ((4, _HTTP_CLIENT_TW, {"TW": ("in", ps[2])}, _OBJ_TW_NAMES, "tw"),
                                  (5, _HTTP_CLIENT_RV, {"RV": ("in", ps[3])}, _OBJ_RV_NAMES, "rv")):
        a = arg(call, i, hps[i])
        if a is None:
            raise AnalysisError("%s: cannot find the %s argument of read_test_write_chunks" % (short(fn), hps[i]))
        _compare(r, pv, fn, call, pv.ev(a), ref.ev(parse_expr(w), env), names, "the HTTP client", why[key], ref)
    # -- http_client: pass-through hops down to the function that builds the body
    r.site(hop, None, "HTTP client hops to the request body")
    tw_p, rv_p = hps[4], hps[5]
    for _i in range(4):
        reqs = [c for c in calls_in_func(hop, "request") if kwarg(c, "message_to_serialize") is not None]
        if reqs:
            break
        nxt = [(c, hop.cls.methods[call_tail(c)]) for c in calls_in_func(hop) if call_name(c) == "self." + call_tail(c)
               and call_tail(c) in hop.cls.methods and tw_p in {x.id for a in c.args for x in ast.walk(a) if isinstance(x, ast.Name)}]
        if len(nxt) != 1:
            raise AnalysisError("%s neither sends a body nor hands the vectors to one method of its class" % short(hop))
        c, g = nxt[0]
        gps = first_positional_params(g)
        pv = _Prov(hop, c, idx)
        r.count(1)
        got = {}
        for j, gp in enumerate(gps):
            a = arg(c, j, gp)
            got[gp] = pv.ev(a) if a is not None else None
        carriers = [gp for gp, t in got.items() if t == ("in", tw_p)], [gp for gp, t in got.items() if t == ("in", rv_p)]
        for what, t, cands in (("test-and-write vectors", tw_p, carriers[0]), ("read vector", rv_p, carriers[1])):
            r.require(len(cands) == 1, hop, hop.loc(c), "%s does not hand its %s (%s) on to %s unchanged" % (short(hop), what, t, short(g)))
        if len(carriers[0]) != 1 or len(carriers[1]) != 1:
            return
        hop, tw_p, rv_p = g, carriers[0][0], carriers[1][0]
    else:
        raise AnalysisError("the HTTP client's read-test-write passes through more than 4 methods")
    if len(reqs) != 1:
        raise AnalysisError("%s sends %d bodies" % (short(hop), len(reqs)))
    r.site(hop, reqs[0], "request body")
    pv = _Prov(hop, reqs[0], idx)
    _compare(r, pv, hop, reqs[0], pv.ev(kwarg(reqs[0], "message_to_serialize")),
             ref.ev(parse_expr(_HTTP_BODY), {"TW": ("in", tw_p), "RV": ("in", rv_p)}), _BODY_NAMES, "the server", why["tw"], ref)
    # -- the value classes: asdict() of each yields exactly the keys the handler reads
    first = None
    for cname, want in sorted(_WIRE_FIELDS.items()):
        got = _attrs_fields(idx, cname)
        if got is None:
            raise AnchorVanished("value class %s of allmydata.storage.http_client" % cname)
        ci = [c for c in idx.class_by_name[cname] if c.module.name == "allmydata.storage.http_client"][0]
        first = first or ci
        r.require(sorted(got) == sorted(want), ci.qual, "%s:%d" % (ci.module.relpath, ci.node.lineno),
                  "%s has the fields %s; asdict() names the wire keys after them and the server reads %s" % (cname, got, list(want)))
    r.site("allmydata.storage.http_client value classes", None)
    ad = idx.func(_HC + "TestWriteVectors.asdict")
    r.site(ad, None, "renaming to the wire keys")
    keys = None                      # wire key -> field
    dname = None
    for st in ad.body:
        if isinstance(st, ast.Expr) and isinstance(st.value, ast.Constant):
            continue
        if isinstance(st, ast.Assign) and len(st.targets) == 1 and isinstance(st.targets[0], ast.Name) and keys is None \
                and isinstance(st.value, ast.Call) and isinstance(st.value.func, ast.Name) and st.value.func.id == "asdict" \
                and len(st.value.args) == 1 and not st.value.keywords and attr_path(st.value.args[0]) == ad.params[0]:
            dname, keys = st.targets[0].id, {f: f for f in _WIRE_FIELDS["TestWriteVectors"]}
            continue
        if keys is not None and isinstance(st, ast.Assign) and len(st.targets) == 1 and isinstance(st.targets[0], ast.Subscript) \
                and attr_path(st.targets[0].value) == dname and isinstance(st.targets[0].slice, ast.Constant) \
                and isinstance(st.value, ast.Call) and call_name(st.value) == dname + ".pop" and len(st.value.args) == 1 \
                and isinstance(st.value.args[0], ast.Constant):
            k, f = st.targets[0].slice.value, st.value.args[0].value
            r.require(f in keys, ad, ad.loc(st), "%s pops the key %r, which is not there" % (short(ad), f))
            if f in keys:
                keys[k] = keys.pop(f)
            continue
        if keys is not None and isinstance(st, ast.Return) and attr_path(st.value) == dname:
            break
        raise AnalysisError("%s: statement not understood: %s" % (short(ad), src(ad, st)))
    else:
        raise AnalysisError("%s does not return the dictionary it builds" % short(ad))
    r.require(keys == _WIRE_RENAMES, ad, ad.loc(), "%s sends a share's vectors under the keys %s; the server reads %s" % (
        short(ad), keys, _WIRE_RENAMES))


# --------------------------------------------------------------- more helpers
def struct_calcsize(fmt):
    import struct
    return struct.calcsize(fmt)


def _split_fmt(fmt):
    out, num = [], ""
    for ch in fmt[1:] if fmt and fmt[0] in "<>=!@" else fmt:
        if ch.isdigit():
            num += ch
        elif ch.isspace():
            continue
        elif ch in "sp":
            out.append(num + ch)
            num = ""
        else:
            out.extend([ch] * (int(num) if num else 1))
            num = ""
    return out


def _fold(fo, e, fn):
    try:
        return fo.fold(e, fn.module, fn.cls)
    except NotConstant:
        return None


def _unpacked_first(fn, retval, sc):
    """`retval` is the single value unpacked by the struct.unpack call `sc`."""
    if not isinstance(retval, ast.Name):
        return False
    for n in func_own_nodes(fn):
        if isinstance(n, ast.Assign) and struct_call(n.value, "unpack") and n.value.args[0] is sc[0]:
            t = n.targets[0]
            if isinstance(t, (ast.Tuple, ast.List)) and len(t.elts) == 1 and attr_path(t.elts[0]) == retval.id:
                return True
    return False


def _pairs_loop(r, fn, vec, callee, what):
    """`for (a, b) in vec: self.<callee>(f, a, b)` - every pair is applied, in order.  Returns the file variable."""
    cfg = fn.cfg()
    heads = [n for n in cfg.nodes if n.kind == "iter" and attr_path(n.ast.iter) == vec]
    if len(heads) != 1:
        raise AnchorVanished("%s: loop over the %s not found" % (short(fn), what))
    head = heads[0]
    t = head.ast.target
    r.site(fn, head.ast, "loop over " + what)
    calls = [(n, c) for n in cfg.nodes for c in self_call(n, callee)]
    if not calls:
        raise AnchorVanished("%s: no call of %s" % (short(fn), callee))
    fv = None
    for (n, c) in calls:
        ok = isinstance(t, ast.Tuple) and len(t.elts) == 2 and len(c.args) == 3 and not c.keywords \
            and [attr_path(a) for a in c.args[1:]] == [attr_path(e) for e in t.elts] and isinstance(c.args[0], ast.Name)
        r.require(ok, fn, fn.loc(c), "%s is not called with the (%s) pair of the %s in order" % (
            callee, ", ".join(attr_path(e) or "?" for e in getattr(t, "elts", [])), what))
        if isinstance(c.args[0], ast.Name):
            fv = c.args[0].id
    cn = {n.id for (n, c) in calls}

    def transfer(n, lab, nxt, st):
        if lab == "exc":
            return None
        if n is head and (st == 1 or lab != "iter"):
            return None
        if n.id in cn:
            return None
        return 1 if n is head else st
    visited, parent = explore(cfg, 0, transfer, start=head)
    for (nid, st) in visited:
        if st == 1 and (cfg.nodes[nid] is head or cfg.nodes[nid].kind == "exit"):
            r.violation(fn, fn.loc(head.ast), "%s: an entry of the %s can be skipped without calling %s" % (short(fn), what, callee),
                        witness(cfg, parent, (nid, st)))
            break
    # no early exit from the loop (break / return): every later entry is applied as well
    def fwd(starts, stop=None):
        seen, work = set(), list(starts)
        while work:
            x = work.pop()
            if x in seen or x == stop:
                continue
            seen.add(x)
            work.extend(d for (d, l) in cfg.succ[x] if l != "exc")
        return seen
    body = fwd([d for (d, l) in cfg.succ[head.id] if l == "iter"], stop=head.id)
    for b in sorted(body):
        bn = cfg.nodes[b]
        if bn.kind in ("raise",) or is_raise(bn):
            continue
        if head.id not in fwd([d for (d, l) in cfg.succ[b] if l != "exc"]) and b != head.id:
            r.violation(fn, fn.loc(bn.ast) if bn.ast is not None else fn.loc(), "%s: the loop over the %s can be left "
                        "early, skipping the remaining entries" % (short(fn), what))
            break
    if fv is None:
        raise AnchorVanished("%s: file argument of %s not found" % (short(fn), callee))
    return fv
