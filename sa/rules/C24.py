"""C24 Read-test-write is atomic and guarded by the write enabler.

Decided: the order and guards of StorageServer.slot_testv_and_readv_and_writev
(collect + write-enabler check of every share -> test -> read -> guarded
write), the absence of filesystem-write effects in the collect/test/read
stages, the all-shares write-enabler loop, the timing-safe comparison, the
closed set of callers of the mutable write path, that both the per-share and
the per-request test verdicts are conjunctions over all their comparisons, and that
the early size refusal and the write stage each visit every share the request names
(the refusal: every write of it), that the early size refusal admits nothing the
container refuses at write time (C24.12), that no share is created in a bucket directory an earlier step of the same
request removed (C24.13), and that the protocol front ends hand the
test stage the client's own test vectors (C24.11, adopted from C23.9).
DESIGN.md section 5, C24."""
from sa.h import *

EXPLANATION = (
    "Decided (structural, all paths): (1) in slot_testv_and_readv_and_writev every call with a filesystem-write "
    "effect (computed over the storage package: open for writing, file .write/.truncate, os/fileutil mutators, "
    "transitively) is reached only after _collect_mutable_shares_for_storage_index returned normally (not inside "
    "a try) with write_enabler = secrets[0], and only under the truth of _evaluate_test_vectors(test_and_write_"
    "vectors, shares) on the same vectors, shares and bucket directory; (2) the collect, test and read stages "
    "have no filesystem-write effect; (3) the read vectors are evaluated before any write and the returned pair "
    "is exactly (test verdict, that pre-write read); (4) the collect loop calls check_write_enabler(write_enabler) "
    "on every numeric entry of os.listdir(bucketdir) before inserting it, outside any try, with no early exit; "
    "(5) check_write_enabler returns normally only through timing_safe_compare(candidate, stored enabler) being "
    "true, raises BadWriteEnablerError otherwise, never compares the enabler with ==, and the stored enabler is "
    "read from the header field into which mutable_schema._header packs it; (6) _evaluate_test_vectors returns "
    "False after the first failing share, True only after the loop over all named shares, using the share's own "
    "test vector and b'' semantics (EmptyShare) exactly for missing shares; (7) the mutable write path (writev, "
    "_evaluate_write_vectors, _allocate_slot_share, create_mutable_sharefile, MutableShareFile.create and the "
    "private writers) is called only from that guarded chain; leases are renewed exactly on the dict of shares the "
    "write stage reports as remaining, and the read stage returns share.readv(read_vector) for every collected share "
    "(one store per iteration of the loop over shares.items(), no iteration avoids it, no early exit); "
    "(8) all-or-nothing across shares: every request-validation exception that a share's write step can raise "
    "explicitly (transitively, storage package) must also be raised at a point no mutating step can precede "
    "(DataTooLargeError failed this until fix b415ab1: a later share's oversized write aborted the request after "
    "earlier shares were written), and that early refusal - a raise statement of _evaluate_write_vectors, of its caller "
    "before the write stage, or of a directly called helper given the vectors - sits in a loop over every share named by "
    "test_and_write_vectors and, inside it, over the whole of the element of that share's tuple which the write stage hands "
    "to writev; neither loop can be left early, an iteration of the share loop reaches the data loop unless the data vector "
    "is empty, an iteration of the data loop evaluates a condition that leads to the raise, and those conditions depend on "
    "every name the data loop binds (offset and data); (10) the write stage applies writev / unlink inside a loop over every "
    "share named by test_and_write_vectors (not a slice, not the collected shares) that has no break / return; (9) the verdict of ONE share is the conjunction of all comparisons of its test "
    "vector: MutableShareFile.check_testv and EmptyShare.check_testv (and any storage-package helper they delegate to, "
    "summarised recursively) are explored with a concrete boolean store in which every testv_compare forks into "
    "succeeded / failed - whether it stands in a condition, an assignment, and/or, all()/any() or a return - and on "
    "every normal path the result is falsy once any comparison failed, True only if none failed and the loop over the "
    "whole vector ran to completion, and no iteration passes an entry over; (6) uses the same evaluation for the "
    "per-request verdict over the shares; (11, adopted from C23.9 as C24.11.9) the Foolscap and HTTP entry points hand "
    "slot_testv_and_readv_and_writev the request's own vectors - per share number, element by element, every test as (offset, "
    "the request's size field, b'eq', specimen), no entry or share dropped, nothing recomputed - so the verdict that guards the "
    "writes is the verdict of the tests the client sent; (12) the two size limits agree: for every raise statement of a "
    "request-validation error that is reachable below a share's writev (the call chain is followed through the storage package, "
    "callee parameters bound to the call's arguments), the conditions that hold on every path to it - as linear inequalities over "
    "the write's offset and data length with MAX_SIZE / DATA_OFFSET folded to their numbers, conditions on the share's state dropped - "
    "contain one that implies every condition of some path to the early raise inside the loop over all writes of all shares (only "
    "len(data) >= 0 is assumed); i.e. nothing the up-front check admits is refused while the request is being applied; an early refusal written with a "
    "quantifier - `if any(cond for .. in vectors for .. in datav): raise` / `if not all(..): raise`, generator or list form - is "
    "analysed by (8) and (12) as the loop nest it abbreviates (comprehension-local names renamed where they collide); "
    "(13) the bucket directory while the request is applied: a typestate of the directory (unknown / exists / probed absent or "
    "not needed / removed by this request) is carried along every path from slot_testv_and_readv_and_writev through every "
    "storage-package callee the directory is handed to (per-function summaries), and no call that creates a file under "
    "os.path.join(directory, ..) (an open-for-writing effect) is reached in the state 'removed by an earlier step of this request' "
    "without an ensure step (fileutil.make_dirs, os.makedirs(exist_ok=True), a true isdir/exists probe) in between - that creation "
    "raises FileNotFoundError after earlier shares were modified or deleted (seeded C24-I: make_dirs hoisted before the write loop "
    "while the rmdir of the emptied directory stayed inside it) - and no create-once step (os.mkdir, os.makedirs without exist_ok, "
    "outside a handler for OSError) is reached where the directory exists.  "
    "Undecided (explicit non-claim): that a write the up-front check refuses is really too large (no legal write is refused: "
    "C23.8); non-linear or chained size conditions (-> ANALYSIS-ERROR / treated as not about the write); that every iteration of the write stage applies its share's own vector, unlinks only under new_length == 0 and "
    "guards os.rmdir by emptiness (C23.5), and that writev applies every entry of the data vector (C23.4); which leases are "
    "renewed under renew_leases (C25); I/O errors (OSError) in the middle of the "
    "write stage other than the two of (13); in (13): that fileutil.make_dirs is idempotent (taken by name), that a guard of an "
    "ensure step which does not look at the filesystem (`if any(share will be allocated): make_dirs`) is right about which "
    "requests need the directory (its other branch is read as 'not needed'), directories reached other than as an argument; exceptional paths inside check_testv (a raise aborts the request before any write); that the "
    "comparison operands are the share's data at (offset, length) and the entry's specimen (decided under C23.7); NoSpace from the lease step after all writes; interleaving with other requests; values compared.")
TECHNIQUE = ("static analysis: CFG must-precede/guard rules, filesystem-effect summaries over the call graph, who-may-call, loop-coverage of "
             "the request's vectors, interprocedural path conditions as linear inequalities (implication between the early and the "
             "write-time size refusal), quantified refusals rewritten as loop nests, interprocedural typestate of the bucket directory "
             "(summaries per callee), provenance terms of the protocol front ends' arguments (adopted)")

MSF = "storage.mutable:MutableShareFile"
SRV = "storage.server:StorageServer"
STORAGE_PREFIX = "allmydata.storage."
DOMAIN_MODULES = ("allmydata.storage.mutable", "allmydata.storage.immutable", "allmydata.storage.server",
                  "allmydata.storage.lease", "allmydata.storage.lease_schema", "allmydata.storage.mutable_schema",
                  "allmydata.storage.immutable_schema", "allmydata.storage.common", "allmydata.storage.shares")

OS_MUTATORS = {"unlink", "remove", "rmdir", "rename", "replace", "mkdir", "makedirs", "truncate", "removedirs", "link",
               "symlink", "chmod", "utime", "renames", "ftruncate", "write"}
FILEUTIL_MUTATORS = {"make_dirs", "make_dirs_with_absolute_mode", "rename", "remove", "rm_dir", "remove_if_possible",
                     "move_into_place", "write_atomically", "write", "put_file", "rename_no_overwrite", "replace_file"}
FILE_MUTATORS = {"write", "truncate", "writelines"}
FILE_OBJECT_METHODS = {"write", "read", "seek", "tell", "flush", "close", "truncate", "writelines", "readline"}


# ---------------------------------------------------------------- effects
class FSEffects:
    """Filesystem-write effect summaries for functions of the storage package."""

    def __init__(self, idx):
        self.idx = idx
        self.cg = get_callgraph(idx)
        self.memo = {}
        self._loc = {}
        self.by_name = {}
        for mn in DOMAIN_MODULES:
            m = idx.modules.get(mn)
            if m is None:
                continue
            for ci in m.classes.values():
                for name, f in ci.methods.items():
                    self.by_name.setdefault(name, []).append(f)
        self.scanned = set()

    def primitive(self, fn, c):
        name = call_name(c)
        tail = call_tail(c)
        if name.startswith("os.") and name.count(".") == 1 and tail in OS_MUTATORS:
            return name
        if name.startswith("shutil."):
            return name
        if name.startswith("fileutil.") and tail in FILEUTIL_MUTATORS:
            return name
        if name == "open":
            mode = arg(c, 1, "mode")
            if mode is None:
                return None
            if isinstance(mode, ast.Constant) and isinstance(mode.value, str):
                if any(ch in mode.value for ch in "wax"):
                    return "open(.., %r)" % mode.value
                return None      # 'r', 'rb', 'rb+': a write needs a later .write/.truncate, detected below
            return "open(.., <non-constant mode>)"
        if isinstance(c.func, ast.Attribute) and tail in FILE_MUTATORS and isinstance(c.func.value, ast.Name) \
                and c.func.value.id not in ("self", "cls", "log", "sys"):
            return "%s.%s()" % (c.func.value.id, tail)
        return None

    def callees(self, fn, c):
        res = self.cg.resolve(fn, c)
        if res:
            return res
        if isinstance(c.func, ast.Attribute):
            if isinstance(c.func.value, ast.Name) and c.func.attr in FILE_OBJECT_METHODS:
                return []        # f.write / f.seek ... on a local file object (writes are primitive effects)
            # receiver of unknown type: every same-named method of the storage domain classes
            if isinstance(c.func.value, ast.Name) and c.func.value.id in fn.module.imports \
                    and not fn.module.imports[c.func.value.id].startswith("allmydata"):
                return []
            return list(self.by_name.get(c.func.attr, []))
        return []

    def _local(self, fn):
        """(primitive effects, storage-package callees) of one function, nested defs included."""
        hit = self._loc.get(fn.qual)
        if hit is None:
            prims, outs = set(), []
            for c in calls_in_func(fn, into_lambda=True):
                p = self.primitive(fn, c)
                if p:
                    prims.add("%s: %s" % (short(fn), p))
                for g in self.callees(fn, c):
                    if g.module.name.startswith(STORAGE_PREFIX):
                        outs.append(g)
            outs.extend(fn.nested.values())
            hit = (prims, outs)
            self._loc[fn.qual] = hit
        return hit

    def effects(self, fn):
        """Union of the primitive effects of everything reachable from fn inside the storage package."""
        if fn.qual in self.memo:
            return self.memo[fn.qual]
        seen, work, out = set(), [fn], set()
        while work:
            g = work.pop()
            if g.qual in seen:
                continue
            seen.add(g.qual)
            if g.qual in self.memo:
                out |= self.memo[g.qual]
                continue
            prims, outs = self._local(g)
            out |= prims
            work.extend(outs)
        self.scanned |= seen
        self.memo[fn.qual] = out
        return out

    def call_effects(self, fn, c):
        out = set()
        p = self.primitive(fn, c)
        if p:
            out.add("%s: %s" % (short(fn), p))
        for g in self.callees(fn, c):
            if g.module.name.startswith(STORAGE_PREFIX):
                out |= self.effects(g)
        return out


class Raises:
    """Exception classes explicitly raised (``raise X``) by a function or, transitively, by its callees inside
    the storage package, minus those certainly caught by an enclosing handler.  assert / precondition are not
    counted (they are programming-error traps, not request validation)."""

    def __init__(self, fx):
        self.fx = fx
        self.memo = {}

    def node_raises(self, fn, cfg, n, stack):
        """{exception name: qualified name of the function holding the raise} escaping from node n."""
        out = {}
        handlers = [cfg.nodes[d] for (d, l) in cfg.succ[n.id] if l == "exc" and cfg.nodes[d].kind == "except"]

        def escapes(name):
            return not any(C._default_exc_match(name, h.ast.type) is True for h in handlers)
        if is_raise(n):
            e = n.ast.exc
            if isinstance(e, ast.Call):
                e = e.func
            name = e.id if isinstance(e, ast.Name) else (e.attr if isinstance(e, ast.Attribute) else None)
            if name and escapes(name):
                out[name] = fn.qual
            return out
        for c in node_calls(n, into_lambda=True):
            for g in self.fx.callees(fn, c):
                if g.module.name.startswith(STORAGE_PREFIX):
                    for name, where in self.of(g, stack).items():
                        if escapes(name):
                            out.setdefault(name, where)
        return out

    def of(self, fn, stack=frozenset()):
        if fn.qual in self.memo:
            return self.memo[fn.qual]
        if fn.qual in stack:
            return {}
        stack = stack | {fn.qual}
        out = {}
        cfg = fn.cfg()
        reach = cfg.reachable_nodes()
        for n in cfg.nodes:
            if n.id in reach and n.kind not in ("entry", "exit", "raise"):
                for k, v in self.node_raises(fn, cfg, n, stack).items():
                    out.setdefault(k, v)
        if len(stack) == 1:
            self.memo[fn.qual] = out
        return out


# ---------------------------------------------------------------- helpers
def def_of(fnm, n, e):
    if not isinstance(e, ast.Name):
        return None, e
    ds = fnm.rd.get(n.id, {}).get(e.id)
    if not ds or len(ds) != 1:
        return None, None
    (d,) = tuple(ds)
    if d < 0:
        return None, None
    dn = fnm.cfg.nodes[d]
    return dn, fnm._def_value(dn, e.id)


def res(fnm, n, e, depth=4):
    """Follow plain-name copies (unique reaching definitions) to the defining expression."""
    while depth > 0 and isinstance(e, ast.Name):
        dn, v = def_of(fnm, n, e)
        if v is None or dn is None:
            break
        n, e = dn, v
        depth -= 1
    return e


def in_try(cfg, n):
    return any(l == "exc" and cfg.nodes[d].kind == "except" for (d, l) in cfg.succ[n.id])


def fwd(cfg, starts, stop=None):
    seen, work = set(), list(starts)
    while work:
        x = work.pop()
        if x in seen or x == stop:
            continue
        seen.add(x)
        work.extend(d for (d, l) in cfg.succ[x] if l != "exc")
    return seen


def loop_early_exit(cfg, head):
    """A node of the loop body from which the loop head is no longer reachable (break / return), raises excepted."""
    body = fwd(cfg, [d for (d, l) in cfg.succ[head.id] if l == "iter"], stop=head.id)
    for b in sorted(body):
        bn = cfg.nodes[b]
        if bn.kind == "raise" or is_raise(bn) or b == head.id:
            continue
        if head.id not in fwd(cfg, [d for (d, l) in cfg.succ[b] if l != "exc"]):
            return bn
    return None


def struct_call(e, which):
    if isinstance(e, ast.Call) and call_name(e) == "struct." + which and e.args:
        return e.args[0], e.args[1:]
    return None


def _fold(fo, e, fn):
    try:
        return fo.fold(e, fn.module, fn.cls)
    except NotConstant:
        return None


# ------------------------------------------------- conjunction verdicts
def _truth(v):
    return False if v is None else v


def _neg(v):
    v = _truth(v)
    return "?" if v == "?" else (not v)


_WRAPPERS = ("list", "tuple", "iter", "enumerate", "reversed", "sorted")


def _whole_slice(sl):
    zero = sl.lower is None or (isinstance(sl.lower, ast.Constant) and sl.lower.value in (0, None))
    return zero and (sl.upper is None or (isinstance(sl.upper, ast.Constant) and sl.upper.value is None)) \
        and (sl.step is None or (isinstance(sl.step, ast.Constant) and sl.step.value in (None, 1)))


def vector_kind(fn, tv, e, depth=3):
    """Does expression `e` of function fn denote every entry of the collection parameter `tv` ('full'), a strict
    part of it ('part': a slice), or something else (None)?  Order-changing / copying wrappers and dict key/item
    views are transparent; local names are followed when they have exactly one definition."""
    if tv is None or e is None:
        return None
    while True:
        if isinstance(e, ast.Call) and isinstance(e.func, ast.Name) and e.func.id in _WRAPPERS and e.args \
                and not isinstance(e.args[0], ast.Starred):
            e = e.args[0]
        elif isinstance(e, ast.Call) and isinstance(e.func, ast.Attribute) and e.func.attr in ("items", "keys", "values", "copy") \
                and not e.args and not e.keywords:
            e = e.func.value
        else:
            break
    if isinstance(e, ast.Subscript) and isinstance(e.slice, ast.Slice):
        sl = e.slice
        k = vector_kind(fn, tv, e.value, depth)
        if k is None:
            return None
        return k if _whole_slice(sl) else "part"
    if isinstance(e, ast.Name):
        defs = def_exprs(fn).get(e.id, [])
        if e.id == tv and not defs:
            return "full"
        if depth <= 0 or not defs:
            return None
        kinds = {vector_kind(fn, tv, d, depth - 1) if not (isinstance(d, ast.Name) and d.id == e.id) else "self"
                 for d in defs}
        kinds.discard("self")
        if e.id == tv:
            # the parameter is re-bound inside the function
            if kinds == {"full"}:
                return "full"
            return "part" if kinds and None not in kinds else None
        if len(defs) == 1 and kinds <= {"full", "part"} and kinds:
            return kinds.pop()
    return None


class ConjunctionVerdict:
    """Decides, over all paths, that a function's boolean result is the CONJUNCTION of one primitive comparison
    over every entry of a collection parameter: falsy as soon as any evaluated comparison was false, True only
    when none was false and every entry was examined.

    The CFG is explored with a small concrete store (True / False / None / '?') for the local names; evaluating
    the primitive forks into (True, nothing failed) and (False, failed), whether it stands in a branch condition,
    an assignment, a boolean operator, a return value or an all()/any() comprehension; branch conditions on known
    values are followed only along the feasible edge.  Calls of storage-package helpers that contain the primitive
    are summarised recursively (the collection parameter is mapped through the arguments).  Nothing here matches
    how the loop is written - only what value reaches the return on which combination of comparison outcomes."""

    def __init__(self, r, cg, is_prim, what, follow=True, kind_of=vector_kind):
        self.r, self.cg, self.is_prim, self.what, self.follow, self.kind_of = r, cg, is_prim, what, follow, kind_of
        self.memo, self.stack, self._has, self.reported, self.tvs = {}, [], {}, set(), {}

    # -- where the primitive lives
    def has_prim(self, g, depth=3):
        if g.qual in self._has:
            return self._has[g.qual]
        self._has[g.qual] = False
        out = False
        for c in calls_in_func(g, into_lambda=True):
            if self.is_prim(g, c):
                out = True
            elif depth > 0 and self.follow:
                out = any(h.module.name.startswith(STORAGE_PREFIX) and self.has_prim(h, depth - 1)
                          for h in self.cg.resolve(g, c))
            if out:
                break
        self._has[g.qual] = out
        return out

    def helper(self, fn, c):
        if not self.follow:
            return None
        cands = [g for g in self.cg.resolve(fn, c) if g.module.name.startswith(STORAGE_PREFIX) and self.has_prim(g)]
        if len(cands) > 1:
            raise AnalysisError("%s: %s may reach several functions that evaluate the %s" % (short(fn), src(fn, c), self.what))
        return cands[0] if cands else None

    def mentions(self, fn, e):
        return any(isinstance(x, ast.Call) and (self.is_prim(fn, x) or self.helper(fn, x) is not None) for x in ast.walk(e))

    def undecided(self, fn, e):
        raise AnalysisError("%s: cannot decide how the %s in '%s' reaches the verdict" % (short(fn), self.what, src(fn, e)))

    # -- expressions: list of outcomes (value, failed, tested, done, origin)
    def ev(self, fn, tv, vals, e):
        def plain(v):
            return [(v, False, False, False, None)]

        def then(o, o2, v):
            # a value combined by this function is this function's construct: the helper origin is dropped
            return (v, o[1] or o2[1], o[2] or o2[2], o[3] or o2[3], None)
        if e is None:
            return plain(None)
        if isinstance(e, ast.Constant):
            return plain(e.value if isinstance(e.value, bool) or e.value is None else "?")
        if isinstance(e, ast.Name):
            return plain(vals.get(e.id, "?"))
        if isinstance(e, ast.UnaryOp) and isinstance(e.op, ast.Not):
            return [(_neg(o[0]),) + o[1:4] + (None,) for o in self.ev(fn, tv, vals, e.operand)]
        if isinstance(e, ast.BoolOp):
            stop = not isinstance(e.op, ast.And)         # the truth value that short-circuits
            outs = self.ev(fn, tv, vals, e.values[0])
            for nx in e.values[1:]:
                new = []
                for o in outs:
                    t1 = _truth(o[0])
                    if t1 is stop:
                        new.append(o)
                        continue
                    for o2 in self.ev(fn, tv, vals, nx):
                        if t1 == "?":
                            new.append(then(o, o2, stop if _truth(o2[0]) is stop else "?"))
                        else:
                            new.append(then(o, o2, o2[0]))
                outs = new
            return outs
        if isinstance(e, ast.IfExp):
            out = []
            for o in self.ev(fn, tv, vals, e.test):
                t1 = _truth(o[0])
                for br, want in ((e.body, True), (e.orelse, False)):
                    if t1 == "?" or t1 is want:
                        out.extend(then(o, o2, o2[0]) for o2 in self.ev(fn, tv, vals, br))
            return out
        if isinstance(e, ast.Call):
            if self.is_prim(fn, e):
                return [(True, False, True, False, None), (False, True, True, False, None)]
            nm = call_name(e)
            if nm == "bool" and len(e.args) == 1 and not e.keywords:
                return [(_truth(o[0]),) + o[1:] for o in self.ev(fn, tv, vals, e.args[0])]
            if nm in ("all", "any") and len(e.args) == 1 and not e.keywords \
                    and isinstance(e.args[0], (ast.GeneratorExp, ast.ListComp)) and self.mentions(fn, e.args[0]):
                return self.quantified(fn, tv, vals, e, nm == "all")
            g = self.helper(fn, e)
            if g is not None:
                return self.through_helper(fn, tv, e, g)
        if self.mentions(fn, e):
            self.undecided(fn, e)
        return plain("?")

    def quantified(self, fn, tv, vals, e, is_all):
        comp = e.args[0]
        gen = comp.generators[0]
        kind = self.kind_of(fn, tv, gen.iter)
        if len(comp.generators) != 1 or gen.ifs or gen.is_async or kind is None:
            self.undecided(fn, e)
        v2 = dict(vals)
        for x in ast.walk(gen.target):
            if isinstance(x, ast.Name):
                v2[x.id] = "?"
        outs = self.ev(fn, tv, v2, comp.elt)
        good = {_truth(o[0]) for o in outs if not o[1]}
        fail = {_truth(o[0]) for o in outs if o[1]}
        empty = is_all
        res = {(v, False) for v in good | {empty}}
        absorbing = not is_all                       # all(): False absorbs; any(): True absorbs
        if absorbing in fail:
            res.add((absorbing, True))
        if (not absorbing) in fail:
            res |= {(v, True) for v in good | {not absorbing}}
        if "?" in fail:
            res.add(("?", True))
        return [(v, f, True, kind == "full", None) for (v, f) in sorted(res, key=repr)]

    def through_helper(self, fn, tv, c, g):
        params = first_positional_params(g)
        sub_tv, kind = None, None
        for i, a in enumerate(c.args):
            if isinstance(a, ast.Starred):
                self.undecided(fn, c)
            k = self.kind_of(fn, tv, a)
            if k:
                if i >= len(params) or sub_tv is not None:
                    self.undecided(fn, c)
                sub_tv, kind = params[i], k
        for kw in c.keywords:
            k = self.kind_of(fn, tv, kw.value)
            if k:
                if kw.arg not in params or sub_tv is not None:
                    self.undecided(fn, c)
                sub_tv, kind = kw.arg, k
        return [(v, f, t, d and kind == "full", org) for ((v, f, t, d), org) in
                sorted(self.summary(g, sub_tv).items(), key=lambda x: repr(x[0]))]

    # -- one function: {(value, failed, tested, done): origin}
    def summary(self, g, tv):
        key = (g.qual, tv)
        if key in self.memo:
            return self.memo[key]
        if key in self.stack:
            raise AnalysisError("%s: recursive evaluation of the %s" % (short(g), self.what))
        self.stack.append(key)
        try:
            out = self._explore(g, tv)
        finally:
            self.stack.pop()
        self.memo[key] = out
        return out

    def _report(self, fn, node, msg, w):
        k = (fn.qual, fn.loc(node), msg)
        if k not in self.reported:
            self.reported.add(k)
            self.r.violation(fn, fn.loc(node), "%s: %s" % (short(fn), msg), w)

    def _explore(self, g, tv):
        cfg = g.cfg()
        self.tvs[g.qual] = tv
        heads = {}
        for n in cfg.nodes:
            if n.kind == "iter":
                k = self.kind_of(g, tv, n.ast.iter)
                if k:
                    heads[n.id] = k
        s0 = (cfg.entry.id, ((), False, None, False, ""))
        visited, parent, work, returns = {s0}, {s0: None}, [s0], {}
        i = 0
        while i < len(work):
            cur = work[i]
            i += 1
            nid, st = cur
            n = cfg.nodes[nid]
            vals, failed, tested, done, bad = st
            if bad:
                self._report(g, n.ast, bad, witness(cfg, parent, cur))
                continue
            if is_return(n) or n.kind == "exit":
                for o in self.ev(g, tv, dict(vals), n.ast.value if is_return(n) else None):
                    key = (o[0], failed or o[1], tested is True or o[2] or bool(heads), done or o[3])
                    returns.setdefault(key, o[4] or (g, n.ast, witness(cfg, parent, cur)))
                continue
            for (d, lab) in cfg.succ[nid]:
                for ns in self._step(g, tv, heads, n, lab, cfg.nodes[d], st):
                    nxt = (d, ns)
                    if nxt not in visited:
                        visited.add(nxt)
                        parent[nxt] = (cur, lab)
                        work.append(nxt)
                        if len(visited) > 20000:
                            raise AnalysisError("state explosion in %s" % g.qual)
        self.r.count(len(visited))
        return returns

    def _step(self, g, tv, heads, n, lab, nxt, st):
        vals, failed, tested, done, bad = st
        if lab == "exc":
            return []
        V = dict(vals)
        a = n.ast
        outs = [(None, False, False, False, None)]
        target = None                      # plain local name receiving the evaluated value
        combine = None
        if n.kind == "stmt":
            if isinstance(a, ast.Assign):
                outs = self.ev(g, tv, V, a.value)
                if all(isinstance(t, ast.Name) for t in a.targets):
                    target = [t.id for t in a.targets]
            elif isinstance(a, ast.AnnAssign) and a.value is not None:
                outs = self.ev(g, tv, V, a.value)
                if isinstance(a.target, ast.Name):
                    target = [a.target.id]
            elif isinstance(a, ast.AugAssign):
                outs = self.ev(g, tv, V, a.value)
                if isinstance(a.target, ast.Name) and isinstance(a.op, (ast.BitAnd, ast.BitOr)):
                    target = [a.target.id]
                    absorb = isinstance(a.op, ast.BitOr)
                    old = _truth(V.get(a.target.id, "?"))
                    combine = lambda v, _o=old, _a=absorb: _a if (_o is _a or _truth(v) is _a) else \
                        ("?" if "?" in (_o, _truth(v)) else (not _a))
                elif any(o[2] for o in outs):
                    self.undecided(g, a)
            elif isinstance(a, ast.Expr):
                outs = self.ev(g, tv, V, a.value)
            elif isinstance(a, (ast.FunctionDef, ast.AsyncFunctionDef, ast.ClassDef)):
                pass
            elif self.mentions(g, a):
                self.undecided(g, a)
        elif n.kind == "test":
            want = lab[0] == "T" if isinstance(lab, tuple) else None
            outs = [o for o in self.ev(g, tv, V, a) if want is None or _truth(o[0]) in (want, "?")]
            if isinstance(a, ast.Name) and want is not None:
                V[a.id] = want if V.get(a.id, "?") == "?" else V[a.id]
        elif a is not None and n.kind in ("with", "iter"):
            parts = [it.context_expr for it in a.items] if n.kind == "with" else [a.iter]
            if any(self.mentions(g, p) for p in parts):
                self.undecided(g, parts[0])
        res = []
        for o in outs:
            W = dict(V)
            stored = {s for s in node_stores(n) if s.isidentifier()}
            if n.kind == "iter" and lab != "iter":
                stored = set()
            for s in stored:
                W[s] = "?"
            if target:
                for t in target:
                    W[t] = combine(o[0]) if combine else (o[0] if o[0] in (True, False, None) else "?")
            f2, t2, d2, b2 = failed or o[1], (True if o[2] else tested), done or o[3], ""
            if n.kind == "iter" and n.id in heads:
                if lab == "iter":
                    t2 = False
                elif lab == "done" and heads[n.id] == "full":
                    d2 = True
            if nxt.kind == "iter" and nxt.id in heads and nxt.id != n.id and t2 is False and not f2:
                b2 = "an iteration completes without evaluating the %s, although none has failed yet" % self.what
            res.append((tuple(sorted(W.items(), key=lambda kv: kv[0])), f2, t2, d2, b2))
        return res

    # -- the property of the entry point
    def judge(self, fn, tv):
        if not self.has_prim(fn):
            raise AnchorVanished("%s no longer evaluates the %s" % (short(fn), self.what))
        outs = self.summary(fn, tv)
        unknown = []
        for (v, f, t, d), (of, node, w) in sorted(outs.items(), key=lambda x: repr(x[0])):
            show = {True: "True", False: "False", None: "None", "?": "an undetermined value"}[v]
            if v == "?":
                unknown.append((of, node, f))
                continue
            if f and _truth(v) is not False:
                self._report(of, node, "returns %s after a failing %s: the verdict is not the conjunction of all "
                             "comparisons (a later success overrides an earlier failure)" % (show, self.what), w)
            elif not f and _truth(v) is not True:
                self._report(of, node, "returns %s although every %s succeeded" % (show, self.what), w)
            elif not f and not d:
                loops = [x for x in func_own_nodes(of) if isinstance(x, (ast.For, ast.While, ast.ListComp, ast.GeneratorExp,
                                                                         ast.SetComp, ast.DictComp))]
                known = [x for x in loops if isinstance(x, ast.For) and self.kind_of(of, self.tvs.get(of.qual), x.iter)]
                if loops and not known:
                    raise AnalysisError("%s: the iteration over the entries is not recognised" % short(of))
                self._report(of, node, "returns True before every entry was examined (no %s failed so far)" % self.what, w)
        for (of, node, f) in unknown:
            raise AnalysisError("%s: the returned value '%s' is not determined by the %s outcomes" % (
                short(of), src(of, node) if node is not None else "None", self.what))


# ------------------------------------------------- loops over the request
def raise_name(n):
    e = n.ast.exc
    if isinstance(e, ast.Call):
        e = e.func
    return e.id if isinstance(e, ast.Name) else (e.attr if isinstance(e, ast.Attribute) else None)


def loops_around(fn, target):
    """The ``for`` statements of fn whose body holds the AST node `target`, outermost first."""
    out = []
    for L in func_own_nodes(fn):
        if isinstance(L, ast.For) and any(x is target for b in L.body for x in ast.walk(b)):
            out.append((sum(1 for _ in ast.walk(L)), L))
    return [L for (_k, L) in sorted(out, key=lambda x: -x[0])]


def head_of(fn, cfg, L):
    hs = [n for n in cfg.nodes if n.kind == "iter" and n.ast is L]
    if not hs:
        raise AnalysisError("%s: loop at line %s has no node in the control-flow graph" % (short(fn), L.lineno))
    return hs[0]


def peel_vector(e):
    """Strip order-changing / copying wrappers and slices: (inner expression, every entry kept?)."""
    whole = True
    while True:
        if isinstance(e, ast.Call) and isinstance(e.func, ast.Name) and e.func.id in _WRAPPERS and len(e.args) == 1 \
                and not isinstance(e.args[0], ast.Starred) and not e.keywords:
            e = e.args[0]
        elif isinstance(e, ast.Call) and isinstance(e.func, ast.Attribute) and e.func.attr == "copy" and not e.args and not e.keywords:
            e = e.func.value
        elif isinstance(e, ast.Subscript) and isinstance(e.slice, ast.Slice):
            whole = whole and _whole_slice(e.slice)
            e = e.value
        else:
            return e, whole


def loop_coverage(fn, tw, L):
    """Which entries of the collection parameter `tw` does loop L visit: 'full', 'part', 'unrelated' (the iterable
    does not derive from tw at all) or 'unknown'."""
    k = vector_kind(fn, tw, L.iter)
    if k:
        return k
    base = peel_vector(L.iter)[0]
    if isinstance(base, ast.Call) and isinstance(base.func, ast.Attribute) and base.func.attr in ("items", "keys", "values") \
            and not base.args and not base.keywords:
        base = peel_vector(base.func.value)[0]
    if isinstance(base, ast.Name) and base.id != tw and base.id in fn.params and not any(
            isinstance(x, ast.Name) and x.id == base.id and isinstance(x.ctx, (ast.Store, ast.Del)) for x in func_own_nodes(fn)):
        return "unrelated"          # another parameter, never re-bound: not the request's collection of vectors
    return "unknown" if tw in depends_on(fn, L.iter) else "unrelated"


def bound_names(t):
    return {x.id for x in ast.walk(t) if isinstance(x, ast.Name)}


def share_component(fn, fnm, n, e, tw, loops):
    """Does expression `e` (evaluated at CFG node n) denote element i of the request's vector tuple ``tw[key]`` of the
    share that one of the enclosing `loops` is visiting?  -> (that loop, i, every entry kept?) or None.  The loop
    may bind the key (``for k in tw``), key and tuple (``for k, v in tw.items()``) or the unpacked tuple."""
    e0, whole = peel_vector(e)
    s = fnm.norm(n, e0)
    for L in reversed(loops):
        it = peel_vector(L.iter)[0]
        view = it.func.attr if isinstance(it, ast.Call) and isinstance(it.func, ast.Attribute) and not it.args \
            and it.func.attr in ("items", "values") else None
        items = view == "items"
        t = L.target
        if view == "values":
            # ``for vectors in tw.values()`` / ``for (testv, datav, new_length) in tw.values()``: no key is bound
            if vector_kind(fn, tw, it.func.value) is None:
                continue
            key = None
        else:
            key = t if isinstance(t, ast.Name) and not items else (
                t.elts[0] if items and isinstance(t, ast.Tuple) and len(t.elts) == 2 and isinstance(t.elts[0], ast.Name) else None)
            if key is None:
                continue
            for i in range(8):
                if s == norm_src("%s[%s][%d]" % (tw, key.id, i)):
                    return L, i, whole
        if view:
            v = t.elts[1] if items else t
            if isinstance(v, ast.Name):
                for i in range(8):
                    if s == norm_src("%s[%d]" % (v.id, i)):
                        return L, i, whole
            elif isinstance(v, (ast.Tuple, ast.List)):
                for i, x in enumerate(v.elts):
                    if isinstance(x, ast.Name) and s == x.id:
                        return L, i, whole
    return None


def iteration_avoiding(cfg, head, gate_node, gate_edge=None):
    """Witness of ONE iteration of the loop (head --iter--> .. --> head) on which no gate node was left and no gate
    edge was taken; None when every iteration passes a gate.  Exceptional edges are not followed."""
    def tr(n, lab, nxt, st):
        if st == "END" or lab == "exc":
            return None
        if n is head and lab != "iter":
            return None
        if n is not head and gate_node(n):
            return None
        if gate_edge is not None and gate_edge(n, lab):
            return None
        return "END" if nxt is head else "RUN"
    vis, par = explore(cfg, "RUN", tr, start=head)
    for (nid, st) in sorted(vis, key=lambda x: (x[0], str(x[1]))):
        if st == "END":
            return witness(cfg, par, (nid, st))
    return None


# ------------------------------------------------- quantified refusals as loops
class _Rename(ast.NodeTransformer):
    def __init__(self, mapping):
        self.mapping = mapping

    def visit_Name(self, node):
        if node.id in self.mapping:
            node.id = self.mapping[node.id]
        return node


def _quantified_refusal(st):
    """``if any(E for ..): <..; raise>`` / ``if not all(E for ..): <..; raise>`` -> (comprehension, negate E?) or None.
    Only a body that cannot complete normally is accepted: then the statement means the same as the nested loops
    ``for ..: if E: <..; raise>`` (the body runs at most once either way)."""
    if not isinstance(st, ast.If) or st.orelse or not st.body or not isinstance(st.body[-1], ast.Raise):
        return None
    if any(isinstance(x, (ast.For, ast.While, ast.Try, ast.With, ast.If)) for x in st.body):
        return None
    t, neg = st.test, False
    while isinstance(t, ast.UnaryOp) and isinstance(t.op, ast.Not):
        t, neg = t.operand, not neg
    if not (isinstance(t, ast.Call) and isinstance(t.func, ast.Name) and t.func.id in ("any", "all") and len(t.args) == 1
            and not t.keywords and isinstance(t.args[0], (ast.GeneratorExp, ast.ListComp, ast.SetComp))):
        return None
    if (t.func.id == "all") != neg:
        return None                   # `if all(..): raise` / `if not any(..): raise` are not existential refusals
    comp = t.args[0]
    if any(g.is_async for g in comp.generators):
        return None
    return comp, neg


def loops_for_quantifiers(fn):
    """A refusal written with a quantifier over the request - ``if any(cond for .. in vectors for .. in datav): raise`` -
    is the same loop nest as the statement form.  -> (function to analyse, {id(original ast node): node in it}); the
    function itself when it holds no such statement.  Names the comprehension binds live in its own scope: where one
    collides with a parameter or another binding of the function it is renamed in the loop form."""
    if not any(_quantified_refusal(x) for x in func_own_nodes(fn)):
        return fn, None
    import copy
    memo = {}
    node = copy.deepcopy(fn.node, memo)
    taken = set(fn.params)
    counter = [0]

    def stored_outside(root, skip):
        out = {}
        inside = {id(x) for x in ast.walk(skip)}
        for x in ast.walk(root):
            if isinstance(x, ast.Name) and isinstance(x.ctx, (ast.Store, ast.Del)) and id(x) not in inside:
                out[x.id] = out.get(x.id, 0) + 1
        return out

    class T(ast.NodeTransformer):
        def visit_FunctionDef(self, n):
            if n is node:
                self.generic_visit(n)
            return n
        visit_AsyncFunctionDef = visit_FunctionDef

        def visit_Lambda(self, n):
            return n

        def visit_If(self, st):
            self.generic_visit(st)
            q = _quantified_refusal(st)
            if q is None:
                return st
            comp, neg = q
            bound = set()
            for g in comp.generators:
                bound |= bound_names(g.target)
            other = stored_outside(node, comp)
            clash = {b for b in bound if b in taken or b in other}
            if clash:
                counter[0] += 1
                ren = _Rename({b: "%s_q%d" % (b, counter[0]) for b in clash})
                first = comp.generators[0].iter      # evaluated in the enclosing scope
                comp.generators[0].iter = ast.Constant(value=None)
                ren.visit(comp)
                comp.generators[0].iter = first
            elt = comp.elt
            cond = ast.UnaryOp(op=ast.Not(), operand=elt) if neg else elt
            ast.copy_location(cond, elt)
            inner = ast.If(test=cond, body=st.body, orelse=[])
            ast.copy_location(inner, st)
            stmt = inner
            for g in reversed(comp.generators):
                for c in reversed(g.ifs):
                    stmt = ast.copy_location(ast.If(test=c, body=[stmt], orelse=[]), st)
                stmt = ast.copy_location(ast.For(target=g.target, iter=g.iter, body=[stmt], orelse=[], type_comment=None), st)
            return stmt
    T().visit(node)
    ast.fix_missing_locations(node)
    g = FuncInfo(fn.module, node, fn.qual, fn.cls, fn.parent)
    g.nested = dict(fn.nested)
    return g, memo


def as_loops(cand):
    """(function, vectors parameter, raise node) with quantified refusals of the function spelled as loops."""
    vf, vtw, rn = cand
    g, memo = loops_for_quantifiers(vf)
    if g is vf:
        return cand
    want = memo.get(id(rn.ast))
    hit = [m for m in g.cfg().nodes if is_raise(m) and m.ast is want]
    if len(hit) != 1:
        raise AnalysisError("%s: the refusal '%s' is not found again after spelling the quantified checks as loops" % (
            short(vf), src(vf, rn.ast)))
    return (g, vtw, hit[0])


def data_loop_of(vf, vcfg, vnm, vtw, rn):
    """The innermost loop around the raise statement `rn` of vf that walks an element of the vector tuple of the share an
    outer loop is visiting -> (that loop, its CFG head, the share loop, element index, every entry kept?) or None."""
    loops = loops_around(vf, rn.ast)
    for j in range(len(loops) - 1, -1, -1):
        h = head_of(vf, vcfg, loops[j])
        comp = share_component(vf, vnm, h, loops[j].iter, vtw, loops[:j])
        if comp:
            return (loops[j], h) + comp
    return None


def validation_gaps(vf, vtw, rn, data_idx, what):
    """The raise statement `rn` of function vf refuses a request before anything was written.  For that to protect
    all-or-nothing it has to be evaluated for every write of every share the request names (collection parameter
    vtw; the data vector is element data_idx of a share's tuple).  -> [(ast node, message, witness)] of the ways it
    falls short; AnalysisError when the loops are not of a recognised form."""
    vcfg = vf.cfg()
    vnm = FlowNorm(vf)
    found = data_loop_of(vf, vcfg, vnm, vtw, rn)
    if found is None:
        raise AnalysisError("%s: the early check raising %s is not recognised as a loop over the write vectors of the "
                            "request's shares" % (short(vf), what))
    L, h, KL, i, whole = found
    gaps = []
    if i != data_idx:
        gaps.append((L, "the early %s check walks element %d of a share's vectors, not its data vector (element %d)" % (what, i, data_idx), None))
    if not whole:
        gaps.append((L, "the early %s check looks at %s only, not at every write of the share" % (what, src(vf, L.iter)), None))
    cov = loop_coverage(vf, vtw, KL)
    if cov == "unknown":
        raise AnalysisError("%s: cannot decide which shares '%s' visits" % (short(vf), src(vf, KL.iter)))
    if cov != "full":
        gaps.append((KL, "the early %s check visits %s, not every share the request names" % (what, src(vf, KL.iter)), None))
    kh = head_of(vf, vcfg, KL)
    for hh in (kh, h):
        b = loop_early_exit(vcfg, hh)
        if b is not None:
            gaps.append((b.ast, "the early %s check can stop before every write of every share was examined" % what, None))
    vec = vnm.norm(h, peel_vector(L.iter)[0])

    def empty_vector(n, lab):
        f = vnm.edge_fact(n, lab)
        return f is not None and (f[:2] == ("false", vec) or (f[0] == "==" and {f[1], f[2]} == {"len(%s)" % vec, "0"}))
    w = iteration_avoiding(vcfg, kh, lambda m: m is h, gate_edge=empty_vector)
    if w is not None:
        gaps.append((KL, "the early %s check can pass a share over without examining its writes (path: %s)" % (what, w.brief()), w))
    tests = [t for t in vcfg.nodes if t.kind == "test" and t.ast is not None and any(x is t.ast for b in L.body for x in ast.walk(b))
             and rn.id in fwd(vcfg, [t.id], stop=h.id)]
    if tests:
        tids = {t.id for t in tests}
        w = iteration_avoiding(vcfg, h, lambda m: m.id in tids)
        if w is not None:
            gaps.append((L, "the early %s check can pass a write over without testing it (path: %s)" % (what, w.brief()), w))
        deps = set()
        for t in tests:
            deps |= depends_on(vf, t.ast)
        missing = sorted(bound_names(L.target) - deps)
        if missing:
            gaps.append((tests[-1].ast, "the early %s check does not depend on '%s' of each write: a write it lets through can still be "
                         "refused while it is applied" % (what, "', '".join(missing)), None))
    return gaps


# ------------------------------------------------- the two size limits agree (C24.12)
W_OFF, W_LEN = "write.offset", "len(write.data)"
_VEC, _PAIR, _DATA = ("vec",), ("pair",), ("data",)
_PLAIN_WRAPPERS = ("list", "tuple", "iter", "reversed", "sorted")


def _plain_vector(e):
    """Strip wrappers and slices that keep the shape of the elements (not enumerate / zip)."""
    while True:
        if isinstance(e, ast.Call) and isinstance(e.func, ast.Name) and e.func.id in _PLAIN_WRAPPERS and len(e.args) == 1 \
                and not isinstance(e.args[0], ast.Starred) and not e.keywords:
            e = e.args[0]
        elif isinstance(e, ast.Call) and isinstance(e.func, ast.Attribute) and e.func.attr == "copy" and not e.args and not e.keywords:
            e = e.func.value
        elif isinstance(e, ast.Subscript) and isinstance(e.slice, ast.Slice):
            e = e.value
        else:
            return e


class WriteTerms:
    """The integer expressions of ONE function as polynomials over the two quantities of one write of the request -
    its offset and the length of its data - and folded constants; everything else (share state, other locals) is an
    opaque atom.  `binding` says which names of the function stand for the request's data vector (_VEC), one write
    (_PAIR), its data (_DATA) or a polynomial; loops over the data vector bind their targets.  Names so bound must
    have no other binding in the function (fail closed otherwise)."""

    def __init__(self, idx, fo, fn, binding):
        self.idx, self.fo, self.fn = idx, fo, fn
        self.cfg = fn.cfg()
        self.fnm = FlowNorm(fn)
        self.B = {}
        self.heads = set()
        self.stored = {}
        for x in func_own_nodes(fn):
            if isinstance(x, ast.Name) and isinstance(x.ctx, (ast.Store, ast.Del)):
                self.stored[x.id] = self.stored.get(x.id, 0) + 1
        self.locals = set(self.stored) | set(fn.params)
        for k, v in binding.items():
            self._bind(k, v, 0)

    def _bind(self, name, v, allowed):
        if self.stored.get(name, 0) != allowed or name in self.B:
            raise AnalysisError("%s: '%s' stands for a part of the request's write vector and is bound more than once: the "
                                "size conditions on it cannot be compared" % (short(self.fn), name))
        self.B[name] = v

    def bind_data_loops(self):
        """Bind the targets of every loop of the function that walks the data vector."""
        for L in func_own_nodes(self.fn):
            if isinstance(L, ast.For):
                h = head_of(self.fn, self.cfg, L)
                if h.id not in self.heads and self.value(h, L.iter) == _VEC:
                    self.bind_loop(L, h)
        return self

    def bind_loop(self, L, h):
        t = L.target
        if isinstance(t, ast.Name):
            self._bind(t.id, _PAIR, 1)
        elif isinstance(t, (ast.Tuple, ast.List)) and len(t.elts) == 2 and all(isinstance(x, ast.Name) for x in t.elts):
            self._bind(t.elts[0].id, ("poly", Poly.atom(W_OFF)), 1)
            self._bind(t.elts[1].id, _DATA, 1)
        else:
            raise AnalysisError("%s: the loop over the write vector binds '%s', not one (offset, data) write" % (
                short(self.fn), src(self.fn, t)))
        self.heads.add(h.id)

    def opaque(self, e):
        return ("poly", Poly.atom("~%s:%s" % (self.fn.qual, norm_plain(e))))

    def value(self, n, e, depth=6):
        if isinstance(e, (ast.Call, ast.Subscript)):
            inner = _plain_vector(e)
            if inner is not e and self.value(n, inner, depth) == _VEC:
                return _VEC
        if isinstance(e, ast.Name):
            if e.id in self.B:
                return self.B[e.id]
            d = self.fnm.env_at(n).defs.get(e.id)
            if d is not None and depth > 0:
                return self.value(n, d, depth - 1)
            if e.id not in self.locals:
                return self.folded(e)
            return self.opaque(e)
        if isinstance(e, ast.Constant):
            if isinstance(e.value, int) and not isinstance(e.value, bool):
                return ("poly", Poly.const(e.value))
            return self.opaque(e)
        if isinstance(e, ast.Subscript):
            b = self.value(n, e.value, depth)
            i = e.slice
            if b == _PAIR and isinstance(i, ast.Constant) and i.value in (0, 1) and not isinstance(i.value, bool):
                return ("poly", Poly.atom(W_OFF)) if i.value == 0 else _DATA
            return self.opaque(e)
        if isinstance(e, ast.Call):
            if isinstance(e.func, ast.Name) and e.func.id == "len" and len(e.args) == 1 and not e.keywords \
                    and "len" not in self.locals and self.value(n, e.args[0], depth) == _DATA:
                return ("poly", Poly.atom(W_LEN))
            return self.opaque(e)
        if isinstance(e, ast.Attribute):
            return self.folded(e)
        if isinstance(e, ast.UnaryOp) and isinstance(e.op, (ast.USub, ast.UAdd)):
            v = self.value(n, e.operand, depth)
            if v[0] == "poly":
                return ("poly", -v[1] if isinstance(e.op, ast.USub) else v[1])
            return self.opaque(e)
        if isinstance(e, ast.BinOp) and isinstance(e.op, (ast.Add, ast.Sub, ast.Mult)):
            l, r_ = self.value(n, e.left, depth), self.value(n, e.right, depth)
            if l[0] == "poly" and r_[0] == "poly":
                return ("poly", l[1] + r_[1] if isinstance(e.op, ast.Add) else (l[1] - r_[1] if isinstance(e.op, ast.Sub) else l[1] * r_[1]))
        return self.opaque(e)

    def folded(self, e):
        try:
            v = self.fo.fold(e, self.fn.module, self.fn.cls)
        except NotConstant:
            v = None
        if isinstance(v, int) and not isinstance(v, bool):
            return ("poly", Poly.const(v))
        return self.opaque(e)

    def fact(self, n, lab):
        """The inequality that holds on edge (n, lab) as a polynomial p meaning ``p >= 0`` over the integers, when it
        speaks about the write (and constants) alone; 'other' for any other condition; None for a condition that
        says nothing (not a test edge, or constant)."""
        if n.kind != "test" or not isinstance(lab, tuple) or lab[0] not in ("T", "F"):
            return None
        pol = lab[0] == "T"
        e = n.ast
        if isinstance(e, ast.Name):
            e = self.fnm.resolve(n, e)
        while isinstance(e, ast.UnaryOp) and isinstance(e.op, ast.Not):
            e, pol = e.operand, not pol
        if not isinstance(e, ast.Compare) or len(e.ops) != 1 or not isinstance(e.ops[0], (ast.Lt, ast.LtE, ast.Gt, ast.GtE)):
            return "other"
        l, r_ = self.value(n, e.left), self.value(n, e.comparators[0])
        if l[0] != "poly" or r_[0] != "poly":
            return "other"
        op = type(e.ops[0])
        if not pol:
            op = {ast.Lt: ast.GtE, ast.LtE: ast.Gt, ast.Gt: ast.LtE, ast.GtE: ast.Lt}[op]
        l, r_ = l[1], r_[1]
        p = {ast.Lt: r_ - l - Poly.const(1), ast.LtE: r_ - l, ast.Gt: l - r_ - Poly.const(1), ast.GtE: l - r_}[op]
        if p.is_const():
            return None
        if p.atoms() <= {W_OFF, W_LEN} and all(len(k) <= 1 for k in p.t) and all(v.denominator == 1 for v in p.t.values()):
            return p
        return "other"

    def arriving(self, start, first_label, init, targets, strict_for=None):
        """Explore from `start` (only along `first_label` out of it when given; never back through it) and collect, for
        each target node id, the set of (facts about the current write that hold on arrival, tainted?).  Facts lapse
        when a loop over the data vector moves on to the next write.  With strict_for = a raise node, a condition
        that is not about the write taints the path unless the raise is reached whatever the condition's outcome."""
        cfg = self.cfg
        ignorable = {}

        def decided_anyway(t):
            if t.id not in ignorable:
                seen = fwd(cfg, [d for (d, l) in cfg.succ[t.id] if l != "exc"], stop=strict_for.id)
                ignorable[t.id] = not any(cfg.nodes[x].kind in ("exit", "raise") or x == start.id or is_return(cfg.nodes[x])
                                          for x in seen)
            return ignorable[t.id]

        def tr(n, lab, nxt, st):
            if lab == "exc":
                return None
            if n is start:
                if st[0] != "START" or (first_label is not None and lab != first_label):
                    return None
                st = ("RUN",) + st[1:]
            _tag, facts, taint = st
            if n.kind == "iter" and lab == "iter" and n.id in self.heads:
                facts = frozenset()
            f = self.fact(n, lab)
            if isinstance(f, Poly):
                facts = facts | {f}
            elif f == "other" and strict_for is not None and not decided_anyway(n):
                taint = True
            return ("RUN", facts, taint)
        vis, _par = explore(cfg, ("START", frozenset(init), False), tr, start=start, max_states=20000)
        out = {}
        for (nid, st) in vis:
            if nid in targets and st[0] == "RUN":
                out.setdefault(nid, set()).add((st[1], st[2]))
        return out


def show_fact(p):
    """``p >= 0`` in readable form: <write terms> >= <constant>."""
    lhs = Poly({k: v for k, v in p.t.items() if k != ()})
    c = -p.t.get((), 0)
    neg = all(v < 0 for v in lhs.t.values())
    if neg:
        return "%s <= %s" % (str(-lhs).strip("()"), -c)
    return "%s >= %s" % (str(lhs).strip("()"), c)


def fact_implies(l, e):
    """(l >= 0) implies (e >= 0) for every write (data length >= 0; nothing is assumed about the offset)."""
    d = e - l
    return all(k in ((), (W_LEN,)) for k in d.t) and all(v >= 0 for v in d.t.values())


class LateRefusals:
    """Every point below a write step at which the request-validation error `name` is raised explicitly, with the facts
    about the write being applied that hold there: the call chain is followed through the storage package with the
    callee's parameters bound to what the call site passes (the data vector, one write, its data, or a polynomial
    over the write's offset and data length)."""

    def __init__(self, idx, fo, fx, rz, name):
        self.idx, self.fo, self.fx, self.rz, self.name = idx, fo, fx, rz, name
        self.out, self.seen, self.states = [], set(), 0

    def enter(self, g, binding, prefix, chain=()):
        key = (g.qual, tuple(sorted((k, str(v[-1])) for k, v in binding.items())), prefix)
        if key in self.seen:
            return
        self.seen.add(key)
        if len(self.seen) > 400 or g.qual in chain:
            raise AnalysisError("%s: the call chain below the write step is too deep / recursive to compare the size "
                                "conditions on it" % short(g))
        wt = WriteTerms(self.idx, self.fo, g, binding).bind_data_loops()
        cfg = wt.cfg
        reach = cfg.reachable_nodes()
        raises_, callers = {}, {}
        for n in cfg.nodes:
            if n.id not in reach or n.kind in ("entry", "exit", "raise"):
                continue
            if is_raise(n):
                if raise_name(n) == self.name and self.name in self.rz.node_raises(g, cfg, n, frozenset([g.qual])):
                    raises_[n.id] = n
                continue
            if self.name not in self.rz.node_raises(g, cfg, n, frozenset([g.qual])):
                continue
            hs = []
            for c in node_calls(n, into_lambda=True):
                for h in self.fx.callees(g, c):
                    if h.module.name.startswith(STORAGE_PREFIX) and self.name in self.rz.of(h):
                        hs.append((c, h))
            if not hs:
                raise AnalysisError("%s: cannot tell which callee of '%s' raises %s" % (short(g), src(g, n.ast), self.name))
            callers[n.id] = (n, hs)
        arr = wt.arriving(cfg.entry, None, prefix, set(raises_) | set(callers))
        self.states += len(cfg.nodes)
        for nid in sorted(set(raises_) | set(callers)):
            if nid not in arr:
                raise AnalysisError("%s: '%s' can raise %s but is reached only along exceptional edges" % (
                    short(g), src(g, cfg.nodes[nid].ast), self.name))
        for nid, n in sorted(raises_.items()):
            for (facts, _t) in sorted(arr[nid], key=lambda x: sorted(map(str, x[0]))):
                self.out.append((g, n, facts))
        for nid, (n, hs) in sorted(callers.items()):
            for (c, h) in hs:
                if any(isinstance(a, ast.Starred) for a in c.args) or any(k.arg is None for k in c.keywords):
                    raise AnalysisError("%s: '%s' passes its arguments with * / **: what %s receives is not decided" % (
                        short(g), src(g, c), short(h)))
                ps = first_positional_params(h)
                b2 = {}
                for i, a in enumerate(c.args):
                    if i < len(ps):
                        b2[ps[i]] = wt.value(n, a)
                for kw in c.keywords:
                    if kw.arg in h.params:
                        b2[kw.arg] = wt.value(n, kw.value)
                b2 = {k: v for k, v in b2.items() if v in (_VEC, _PAIR, _DATA) or (v[0] == "poly" and not any(
                    a.startswith("~") for a in v[1].atoms()))}
                for (facts, _t) in sorted(arr[nid], key=lambda x: sorted(map(str, x[0]))):
                    self.enter(h, b2, facts, chain + (g.qual,))


# ------------------------------------------------- the bucket directory while a request is applied (C24.13)
DIR_ENSURE_IDEMPOTENT = {"fileutil.make_dirs", "fileutil.make_dirs_with_absolute_mode"}
DIR_CREATE_ONCE = {"os.mkdir", "os.makedirs"}
DIR_REMOVE = {"os.rmdir", "os.removedirs", "shutil.rmtree", "fileutil.rm_dir", "fileutil.rmtree"}
DIR_PROBES = ("os.path.isdir", "os.path.exists", "os.path.lexists")


class BucketDirState:
    """Typestate of ONE directory along every path of a request: U (nothing known), E (exists: it was ensured, probed
    present, or a file was just created in it), N (probed absent, or the guard of an ensure step decided that it is not
    needed) and R (removed by a step of this same request).  The call chain is followed through the storage package
    wherever the directory is handed on as an argument (the callee's parameter then stands for it); per function a
    summary {state on entry -> states on return} is computed.  Reported: a file created inside the directory in state R
    (nothing re-created it: the creation fails with FileNotFoundError) and a create-once step (os.mkdir / os.makedirs
    without exist_ok) in state E (FileExistsError).  Either aborts the write stage in the middle of a request."""

    def __init__(self, r, fx):
        self.r, self.fx = r, fx
        self.memo, self.stack, self.reported = {}, [], set()
        self.sites = {"create": {}, "ensure": {}, "remove": {}}
        self.states = 0

    # -- what one call does to the directory `dn` (a normal form valid in fn)
    def denotes(self, fnm, n, e, dn):
        return e is not None and not isinstance(e, ast.Starred) and fnm.norm(n, e) == dn

    def inside(self, fnm, n, e, dn):
        if e is None or isinstance(e, ast.Starred):
            return False
        s = fnm.norm(n, e)
        return s.startswith("os.path.join(%s," % dn)

    def classify(self, fn, fnm, n, c, dn):
        """-> list of ops of call c: ('ensure'|'once'|'remove'|'create', call) or ('call', call, callee, its parameter)."""
        name = call_name(c)
        args = list(c.args) + [k.value for k in c.keywords]
        a0 = c.args[0] if c.args else None
        if self.denotes(fnm, n, a0, dn):
            if name in DIR_ENSURE_IDEMPOTENT:
                return [("ensure", c)]
            if name in DIR_CREATE_ONCE:
                eo = kwarg(c, "exist_ok") if name == "os.makedirs" else None
                if eo is None and name == "os.makedirs" and len(c.args) >= 3:
                    eo = c.args[2]
                if isinstance(eo, ast.Constant) and eo.value is True:
                    return [("ensure", c)]
                return [("once", c)]
            if name in DIR_REMOVE:
                return [("remove", c)]
        out = []
        if any(self.inside(fnm, n, a, dn) for a in args):
            eff = self.fx.call_effects(fn, c)
            if any("open(.." in e for e in eff):
                out.append(("create", c))
        for g in self.fx.callees(fn, c):
            if not g.module.name.startswith(STORAGE_PREFIX):
                continue
            ps = first_positional_params(g)
            got = [ps[i] for i, a in enumerate(c.args) if i < len(ps) and self.denotes(fnm, n, a, dn)]
            got += [k.arg for k in c.keywords if k.arg in g.params and self.denotes(fnm, n, k.value, dn)]
            if len(got) == 1:
                out.append(("call", c, g, got[0]))
            elif got:
                raise AnalysisError("%s: '%s' hands the directory to %s more than once" % (short(fn), src(fn, c), short(g)))
        return out

    def probe(self, fnm, n, lab, dn):
        f = fnm.edge_fact(n, lab)
        if f is None or f[0] not in ("truth", "false") or f[2] is not None:
            return None
        if f[1] in tuple("%s(%s)" % (p, dn) for p in DIR_PROBES):
            return "E" if f[0] == "truth" else "N"
        return None

    def caught(self, cfg, n):
        for (d, l) in cfg.succ[n.id]:
            h = cfg.nodes[d]
            if l == "exc" and h.kind == "except":
                t = h.ast.type
                names = [None] if t is None else [attr_path(x) for x in (t.elts if isinstance(t, ast.Tuple) else [t])]
                if any(x in (None, "OSError", "FileExistsError", "EnvironmentError", "IOError", "Exception", "BaseException")
                       for x in names):
                    return True
        return False

    def summary(self, fn, dn, s_in):
        """-> (states on normal return, {(kind, function, ast node)}: faults that entering in state s_in leads to)."""
        key = (fn.qual, dn, s_in)
        if key in self.memo:
            return self.memo[key]
        if key in self.stack or len(self.stack) > 12:
            raise AnalysisError("%s: recursive / too deep call chain while following the bucket directory" % short(fn))
        self.stack.append(key)
        try:
            out = self._explore(fn, dn, s_in, root=False)
        finally:
            self.stack.pop()
        self.memo[key] = out
        return out

    def _explore(self, fn, dn, s_in, root):
        cfg = fn.cfg()
        fnm = FlowNorm(fn)
        if not root and any(isinstance(x, ast.Name) and x.id == dn and isinstance(x.ctx, (ast.Store, ast.Del)) for x in func_own_nodes(fn)):
            raise AnalysisError("%s: the parameter '%s' that stands for the bucket directory is re-bound" % (short(fn), dn))
        ops = {}
        for n in cfg.nodes:
            if n.kind in ("entry", "exit", "raise") or n.ast is None:
                continue
            lst = []
            for c in node_calls(n):
                lst.extend(self.classify(fn, fnm, n, c, dn))
            if len(lst) > 1:
                raise AnalysisError("%s: '%s' acts on the bucket directory more than once in one statement" % (short(fn), src(fn, n.ast)))
            if lst:
                ops[n.id] = lst[0]
                kind = "ensure" if lst[0][0] == "once" else lst[0][0]
                if kind in self.sites:
                    self.sites[kind][(fn.qual, id(lst[0][1]))] = (fn, lst[0][1])
        # a test that decides whether the directory gets ensured: the other branch means "not needed"
        guards = set()
        for n in cfg.nodes:
            if n.kind == "test" and not any(isinstance(x, ast.Call) and call_name(x).split(".")[0] in ("os", "fileutil", "shutil")
                                            for x in ast.walk(n.ast)):
                for (d, l) in cfg.succ[n.id]:
                    if l != "exc" and ops.get(d, ("",))[0] in ("ensure", "once"):
                        guards.add(n.id)
        s0 = (cfg.entry.id, (s_in, root))
        visited, parent, work = {s0}, {s0: None}, [s0]
        outs, faults = set(), set()
        i = 0

        def fault(kind, where_fn, node, cur, local, how):
            if not local:
                faults.add((kind, where_fn, node, how))
                return
            k = (fn.qual, kind, where_fn.qual, id(node))
            if k in self.reported:
                return
            self.reported.add(k)
            w = witness(cfg, parent, cur)
            n = cfg.nodes[cur[0]]
            at = "" if where_fn is fn else " (in %s: %s)" % (short(where_fn), src(where_fn, node))
            if kind == "create":
                msg = ("%s: '%s'%s creates a share file in the bucket directory after an earlier step of the same request "
                       "removed that directory%s and nothing re-created it on this path: the creation fails (FileNotFoundError) "
                       "in the middle of the write stage, after earlier shares were already modified or deleted (path: %s)" % (
                           short(fn), src(fn, n.ast), at, how, w.brief()))
            else:
                msg = ("%s: '%s'%s creates the bucket directory with a call that fails when it already exists, and on this "
                       "path it exists%s: FileExistsError in the middle of the write stage, after earlier shares were "
                       "already modified (path: %s)" % (short(fn), src(fn, n.ast), at, how, w.brief()))
            self.r.violation(fn, fn.loc(n.ast), msg, w)
        while i < len(work):
            cur = work[i]
            i += 1
            nid, (st, local) = cur
            n = cfg.nodes[nid]
            if n.kind == "exit":
                outs.add(st)
                continue
            if n.kind == "raise" or is_raise(n):
                continue
            nexts = [(st, local)]
            op = ops.get(nid)
            if op is not None:
                kind = op[0]
                if kind == "ensure":
                    nexts = [("E", True)]
                elif kind == "once":
                    if st == "E" and not self.caught(cfg, n):
                        fault("once", fn, op[1], cur, local, "")
                    nexts = [("E", True)]
                elif kind == "remove":
                    nexts = [("R", True)]
                elif kind == "create":
                    if st == "R":
                        fault("create", fn, op[1], cur, local, "")
                    nexts = [("E", True)]
                elif kind == "call":
                    _k, c, g, p = op
                    g_outs, g_faults = self.summary(g, p, st)
                    for (fk, ff, fnode, _how) in sorted(g_faults, key=lambda x: (x[0], x[1].qual, getattr(x[2], "lineno", 0))):
                        fault(fk, ff, fnode, cur, local, "")
                    nexts = [(o, local or o != st) for o in sorted(g_outs)]
            for (d, lab) in cfg.succ[nid]:
                if lab == "exc":
                    continue
                for (s2, l2) in nexts:
                    if n.kind == "test":
                        pr = self.probe(fnm, n, lab, dn)
                        if pr is not None and not (pr == "N" and s2 == "R"):
                            s2, l2 = pr, (l2 if pr == s2 else True)
                        elif nid in guards and ops.get(d, ("",))[0] not in ("ensure", "once") and s2 == "R":
                            s2 = "N"
                    nxt = (d, (s2, l2))
                    if nxt not in visited:
                        visited.add(nxt)
                        parent[nxt] = (cur, lab)
                        work.append(nxt)
        self.states += len(visited)
        return outs, faults


# -------------------------------------------------------------------- rules
def run(ctx: Context):
    idx = ctx.idx
    cg = get_callgraph(idx)
    fx = FSEffects(idx)
    COLLECT = "_collect_mutable_shares_for_storage_index"

    slot = idx.func(SRV + ".slot_testv_and_readv_and_writev")
    sp = first_positional_params(slot)
    p_si, p_secrets, p_tw, p_rv = sp[0], sp[1], sp[2], sp[3]
    cfg = slot.cfg()
    fnm = FlowNorm(slot)

    def one_call(tail):
        ns = [(n, c) for n in cfg.nodes for c in calls_at(n, tail) if call_name(c) == "self." + tail]
        if len(ns) != 1:
            raise AnchorVanished("expected exactly one call of %s in slot_testv_and_readv_and_writev, found %d" % (tail, len(ns)))
        return ns[0]
    coll_n, coll_c = one_call(COLLECT)
    test_n, test_c = one_call("_evaluate_test_vectors")
    reads = [(n, c) for n in cfg.nodes for c in calls_at(n, "_evaluate_read_vectors") if call_name(c) == "self._evaluate_read_vectors"]
    if not reads:
        raise AnchorVanished("no call of _evaluate_read_vectors in slot_testv_and_readv_and_writev")
    writers = []
    for n in cfg.nodes:
        for c in node_calls(n, into_lambda=True):
            eff = fx.call_effects(slot, c)
            if eff:
                writers.append((n, c, eff))

    def is_collect(e):
        return res(fnm, coll_n, e) is coll_c or e is coll_c

    def shares_arg_ok(n, e):
        return res(fnm, n, e) is coll_c

    # -- 1. guarded writes ------------------------------------------------------
    with ctx.rule("C24.1", "R1/R3", "slot_testv_and_readv_and_writev: every filesystem-writing call is dominated by the "
                  "write-enabler collection of all shares and guarded by the test-vector verdict", expected=2) as r:
        if not writers:
            raise AnchorVanished("no filesystem-writing call found in slot_testv_and_readv_and_writev")
        # the collection: not in a try, enabler = secrets[0], directory of this storage index
        r.require(not in_try(cfg, coll_n), slot, slot.loc(coll_c), "the write-enabler collection runs inside a try: a "
                  "BadWriteEnablerError could be swallowed")
        we = res(fnm, coll_n, arg(coll_c, 1, "write_enabler"))
        r.require(fnm.norm(coll_n, we) == "%s[0]" % p_secrets, slot, slot.loc(coll_c),
                  "shares are checked against %s, not the request's write enabler secrets[0]" % src(slot, we))
        bdir = fnm.norm(coll_n, arg(coll_c, 0, "bucketdir"))
        r.require(p_si in depends_on(slot, arg(coll_c, 0, "bucketdir")) and bdir == norm_src(
            "os.path.join(self.sharedir, storage_index_to_dir(%s))" % p_si), slot, slot.loc(coll_c),
            "shares are collected from %s, not from the bucket directory of the storage index" % bdir)
        # the test stage works on the request's vectors and the collected shares
        r.require(attr_path(arg(test_c, 0)) == p_tw and shares_arg_ok(test_n, arg(test_c, 1)), slot, slot.loc(test_c),
                  "_evaluate_test_vectors is given %s, not (test_and_write_vectors, collected shares)" % src(slot, test_c))

        def verdict_true(n, lab):
            if n.kind != "test" or not isinstance(lab, tuple) or lab[0] != "T":
                return False
            e = n.ast
            return res(fnm, n, e) is test_c
        for (n, c, eff) in writers:
            r.site(slot, c, "writes via " + sorted(eff)[0])
            for (t, w) in find_path_avoiding(cfg, lambda x: x is n, gate_node=lambda m: m is coll_n):
                r.violation(slot, slot.loc(c), "%s can run before the write enabler of every share was checked "
                            "(path: %s)" % (src(slot, c.func), w.brief()), w)
            for (t, w) in find_path_avoiding(cfg, lambda x: x is n, gate_edge=verdict_true):
                r.violation(slot, slot.loc(c), "%s can run although the test vectors were not found good "
                            "(path: %s)" % (src(slot, c.func), w.brief()), w)
            for (t, w) in find_path_avoiding(cfg, lambda x: x is n, gate_node=lambda m: m is test_n):
                r.violation(slot, slot.loc(c), "%s can run before the test vectors were evaluated" % src(slot, c.func), w)
            if call_tail(c) == "_evaluate_write_vectors":
                a = c.args
                ok = len(a) == 4 and fnm.norm(n, a[0]) == bdir and attr_path(a[1]) == p_secrets \
                    and attr_path(a[2]) == p_tw and shares_arg_ok(n, a[3])
                r.require(ok, slot, slot.loc(c), "_evaluate_write_vectors is given %s, not (bucketdir, secrets, "
                          "test_and_write_vectors, collected shares) of this request" % src(slot, c))
            if call_tail(c) == "_add_or_renew_leases":
                a0 = arg(c, 0)
                wcs = [wc for (wn2, wc, e2) in writers if call_tail(wc) == "_evaluate_write_vectors"]
                ok = isinstance(a0, ast.Call) and call_tail(a0) == "values" and isinstance(a0.func, ast.Attribute) \
                    and any(res(fnm, n, a0.func.value) is wc for wc in wcs)
                r.require(ok, slot, slot.loc(c), "leases are renewed on %s, not on the shares that remain after this request's "
                          "writes" % src(slot, a0))
        r.count(len(cfg.nodes) * len(writers))
        # _evaluate_write_vectors returns the dict that received every share it wrote to
        ev = idx.func(SRV + "._evaluate_write_vectors")
        ecfg = ev.cfg()
        rvs = {attr_path(n.ast.value) for n in ecfg.find(is_return)}
        r.require(len(rvs) == 1 and None not in rvs, ev, ev.loc(), "_evaluate_write_vectors does not return its dict of remaining shares")
        if len(rvs) == 1 and None not in rvs:
            rsv = rvs.pop()
            for (s_, w) in find_path_from_to_avoiding(ecfg, has_call("writev"), gate_node=lambda m: (rsv + "[]") in node_stores(m),
                                                      ends=lambda m: m.kind in ("iter", "exit") or is_return(m)):
                r.violation(ev, ev.loc(s_.ast), "a share that was written is not recorded among the remaining shares: its lease "
                            "would not be renewed (path: %s)" % w.brief(), w)

    # -- 2. no write effects before the decision --------------------------------------
    with ctx.rule("C24.2", "E4", "collecting shares, evaluating test vectors and evaluating read vectors have no "
                  "filesystem-write effect", expected=3) as r:
        for name in (COLLECT, "_evaluate_test_vectors", "_evaluate_read_vectors"):
            g = idx.func(SRV + "." + name)
            before = len(fx.scanned)
            eff = fx.effects(g)
            r.site(g, None, "effect-free")
            r.count(max(1, len(fx.scanned) - before))
            for e in sorted(eff):
                r.violation(g, g.loc(), "%s has a filesystem-write effect (%s): state can change although the request "
                            "is rejected" % (short(g), e))
        # sanity of the effect analysis itself: the write stage must be seen as writing
        wv = idx.func(SRV + "._evaluate_write_vectors")
        if not any("write" in e or "unlink" in e for e in fx.effects(wv)):
            raise AnalysisError("effect analysis finds no write in _evaluate_write_vectors: call resolution broken")

    # -- 3. reads precede writes; returned pair -------------------------------------
    with ctx.rule("C24.3", "R1", "the read vectors are evaluated before any write and the result is (test verdict, "
                  "pre-write read data)", expected=3) as r:
        rets = cfg.find(is_return)
        if not rets:
            raise AnchorVanished("no return in slot_testv_and_readv_and_writev")
        for n in rets:
            r.site(slot, n.ast, "result")
            v = n.ast.value
            ok = isinstance(v, ast.Tuple) and len(v.elts) == 2 and res(fnm, n, v.elts[0]) is test_c
            got = res(fnm, n, v.elts[1]) if ok else None
            hit = [(rn, rc) for (rn, rc) in reads if rc is got]
            r.require(ok and bool(hit), slot, slot.loc(n.ast), "returns %s, not (test verdict, data read before the "
                      "writes)" % src(slot, v))
            for (rn, rc) in hit:
                r.site(slot, rc, "read stage")
                r.require(attr_path(arg(rc, 0)) == p_rv and shares_arg_ok(rn, arg(rc, 1)), slot, slot.loc(rc),
                          "_evaluate_read_vectors is given %s, not (read_vector, collected shares)" % src(slot, rc))
                for (wn, c, eff) in writers:
                    for (t, w) in find_path_avoiding(cfg, lambda x: x is wn, gate_node=lambda m: m is rn):
                        r.violation(slot, slot.loc(c), "%s can run before the returned read vectors were evaluated: the "
                                    "result would reflect the write (path: %s)" % (src(slot, c.func), w.brief()), w)
                    # and the returned read is not re-done after a write
                    vis, par = explore(cfg, 0, lambda a_, l_, b_, s_: None if l_ == "exc" else 0, start=wn)
                    if any(i == rn.id for (i, _s) in vis if i != wn.id):
                        r.violation(slot, slot.loc(rc), "the returned read vectors can be evaluated after %s" % src(slot, c.func))

        rvf = idx.func(SRV + "._evaluate_read_vectors")
        r.site(rvf, None, "read stage implementation")
        rp = first_positional_params(rvf)
        rcfg = rvf.cfg()
        rets2 = rcfg.find(is_return)
        dvs = {attr_path(n.ast.value) for n in rets2}
        okr = len(dvs) == 1 and None not in dvs
        if okr:
            dname = list(dvs)[0]
            heads2 = [n for n in rcfg.nodes if n.kind == "iter" and norm_plain(n.ast.iter) == rp[1] + ".items()"
                      and isinstance(n.ast.target, ast.Tuple) and len(n.ast.target.elts) == 2]
            okr = len(heads2) == 1
            if okr:
                k, v = [attr_path(e) for e in heads2[0].ast.target.elts]
                st = [n for n in rcfg.nodes if (dname + "[]") in node_stores(n) and isinstance(n.ast, ast.Assign)
                      and norm_plain(n.ast.targets[0]) == "%s[%s]" % (dname, k) and norm_plain(n.ast.value) == "%s.readv(%s)" % (v, rp[0])]
                okr = len(st) == 1 and loop_early_exit(rcfg, heads2[0]) is None
                if okr:
                    w = iteration_avoiding(rcfg, heads2[0], lambda m: m is st[0])
                    if w is not None:
                        r.violation(rvf, rvf.loc(heads2[0].ast), "_evaluate_read_vectors can pass a collected share over without "
                                    "reading it: the result lacks the pre-write data of that share (path: %s)" % w.brief(), w)
        r.require(okr, rvf, rvf.loc(), "_evaluate_read_vectors does not return {sharenum: share.readv(read_vector)} for every collected share")

    # -- 4. the collect loop ---------------------------------------------------------
    with ctx.rule("C24.4", "R1/R2", "_collect_mutable_shares_for_storage_index checks the write enabler of every numeric "
                  "directory entry before inserting it; no early exit, no handler around the check", expected=3) as r:
        fn = idx.func(SRV + "." + COLLECT)
        bd, we, si_s = first_positional_params(fn)[:3]
        c4 = fn.cfg()
        f4 = FlowNorm(fn)
        heads = [n for n in c4.nodes if n.kind == "iter" and f4.norm(n, n.ast.iter) == norm_src("os.listdir(%s)" % bd)]
        if len(heads) != 1:
            raise AnchorVanished("loop over os.listdir(bucketdir) not found in " + COLLECT)
        head = heads[0]
        r.site(fn, head.ast, "loop over all directory entries")
        entry = attr_path(head.ast.target)
        rets = c4.find(is_return)
        dvars = {attr_path(n.ast.value) for n in rets}
        if len(dvars) != 1 or None in dvars:
            raise AnchorVanished(COLLECT + " does not return one dict variable")
        dv = dvars.pop()
        checks = [(n, c) for n in c4.nodes for c in calls_at(n, "check_write_enabler")]
        if not checks:
            raise AnchorVanished("no check_write_enabler call in " + COLLECT)
        for (n, c) in checks:
            r.site(fn, c, "enabler check")
            r.require(attr_path(arg(c, 0)) == we, fn, fn.loc(c), "check_write_enabler is given %s, not the request's "
                      "write enabler" % src(fn, arg(c, 0)))
            r.require(not in_try(c4, n), fn, fn.loc(c), "check_write_enabler runs inside a try: a mismatch could be swallowed")
            ctor = res(f4, n, c.func.value) if isinstance(c.func, ast.Attribute) else None
            okc = isinstance(ctor, ast.Call) and call_tail(ctor) == "MutableShareFile" and ctor.args \
                and f4.norm(n, ctor.args[0]) == norm_src("os.path.join(%s, %s)" % (bd, entry))
            r.require(okc, fn, fn.loc(c), "the checked object is %s, not the MutableShareFile of this directory entry" % src(fn, ctor))
        ins = [n for n in c4.nodes if (dv + "[]") in node_stores(n)]
        if not ins:
            raise AnchorVanished("no insertion into the collected dict")
        for n in ins:
            r.site(fn, n.ast, "insertion")
            val = n.ast.value if isinstance(n.ast, ast.Assign) else None
            nm = attr_path(val) if val is not None else None
            r.require(nm is not None, fn, fn.loc(n.ast), "inserted share is not a plain checked object")

            def checked(m, _nm=nm):
                return any(isinstance(c.func, ast.Attribute) and attr_path(c.func.value) == _nm and attr_path(arg(c, 0)) == we
                           for c in calls_at(m, "check_write_enabler"))

            def tr(m, lab, nxt, st, _n=n, _nm=nm):
                ins_, chk = st
                if ins_ == "END" or lab == "exc":
                    return None
                if m is head and lab != "iter":
                    return None
                if _nm in node_stores(m):
                    chk = False
                if checked(m):
                    chk = True
                if m is _n:
                    ins_ = True
                if nxt is head or nxt.kind == "exit" or is_return(nxt):
                    return ("END", ins_ and not chk)
                return (ins_, chk)
            vis, par = explore(c4, (False, False), tr, start=head)
            for (nid, st) in sorted(vis, key=lambda x: (x[0], str(x[1]))):
                if st == ("END", True):
                    w = witness(c4, par, (nid, st))
                    r.violation(fn, fn.loc(n.ast), "a share is collected without a write-enabler check on it in the same "
                                "iteration (path: %s)" % w.brief(), w)
                    break
        # every iteration reaches a check unless the entry is not numeric (ValueError of int())
        cn = {n.id for (n, c) in checks}

        def transfer(n, lab, nxt, st):
            if st == "END":
                return None
            if n is head and lab != "iter":
                return None
            if n.id in cn and lab != "exc":
                return None
            if lab == "exc":
                if nxt.kind != "except":
                    return None
                names = [attr_path(x) for x in (nxt.ast.type.elts if isinstance(nxt.ast.type, ast.Tuple) else [nxt.ast.type])] \
                    if nxt.ast.type is not None else [None]
                conv = isinstance(n.ast, ast.Assign) and isinstance(n.ast.value, ast.Call) and call_name(n.ast.value) == "int"
                if names == ["ValueError"] and conv:
                    return "SKIP"
            if st == "SKIP":
                if nxt is head or nxt.kind == "exit" or is_return(nxt):
                    return None
                return st
            if nxt is head or nxt.kind == "exit" or is_return(nxt):
                return "END"
            return st
        visited, parent = explore(c4, "RUN", transfer, start=head)
        r.count(len(visited))
        for (nid, st) in sorted(visited, key=lambda x: (x[0], str(x[1]))):
            if st == "END":
                w = witness(c4, parent, (nid, st))
                r.violation(fn, fn.loc(head.ast), "a directory entry can be passed over without checking its write "
                            "enabler (path: %s)" % w.brief(), w)
                break
        nodir = lambda m, lab: f4.edge_fact(m, lab) == ("false", "os.path.isdir(%s)" % bd, None)
        for (t, w) in find_path_avoiding(c4, lambda m: m.kind == "exit", gate_node=lambda m: m is head, gate_edge=nodir):
            r.violation(fn, fn.loc(), "the shares of an existing bucket directory can be left uncollected (and unchecked) "
                        "(path: %s)" % w.brief(), w)
        bad = loop_early_exit(c4, head)
        if bad is not None:
            r.violation(fn, fn.loc(bad.ast), "the collect loop can be left early: later shares are neither checked nor "
                        "visible to the test vectors")

    # -- 5. check_write_enabler ---------------------------------------------------------
    with ctx.rule("C24.5", "R1/R5", "check_write_enabler returns only when timing_safe_compare(candidate, stored) is true; "
                  "stored is the header field the container was created with", expected=3) as r:
        fn = idx.func(MSF + ".check_write_enabler")
        we = first_positional_params(fn)[0]
        c5 = fn.cfg()
        f5 = FlowNorm(fn)
        stored_re = re.compile(r"^self\._read_write_enabler_and_nodeid\(\w+\)\[0\]$")

        def matches(n, lab):
            if n.kind != "test" or not isinstance(lab, tuple) or lab[0] != "T":
                return False
            e = res(f5, n, n.ast)
            if not (isinstance(e, ast.Call) and call_tail(e) == "timing_safe_compare" and len(e.args) == 2):
                return False
            a = [f5.norm(n, x) for x in e.args]
            return (a[0] == we and stored_re.match(a[1]) is not None) or (a[1] == we and stored_re.match(a[0]) is not None)
        r.site(fn, None, "normal return only after a match")
        for (t, w) in find_path_avoiding(c5, lambda n: n.kind == "exit", gate_edge=matches):
            r.violation(fn, fn.loc(), "check_write_enabler can return normally without a successful comparison of the "
                        "candidate with the stored write enabler (path: %s)" % w.brief(), w)
        r.require(bool(c5.find(raises("BadWriteEnablerError"))), fn, fn.loc(), "check_write_enabler no longer raises BadWriteEnablerError")
        tsc = idx.resolve_name(fn.module, "timing_safe_compare")
        r.require(isinstance(tsc, FuncInfo) and tsc.module.name == "allmydata.util.hashutil", fn, fn.loc(),
                  "timing_safe_compare is not allmydata.util.hashutil.timing_safe_compare")
        for x in func_own_nodes(fn):
            if isinstance(x, ast.Compare) and any(isinstance(o, (ast.Eq, ast.NotEq)) for o in x.ops) \
                    and we in {y.id for y in ast.walk(x) if isinstance(y, ast.Name)}:
                r.violation(fn, fn.loc(x), "write enabler compared with ==/!= (%s): not timing safe" % src(fn, x))
        # the stored enabler: header field agreement with mutable_schema._header
        rd = idx.func(MSF + "._read_write_enabler_and_nodeid")
        r.site(rd, None, "header reader")
        fo = get_folder(idx)
        fv = first_positional_params(rd)[0]
        un = [x for x in func_own_nodes(rd) if isinstance(x, ast.Assign) and struct_call(x.value, "unpack")]
        rets = [x for x in func_own_nodes(rd) if isinstance(x, ast.Return)]
        if len(un) != 1 or len(rets) != 1:
            raise AnchorVanished("_read_write_enabler_and_nodeid: unpack / return not found")
        ufmt = _fold(fo, un[0].value.args[0], rd)
        tg = un[0].targets[0]
        names = [attr_path(e) for e in tg.elts] if isinstance(tg, ast.Tuple) else []
        rv = rets[0].value
        first = attr_path(rv.elts[0]) if isinstance(rv, ast.Tuple) and rv.elts else None
        r.require(first in names, rd, rd.loc(rets[0]), "does not return an unpacked header field first")
        hd = idx.func("storage.mutable_schema:_header")
        packs = [c for c in calls_in_func(hd, "pack") if struct_call(c, "pack") and len(c.args) > 2]
        if not packs:
            raise AnchorVanished("mutable_schema._header no longer packs the fixed header")
        r.site(hd, packs[0], "header writer")
        pfmt = _fold(fo, packs[0].args[0], hd)
        pvals = [attr_path(a) for a in packs[0].args[1:]]
        r.require(isinstance(ufmt, str) and ufmt == pfmt, rd, rd.loc(un[0]), "header is unpacked with %r but packed with %r" % (ufmt, pfmt))
        if first in names:
            i = names.index(first)
            r.require(i < len(pvals) and pvals[i] == "write_enabler", rd, rd.loc(rets[0]),
                      "the field returned as write enabler (index %d) is packed from %s by _header" % (i, pvals[i] if i < len(pvals) else "?"))
            if isinstance(ufmt, str):
                fl = struct_fields(ufmt)
                r.require(i < len(fl) and fl[i] == ("s", 32), rd, rd.loc(un[0]), "write enabler field is not 32s")
        # the bytes unpacked are the first HEADER_SIZE bytes of the file
        rc = [c for c in calls_in_func(rd, "read") if isinstance(c.func, ast.Attribute) and attr_path(c.func.value) == fv]
        sk = [c for c in calls_in_func(rd, "seek") if isinstance(c.func, ast.Attribute) and attr_path(c.func.value) == fv]
        import struct as _struct
        okr = len(rc) == 1 and len(sk) == 1 and len(sk[0].args) == 1 and _fold(fo, sk[0].args[0], rd) == 0 \
            and isinstance(ufmt, str) and rc[0].args and _fold(fo, rc[0].args[0], rd) == _struct.calcsize(ufmt) \
            and sk[0].lineno < rc[0].lineno
        r.require(okr, rd, rd.loc(), "header is not read as calcsize(format) bytes from offset 0")

    # -- 6. _evaluate_test_vectors ---------------------------------------------------
    with ctx.rule("C24.6", "R1/R2", "_evaluate_test_vectors: False at the first failing share, True only after all named "
                  "shares; existing shares test their data, missing shares test as empty", expected=3) as r:
        fn = idx.func(SRV + "._evaluate_test_vectors")
        tw, sh = first_positional_params(fn)[:2]
        c6 = fn.cfg()
        f6 = FlowNorm(fn)
        heads = [n for n in c6.nodes if n.kind == "iter" and f6.norm(n, n.ast.iter) in (tw, tw + ".items()", tw + ".keys()")]
        if len(heads) != 1:
            raise AnchorVanished("loop over test_and_write_vectors not found in _evaluate_test_vectors")
        head = heads[0]
        r.site(fn, head.ast, "loop over all named shares")
        tgt = head.ast.target
        if isinstance(tgt, ast.Name):
            sn = tgt.id
            tv_want = norm_src("%s[%s][0]" % (tw, sn))
        elif isinstance(tgt, ast.Tuple) and len(tgt.elts) == 2 and isinstance(tgt.elts[0], ast.Name) \
                and isinstance(tgt.elts[1], ast.Tuple) and len(tgt.elts[1].elts) == 3 and f6.norm(head, head.ast.iter) == tw + ".items()":
            sn = tgt.elts[0].id
            tv_want = attr_path(tgt.elts[1].elts[0])
        else:
            raise AnchorVanished("unrecognised loop target in _evaluate_test_vectors")
        is_cmp = lambda n: n.kind in ("test", "stmt") and bool(calls_at(n, "check_testv"))
        cmps = c6.find(is_cmp)
        if not cmps:
            raise AnchorVanished("no check_testv evaluation in _evaluate_test_vectors")
        SH = "%s[%s]" % (sh, sn)
        kinds = set()
        for n in cmps:
            c = calls_at(n, "check_testv")[0]
            r.require(len(c.args) == 1 and f6.norm(n, c.args[0]) == tv_want, fn, fn.loc(c),
                      "check_testv is given %s, not the test vector of this share" % src(fn, c.args[0] if c.args else c))
            recv = f6.norm(n, c.func.value) if isinstance(c.func, ast.Attribute) else "?"
            if recv == SH:
                kinds.add("present")
                want = ("in", sn, sh)
            elif recv == "EmptyShare()":
                kinds.add("absent")
                want = ("not in", sn, sh)
            elif recv == "%s.get(%s, EmptyShare())" % (sh, sn):
                kinds |= {"present", "absent"}
                continue
            else:
                r.violation(fn, fn.loc(c), "test vector is evaluated on %s, neither the named share nor an EmptyShare" % recv)
                continue
            for (t, w) in find_path_avoiding(c6, lambda x: x is n, gate_edge=lambda m, lab, _w=want: f6.edge_fact(m, lab) == _w,
                                             kill=lambda m: m is head):
                r.violation(fn, fn.loc(c), "%s.check_testv is used without the fact '%s %s %s' (path: %s)" % (
                    recv, sn, want[0], sh, w.brief()), w)
        r.site(fn, None, "existing shares: %d check_testv test(s)" % len(cmps))
        r.site(fn, None, "missing shares: EmptyShare semantics")
        r.require(kinds == {"present", "absent"}, fn, fn.loc(), "test vectors are not evaluated for both existing and "
                  "missing shares (%s)" % sorted(kinds))
        es = idx.resolve_name(fn.module, "EmptyShare")
        r.require(isinstance(es, ClassInfo) and es.qual == "allmydata.storage.mutable:EmptyShare", fn, fn.loc(),
                  "EmptyShare is not allmydata.storage.mutable.EmptyShare")
        ConjunctionVerdict(r, cg, lambda f_, c_: call_tail(c_) == "check_testv", "share's test vector", follow=False).judge(fn, tw)

    # -- 7. who may call the write path ----------------------------------------------
    with ctx.rule("C24.7", "R4", "the mutable write path is entered only through the guarded chain "
                  "slot_testv_and_readv_and_writev -> _evaluate_write_vectors -> writev / _allocate_slot_share", expected=10) as r:
        table = [
            ("_evaluate_write_vectors", [SRV + ".slot_testv_and_readv_and_writev"], None),
            ("_allocate_slot_share", [SRV + "._evaluate_write_vectors"], None),
            ("create_mutable_sharefile", [SRV + "._allocate_slot_share"], None),
            ("writev", [SRV + "._evaluate_write_vectors"], None),
            ("_write_share_data", [MSF + ".writev"], None),
            ("_write_data_length", [MSF + ".writev", MSF + "._write_share_data"], None),
            ("_change_container_size", [MSF + "._write_share_data"], None),
            ("_write_extra_lease_offset", [MSF + "._change_container_size"], None),
            (COLLECT, [SRV + ".slot_testv_and_readv_and_writev"], None),
            ("create", ["storage.mutable:create_mutable_sharefile"],
             lambda cs: cs.fn.module.name.startswith(STORAGE_PREFIX) and not cs.fn.module.name.startswith("allmydata.storage.http")),
        ]
        def real_site(cs, _cache={}):
            # engine quirk: calls inside top-level functions are also listed under the module pseudo-function
            if cs.fn.name != "<module>":
                return True
            ids = _cache.setdefault(cs.tail, {id(x.call) for x in cg.calls_named(cs.tail) if x.fn.name != "<module>"})
            return id(cs.call) not in ids
        def owner_of(q):
            mod, _, path = q.partition(":")
            return mod + ":" + path.rsplit(".", 1)[0] if "." in path else mod + ":"

        def outside_chain(f_, allowed, depth=4):
            """None when f_ is a helper split out of an allowed step of the chain: it is defined beside an allowed
            function (same class, or same module for a plain function), is called somewhere, and every call of / reference
            to its name in the whole package sits in an allowed function or in another such helper - so control still
            reaches the guarded callee only through the allowed step.  Otherwise the reason (a string) why it is not."""
            full = [a if a.startswith("allmydata") else "allmydata." + a for a in allowed]

            def admitted(q):
                return any(q == a or q.startswith(a + ".") for a in full)

            def grounded(g, seen, depth):
                # -> (True, None) every way into g starts in an allowed function; (None, None) only cycles; (False, reason)
                while g.parent is not None:
                    g = g.parent          # a closure / lambda runs on behalf of the function that builds it
                if admitted(g.qual):
                    return True, None
                if g.qual in seen:
                    return None, None
                if g.name == "<module>" or owner_of(g.qual) not in {owner_of(a) for a in full}:
                    return False, "%s is not part of %s" % (short(g) if ":" in g.qual else g.qual,
                                                             " / ".join(sorted({owner_of(a).rstrip(":") for a in full})))
                if depth <= 0:
                    return False, "helper chain above %s deeper than the bound" % short(g)
                users = [cs.fn for cs in cg.calls_named(g.name) if real_site(cs)]
                if not users:
                    return False, "%s has no static caller (an entry point of its own)" % short(g)
                users += [f2 for (f2, nd) in cg.refs_named(g.name) if not isinstance(nd, ast.Name)]
                some = None
                for u in users:
                    v, why = grounded(u, seen | {g.qual}, depth - 1)
                    if v is False:
                        return False, "%s is also used by %s; %s" % (short(g), short(u) if ":" in u.qual else u.qual, why)
                    if v:
                        some = True
                return some, None

            v, why = grounded(f_, frozenset(), depth)
            if v:
                return None
            return " (%s)" % (why or "%s is only reached from itself" % short(f_))

        for (tail, allowed, filt) in table:
            bad, badrefs, total = callers_outside(
                idx, tail, allowed, recv_filter=lambda cs, _f=filt: real_site(cs) and (_f is None or _f(cs)))
            if total < 1:
                raise AnchorVanished("no caller of %s found" % tail)
            r.site("callers of %s: %d" % (tail, total))
            for cs in bad:
                why = outside_chain(cs.fn, allowed)
                if why is None:
                    r.count(1)
                    continue
                r.violation(cs.fn, cs.loc, "%s calls %s outside the guarded read-test-write chain%s" % (short(cs.fn), tail, why))
            for (f_, nd) in badrefs:
                if tail in ("create", "writev"):
                    continue
                why = outside_chain(f_, allowed)
                if why is None:
                    r.count(1)
                    continue
                r.violation(f_, f_.loc(nd), "%s takes %s as a value%s" % (short(f_), tail, why))

    # -- 8. all-or-nothing across the shares of one request ----------------------------
    agree = {}      # request error -> (early raise statements, data vector index, late raising nodes): compared by C24.12
    with ctx.rule("C24.8", "R10", "_evaluate_write_vectors: a request-validation error that a share's write step can raise "
                  "is also raised before the first share is modified, for every write of every named share (validate "
                  "everything, then write)", expected=3) as r:
        fn = idx.func(SRV + "._evaluate_write_vectors")
        c8 = fn.cfg()
        rz = Raises(fx)
        not_request_errors = {
            "UnknownMutableContainerVersionError": "corrupt container header; raised while collecting, independent of the vectors",
        }
        muts = [n for n in c8.nodes if any(fx.call_effects(fn, c) for c in node_calls(n, into_lambda=True))]
        if not muts:
            raise AnchorVanished("no mutating step found in _evaluate_write_vectors")
        r.site(fn, None, "%d mutating steps" % len(muts))
        after = set()
        for m in muts:
            after |= fwd(c8, [d for (d, l) in c8.succ[m.id] if l != "exc"])
        raisers = {}
        for n in c8.nodes:
            if n.kind in ("entry", "exit", "raise"):
                continue
            for name, where in rz.node_raises(fn, c8, n, frozenset([fn.qual])).items():
                if name not in not_request_errors:
                    raisers.setdefault(name, []).append((n, where))
        r.site(fn, None, "explicit request errors: %s" % (", ".join(sorted(raisers)) or "none"))
        r.count(len(c8.nodes) * max(1, len(muts)))
        # validation may also sit in the caller, before the write stage
        after_slot = set()
        for (wn_, c_, e_) in writers:
            after_slot |= fwd(cfg, [d for (d, l) in cfg.succ[wn_.id] if l != "exc"]) | {wn_.id}
        early_in_caller = {}
        for n in cfg.nodes:
            if n.kind in ("entry", "exit", "raise") or n.id in after_slot:
                continue
            for name, where in rz.node_raises(slot, cfg, n, frozenset([slot.qual])).items():
                early_in_caller.setdefault(name, []).append((slot, p_tw, n, where))
        tw8 = first_positional_params(fn)[2]
        f8 = FlowNorm(fn)

        def data_index():
            """Which element of a share's (testv, datav, new_length) tuple the apply loop hands to writev."""
            out = set()
            for n in c8.nodes:
                for c in calls_at(n, "writev"):
                    a0 = arg(c, 0, "datav")
                    comp = share_component(fn, f8, n, a0, tw8, loops_around(fn, c)) if a0 is not None else None
                    if comp is None:
                        raise AnalysisError("%s: the data vector given to %s is not recognised as an element of "
                                            "%s[share]" % (short(fn), src(fn, c), tw8))
                    out.add(comp[1])
            if len(out) != 1:
                raise AnalysisError("%s: writev calls take different elements of a share's vectors: %s" % (short(fn), sorted(out)))
            return out.pop()

        def raise_sites(f_, tw_, n, where, name):
            """The raise statements behind an early raiser node: the node itself, or those of a directly called
            storage function that receives the whole collection of vectors."""
            if is_raise(n):
                return [(f_, tw_, n)]
            out = []
            for c in node_calls(n, into_lambda=True):
                for g in fx.callees(f_, c):
                    if g.qual != where:
                        continue
                    ps = first_positional_params(g)
                    gtw = None
                    for i, a in enumerate(c.args):
                        if not isinstance(a, ast.Starred) and i < len(ps) and vector_kind(f_, tw_, a) == "full":
                            gtw = ps[i]
                    for kw in c.keywords:
                        if kw.arg in ps and vector_kind(f_, tw_, kw.value) == "full":
                            gtw = kw.arg
                    if gtw is None:
                        continue
                    gcfg = g.cfg()
                    reach = gcfg.reachable_nodes()
                    out.extend((g, gtw, m) for m in gcfg.nodes if m.id in reach and is_raise(m) and raise_name(m) == name)
            return out
        for name, lst in sorted(raisers.items()):
            late = [(n, where) for (n, where) in lst if n.id in after]
            early = [(fn, tw8, n, where) for (n, where) in lst if n.id not in after] + early_in_caller.get(name, [])
            if late:
                agree[name] = None
            if late and not early:
                n, where = late[0]
                r.violation(where, fn.loc(n.ast), "%s (raised in %s) can abort _evaluate_write_vectors at %s after an earlier "
                            "share of the same request was already modified, and nothing validates it before the first "
                            "write: the request is applied to some shares only" % (name, where.split(":", 1)[1], src(fn, n.ast)))
            elif late:
                # the early refusal must be evaluated for every write of every named share: the write step raises per write
                if not any(calls_at(n, "writev") for (n, _w) in late):
                    raise AnalysisError("%s: %s is raised by a write step other than writev: what the early check has to "
                                        "cover is not recognised" % (short(fn), name))
                r.site(early[0][0], early[0][2].ast, "early refusal of %s covers every write of every named share" % name)
                cands = []
                for (f_, tw_, n, where) in early:
                    cands.extend(raise_sites(f_, tw_, n, where, name))
                if not cands:
                    raise AnalysisError("%s: the early raise of %s is not a raise statement of this function or of a directly "
                                        "called helper that is given %s" % (short(fn), name, tw8))
                cands = [as_loops(c) for c in cands]
                di = data_index()
                agree[name] = (cands, di, late)
                verdicts, errors = [], []
                for (vf, vtw, rn) in cands:
                    try:
                        verdicts.append((vf, validation_gaps(vf, vtw, rn, di, name)))
                    except AnalysisError as e:
                        errors.append(e)
                r.count(sum(len(vf.cfg().nodes) for (vf, _v, _r) in cands))
                if any(not gaps for (_vf, gaps) in verdicts):
                    continue
                if not verdicts:
                    raise errors[0]
                vf, gaps = verdicts[0]
                for (node, msg, w) in gaps:
                    r.violation(vf, vf.loc(node), "%s: %s; a request it lets through can be refused by the write step after "
                                "earlier shares were modified" % (short(vf), msg), w)

    # -- 9. the verdict of one share is the conjunction of all its comparisons -----------
    with ctx.rule("C24.9", "R1/R2", "check_testv of an existing share and of a missing share (and any helper they delegate "
                  "to): falsy as soon as one comparison of the share's test vector failed, True only after every entry "
                  "of the vector was compared and none failed", expected=2) as r:
        tc = idx.func("storage.mutable:testv_compare")

        def is_compare(f_, c_):
            return call_tail(c_) == "testv_compare" and (tc in cg.resolve(f_, c_) or not cg.resolve(f_, c_))
        mon = ConjunctionVerdict(r, cg, is_compare, "test vector comparison")
        for cq, role in ((MSF, "existing share"), ("storage.mutable:EmptyShare", "missing share")):
            ci = idx.cls(cq)
            fn = ci.lookup("check_testv")
            if fn is None:
                raise AnchorVanished("%s has no check_testv" % cq)
            ps = first_positional_params(fn)
            if not ps:
                raise AnchorVanished("%s takes no test vector" % short(fn))
            r.site(fn, None, role)
            mon.judge(fn, ps[0])

    # -- 10. the write stage visits every share the request names ------------------------
    with ctx.rule("C24.10", "R1/R2", "_evaluate_write_vectors applies the vectors in a loop over every share named by "
                  "test_and_write_vectors that cannot be left early: all writes or none", expected=2) as r:
        fn = idx.func(SRV + "._evaluate_write_vectors")
        tw10 = first_positional_params(fn)[2]
        c10 = fn.cfg()
        steps = [(n, c) for n in c10.nodes for c in node_calls(n)
                 if call_tail(c) == "writev" or (call_tail(c) == "unlink" and not call_name(c).startswith("os."))]
        if not any(call_tail(c) == "writev" for (_n, c) in steps):
            raise AnchorVanished("no writev call in _evaluate_write_vectors")
        seen_exit = set()
        for (n, c) in steps:
            r.site(fn, c, "applies one share's vectors")
            loops = loops_around(fn, c)
            covs = [(L, loop_coverage(fn, tw10, L)) for L in loops]
            rel = [(L, k) for (L, k) in covs if k != "unrelated"]
            if not rel:
                r.violation(fn, fn.loc(c), "%s is %s, not in a loop over every share named by %s: shares the request names can be "
                            "left unwritten although it reports success" % (
                                src(fn, c.func), ("applied in a loop over " + src(fn, loops[-1].iter)) if loops else "applied outside any loop", tw10))
                continue
            L, k = rel[0]
            if k == "unknown":
                raise AnalysisError("%s: cannot decide which shares '%s' visits" % (short(fn), src(fn, L.iter)))
            if k == "part" and id(L) not in seen_exit:
                seen_exit.add(id(L))
                r.violation(fn, fn.loc(L), "the write stage visits %s only, not every share named by %s: the request is applied "
                            "to some shares only" % (src(fn, L.iter), tw10))
            h = head_of(fn, c10, L)
            bad = loop_early_exit(c10, h)
            if bad is not None and bad.id not in seen_exit:
                seen_exit.add(bad.id)
                r.violation(fn, fn.loc(bad.ast), "the write stage can be left before every named share was written: the request "
                            "is applied to some shares only")
        r.count(len(c10.nodes) * len(steps))

    # -- 12. the early refusal admits nothing that the write step refuses ------------------
    with ctx.rule("C24.12", "R10", "validate everything, then write: whenever a share's write step refuses a write with a "
                  "request-validation error, the up-front check over all shares refuses that write too - the condition of "
                  "every late raise, in terms of the write's offset and data length along the call chain below writev, "
                  "implies the condition of the early raise (the two size limits agree)", expected=2) as r:
        if not agree:
            raise AnalysisError("no request-validation error is raised both before and after the first mutating step of "
                                "_evaluate_write_vectors (see C24.8): there are no two conditions to compare")
        fo = get_folder(idx)
        fn = idx.func(SRV + "._evaluate_write_vectors")
        rz12 = Raises(fx)
        for name, item in sorted(agree.items()):
            if item is None:
                r.site(fn, None, "%s is not refused early at all (reported by C24.8)" % name)
                continue
            cands, di, late = item
            early_sets, tainted = [], []
            for (vf, vtw, rn) in cands:
                vcfg = vf.cfg()
                found = data_loop_of(vf, vcfg, FlowNorm(vf), vtw, rn)
                if found is None or found[3] != di:
                    continue
                wt = WriteTerms(idx, fo, vf, {})
                wt.bind_loop(found[0], found[1])
                got = wt.arriving(found[1], "iter", (), {rn.id}, strict_for=rn).get(rn.id, set())
                r.count(len(vcfg.nodes))
                clean = [f for (f, t) in got if not t]
                if clean:
                    r.site(vf, rn.ast, "up-front refusal of a write when " + " or when ".join(sorted(
                        (" and ".join(sorted(show_fact(p) for p in f)) or "anything") for f in clean)))
                    early_sets.extend(clean)
                else:
                    tainted.append((vf, rn))
            if not early_sets:
                if tainted:
                    vf, rn = tainted[0]
                    raise AnalysisError("%s: the early refusal '%s' depends on conditions that are not about the write's "
                                        "offset and data length: what it admits is not decided" % (short(vf), src(vf, rn.ast)))
                raise AnalysisError("the early refusal of %s is not inside a recognised loop over the writes (see C24.8)" % name)
            lr = LateRefusals(idx, fo, fx, rz12, name)
            for (n, _where) in late:
                for c in calls_at(n, "writev"):
                    a0 = arg(c, 0, "datav")
                    for h in fx.callees(fn, c):
                        if not h.module.name.startswith(STORAGE_PREFIX) or name not in rz12.of(h):
                            continue
                        ps = first_positional_params(h)
                        pname = ps[0] if (c.args and a0 is c.args[0] and ps) else "datav"
                        if a0 is None or pname not in h.params:
                            raise AnalysisError("%s: which parameter of %s receives the data vector is not decided" % (short(fn), short(h)))
                        lr.enter(h, {pname: _VEC}, frozenset())
            r.count(lr.states)
            if not lr.out:
                raise AnalysisError("%s: no raise statement of %s found below the write step although the call graph "
                                    "reports one" % (short(fn), name))
            for (g, ln, facts) in lr.out:
                cond = " and ".join(sorted(show_fact(p) for p in facts))
                r.site(g, ln.ast, "write-time refusal when " + (cond or "<no condition on the write itself>"))
                if any(all(any(fact_implies(l, e) for l in facts) for e in S_e) for S_e in early_sets):
                    continue
                gap = ""
                for S_e in early_sets:
                    for e in S_e:
                        for l in facts:
                            d = (e - l).const_value()
                            if d is not None and d < 0:
                                gap = " (its limit is %d lower than the up-front one)" % -d
                up = " or when ".join(sorted(" and ".join(sorted(show_fact(p) for p in f)) or "anything" for f in early_sets))
                r.violation(g, g.loc(ln.ast), "%s raises %s while a share is being written when %s%s, but the up-front check over "
                            "all shares of the request refuses a write only when %s: a write it admits is refused in the "
                            "middle of the write stage, after earlier shares of the same request were modified" % (
                                short(g), name, (cond + " (conditions on the share's own state aside)") if cond else
                                "a condition holds that is not about the write's offset and length", gap, up))

    # -- 13. the bucket directory is there whenever a share is created in it ------------------
    with ctx.rule("C24.13", "R10", "while one request is applied, no share file is created in the bucket directory on a path "
                  "where an earlier step of the same request removed that directory and nothing re-created it, and no "
                  "create-once mkdir runs where the directory already exists: either raises in the middle of the write "
                  "stage (the call chain is followed wherever the directory is handed on)", expected=3) as r:
        mon = BucketDirState(r, fx)
        bdir13 = fnm.norm(coll_n, arg(coll_c, 0, "bucketdir"))
        mon._explore(slot, bdir13, "U", root=True)
        r.count(mon.states)
        for kind, what in (("create", "creates a share file in the bucket directory"), ("ensure", "makes sure the bucket directory exists"),
                           ("remove", "removes the bucket directory")):
            for (_q, _i), (f_, c_) in sorted(mon.sites[kind].items(), key=lambda x: (x[0][0], getattr(x[1][1], "lineno", 0))):
                r.site(f_, c_, what)
        if not mon.sites["create"]:
            raise AnchorVanished("no step of slot_testv_and_readv_and_writev (call chain followed) is recognised as creating a "
                                 "share file inside the bucket directory")
        if not mon.sites["ensure"]:
            raise AnchorVanished("no step of slot_testv_and_readv_and_writev (call chain followed) is recognised as creating "
                                 "the bucket directory")

    # -- 11. what the test stage is given is what the client sent ----------------------------
    # The guard of (1) is only as good as the vectors it evaluates: a protocol front end that rebuilds a test vector with
    # another read length, drops an entry or a share lets a failing test pass, and the writes are applied.  That the
    # Foolscap and HTTP entry points hand slot_testv_and_readv_and_writev the request's own vectors, element by element,
    # is decided by C23.9 (provenance terms of the argument expressions); adopted as C24.11.9.  C23 includes nothing.
    ctx.include("C23", ["C23.9"], "C24.11")
