"""C25 Lease semantics.

Decided: renew-or-add structure, the no-backdating guard and its call sites,
hashed lease secrets on the newest container schemas, agreement of the lease
struct formats with their pack/unpack sites, and hashing of candidate secrets.
DESIGN.md section 5, C25.  (Lease isolation from data writes is C23.2/C23.6.)"""
from sa.h import *

EXPLANATION = (
    "Decided (structural, all paths): (1) ShareFile/MutableShareFile.add_or_renew_lease call add_lease only from the "
    "IndexError handler of renew_lease(lease_info.renew_secret, lease_info.get_expiration_time()), and that handler "
    "always reaches add_lease (or raises); container-level add_lease is called from nowhere else except the creation "
    "of a fresh immutable share; the server builds LeaseInfo with renew/cancel secrets in the fields of the same name "
    "(slot writes: secrets[1], secrets[2]); (2) renew_lease writes a record only for the lease whose is_renew_secret(renew_secret) "
    "holds, only under allow_backdate or new_expire_time > lease.get_expiration_time(), writes lease.renew(new) to that "
    "lease's own slot, skips the write of a matched lease only under new <= current expiry, returns normally only after "
    "a secret matched and raises IndexError otherwise (StorageServer.renew_lease: also when no share exists); allow_backdate "
    "defaults to False and no call site in the package passes it; (3) the schema with the highest version in "
    "mutable_schema/immutable_schema.ALL_SCHEMAS (= NEWEST_SCHEMA_VERSION, the default of both container "
    "constructors, never overridden by a caller) uses HashedLeaseSerializer; its serialize never hands a LeaseInfo "
    "to _to_data without _hash_lease_info, which hashes both secrets with the function also given to unserialize; "
    "_write_lease_record writes only lease_serializer.serialize(lease_info); no function bypasses the serializers by "
    "calling to_mutable_data/to_immutable_data; (4) IMMUTABLE_FORMAT/MUTABLE_FORMAT agree with the pack argument "
    "order, the unpack name lists, the LeaseInfo attributes, the secret field widths and the containers' LEASE_SIZE; "
    "(5) HashedLeaseInfo.is_renew_secret/is_cancel_secret hash the candidate before the timing-safe comparison "
    "(the pre-hashed bypass only for _HashedCancelSecret), and renew keeps the hashed wrapper and changes only the "
    "expiration time; (6) lease slot layout: MutableShareFile._read_lease_record/_write_lease_record compute identical "
    "slot offsets under identical conditions (N < 4: HEADER_SIZE + N*LEASE_SIZE; else extra_lease_offset + 4 + "
    "(N-4)*LEASE_SIZE), the extra-lease count is incremented exactly when a record is appended, ShareFile writes lease N "
    "at _lease_offset + N*LEASE_SIZE, reads sequentially from there and appends at index num_leases with count+1.  "
    "Undecided: hash strength, clock values, byte-level file effects.")
TECHNIQUE = "static analysis: CFG gate rules, keyword-argument sweep, constant folding of struct formats, schema tables"

SF = "storage.immutable:ShareFile"
MSF = "storage.mutable:MutableShareFile"
CONTAINERS = ((SF, "immutable"), (MSF, "mutable"))


# ---------------------------------------------------------------- helpers
def def_of(fnm, n, e):
    if not isinstance(e, ast.Name):
        return None, e
    ds = fnm.rd.get(n.id, {}).get(e.id)
    if not ds or len(ds) != 1:
        return None, None
    (d,) = tuple(ds)
    if d < 0:
        return None, None
    dn = fnm.cfg.nodes[d]
    return dn, fnm._def_value(dn, e.id)


def self_calls(n, name):
    return [c for c in node_calls(n) if call_name(c) == "self." + name]


def real_sites(cg, tail):
    """Call sites of `tail`; the engine lists calls inside top-level functions a second time under the
    module pseudo-function - those duplicates are dropped."""
    sites = cg.calls_named(tail)
    real = {id(cs.call) for cs in sites if cs.fn.name != "<module>"}
    return [cs for cs in sites if cs.fn.name != "<module>" or id(cs.call) not in real]


def is_super_call(e, meth):
    """super(...).meth(...)"""
    return isinstance(e, ast.Call) and isinstance(e.func, ast.Attribute) and e.func.attr == meth \
        and isinstance(e.func.value, ast.Call) and isinstance(e.func.value.func, ast.Name) and e.func.value.func.id == "super"


def only_return(fn):
    rets = [n for n in func_own_nodes(fn) if isinstance(n, ast.Return)]
    if len(rets) != 1:
        raise AnchorVanished("%s: expected a single return, found %d" % (short(fn), len(rets)))
    return rets[0]


def _fold(fo, e, m, cls=None):
    try:
        return fo.fold(e, m, cls)
    except NotConstant:
        return None


def exc_names(h):
    t = h.ast.type
    if t is None:
        return [None]
    return [attr_path(x) for x in (t.elts if isinstance(t, ast.Tuple) else [t])]


def P(src_: str) -> str:
    return str(Normaliser(Env(None, depth=0)).poly(parse_expr(src_)))


_NEGOP = {ast.Eq: ast.NotEq, ast.NotEq: ast.Eq, ast.Lt: ast.GtE, ast.LtE: ast.Gt, ast.Gt: ast.LtE, ast.GtE: ast.Lt}
_SYM = {ast.Eq: "==", ast.NotEq: "!=", ast.Lt: "<", ast.LtE: "<="}


def lin_fact(fnm, n, lab):
    """(op, poly): ``0 op poly`` holds on the edge; None for non-comparisons and assert/precondition edges."""
    if n.kind != "test" or not isinstance(lab, tuple) or n.assume:
        return None
    e, pol = n.ast, lab[0] == "T"
    while isinstance(e, ast.UnaryOp) and isinstance(e.op, ast.Not):
        e, pol = e.operand, not pol
    if not isinstance(e, ast.Compare) or len(e.ops) != 1 or type(e.ops[0]) not in _NEGOP:
        return None
    op = type(e.ops[0])
    if not pol:
        op = _NEGOP[op]
    l, r_ = e.left, e.comparators[0]
    if op in (ast.Gt, ast.GtE):
        op = {ast.Gt: ast.Lt, ast.GtE: ast.LtE}[op]
        l, r_ = r_, l
    nz = fnm.at(n)
    try:
        d = nz.poly(r_) - nz.poly(l)
    except Exception:
        return None
    if op in (ast.Eq, ast.NotEq):
        return (_SYM[op], min(str(d), str(-d)))
    return (_SYM[op], str(d))


def slot_cases(fn, fnm, var, bump_tail=None):
    """Per path: (facts established before `var` is assigned, polynomial assigned).  Boolean flag locals are
    tracked so that flag-guarded statements keep their case.  Also returns, for every normal exit, the pair
    (facts, bumped) where bumped = a call of `bump_tail` was passed."""
    cfg = fn.cfg()

    def transfer(n, lab, nxt, st):
        facts, flags, case, bumped = st
        if lab == "exc":
            return None
        if n.kind == "test" and isinstance(n.ast, ast.Name) and isinstance(lab, tuple):
            known = dict(flags).get(n.ast.id)
            if known is not None and known != (lab[0] == "T"):
                return None
        f_ = lin_fact(fnm, n, lab)
        if f_:
            facts = facts | {f_}
        if n.kind == "stmt" and isinstance(n.ast, ast.Assign) and len(n.ast.targets) == 1 and isinstance(n.ast.targets[0], ast.Name):
            nm, v = n.ast.targets[0].id, n.ast.value
            if isinstance(v, ast.Constant) and isinstance(v.value, bool):
                flags = tuple(sorted(dict(flags, **{nm: v.value}).items()))
            if nm == var:
                try:
                    case = (facts, str(fnm.at(n).poly(v)))
                except Exception:
                    case = (facts, "?")
        if bump_tail and calls_at(n, bump_tail):
            bumped = True
        return (facts, flags, case, bumped)
    visited, parent = explore(cfg, (frozenset(), (), None, False), transfer)
    cases, exits = set(), set()
    for (nid, st) in visited:
        if st[2] is not None:
            cases.add(st[2])
        if cfg.nodes[nid].kind == "exit":
            exits.add((st[2], st[3]))
    return cases, exits, len(visited)


# -------------------------------------------------------------------- rules
def run(ctx: Context):
    idx = ctx.idx
    cg = get_callgraph(idx)
    fo = get_folder(idx)
    import struct as _struct

    # -- 1. renew, else add ----------------------------------------------------------
    with ctx.rule("C25.1", "R1/R2/R4", "add_or_renew_lease: add_lease only in the IndexError handler of the renew attempt, "
                  "which always adds; nobody else adds leases to existing containers", expected=7) as r:
        for (cq, kind) in CONTAINERS:
            fn = idx.func(cq + ".add_or_renew_lease")
            li = first_positional_params(fn)[-1]
            cfg = fn.cfg()
            fnm = FlowNorm(fn)
            rn = [n for n in cfg.nodes if self_calls(n, "renew_lease")]
            an = [n for n in cfg.nodes if self_calls(n, "add_lease")]
            if len(rn) != 1 or not an:
                raise AnchorVanished("%s: renew_lease / add_lease calls not found" % short(fn))
            R = rn[0]
            rc = self_calls(R, "renew_lease")[0]
            r.site(fn, rc, "renew attempt")
            got = [fnm.norm(R, a) for a in rc.args] + ["%s=%s" % (k.arg, fnm.norm(R, k.value)) for k in rc.keywords]
            r.require(got == ["%s.renew_secret" % li, "%s.get_expiration_time()" % li], fn, fn.loc(rc),
                      "renew attempt is renew_lease(%s), not (lease_info.renew_secret, lease_info.get_expiration_time())" % ", ".join(got))
            hs = [cfg.nodes[d] for (d, l) in cfg.succ[R.id] if l == "exc" and cfg.nodes[d].kind == "except"
                  and "IndexError" in exc_names(cfg.nodes[d])]
            r.require(bool(hs), fn, fn.loc(rc), "the renew attempt is not inside a try with an IndexError handler")
            for h in hs:
                r.require(exc_names(h) == ["IndexError"], fn, fn.loc(h.ast), "handler also catches %s: other failures of renew_lease "
                          "would add a duplicate lease" % [x for x in exc_names(h) if x != "IndexError"])
                guarded = [m for m in cfg.nodes if any(d == h.id and l == "exc" for (d, l) in cfg.succ[m.id])]
                r.require(all(m is R for m in guarded), fn, fn.loc(h.ast), "the try around the renew attempt contains other statements")
            for A in an:
                ac = self_calls(A, "add_lease")[0]
                r.site(fn, ac, "add")
                r.require(ac.args and attr_path(ac.args[-1]) == li, fn, fn.loc(ac), "add_lease is given %s, not the lease_info "
                          "whose secret was tried" % src(fn, ac))
                for (t, w) in find_path_avoiding(cfg, lambda x: x is A, gate_node=lambda m: m in hs):
                    r.violation(fn, fn.loc(ac), "add_lease is reachable without a failed renew attempt: a lease whose renew secret "
                                "already exists would be duplicated (path: %s)" % w.brief(), w)
            for h in hs:
                for (s_, w) in find_path_from_to_avoiding(cfg, lambda x: x is h, gate_node=lambda m: m in an):
                    r.violation(fn, fn.loc(h.ast), "an unknown renew secret can end add_or_renew_lease normally without adding "
                                "the lease (path: %s)" % w.brief(), w)
            r.count(len(cfg.nodes))
        # who may call container-level add_lease
        allowed = {"allmydata." + SF + ".add_or_renew_lease", "allmydata." + MSF + ".add_or_renew_lease",
                   "allmydata.storage.immutable:BucketWriter.__init__"}
        total = 0
        for cs in real_sites(cg, "add_lease"):
            if not cs.fn.module.name.startswith("allmydata.storage."):
                continue
            recv = attr_path(cs.call.func.value) if isinstance(cs.call.func, ast.Attribute) else ""
            if recv and recv.split(".")[-1] in ("_server", "_storage_server", "ss", "server"):
                continue      # StorageServer.add_lease(storage_index, ..): goes through _add_or_renew_leases
            total += 1
            if cs.fn.qual not in allowed:
                r.violation(cs.fn, cs.loc, "%s calls add_lease directly: an existing lease with the same renew secret would be "
                            "duplicated" % short(cs.fn))
        r.site("container-level add_lease callers: %d" % total)
        if total < 3:
            raise AnalysisError("add_lease call sites not found (%d)" % total)
        # a fresh immutable share gets its first lease in BucketWriter.__init__ on a file it just created
        bw = idx.func("storage.immutable:BucketWriter.__init__")
        ok = any(isinstance(n, ast.Assign) and isinstance(n.value, ast.Call) and call_tail(n.value) == "ShareFile"
                 and isinstance(kwarg(n.value, "create"), ast.Constant) and kwarg(n.value, "create").value is True
                 for n in func_own_nodes(bw))
        r.require(ok, bw, bw.loc(), "BucketWriter.__init__ adds a lease to a share it did not just create")
        # the server puts leases on shares only through add_or_renew_lease
        sv = idx.func("storage.server:StorageServer._add_or_renew_leases")
        r.site(sv, None)
        cs_ = calls_in_func(sv, "add_or_renew_lease")
        r.require(len(cs_) == 1 and len(cs_[0].args) == 2 and attr_path(cs_[0].args[1]) == first_positional_params(sv)[1],
                  sv, sv.loc(), "_add_or_renew_leases does not call share.add_or_renew_lease(space, lease_info)")

        # the server builds leases with the secrets in the order LeaseInfo stores them
        lic = idx.cls("storage.lease:LeaseInfo")
        fields = [a.lstrip("_") for a in lic.attrs if isinstance(lic.attrs[a][-1], ast.Call) and call_name(lic.attrs[a][-1]) == "attr.ib"]
        n_li = 0
        for cs in real_sites(cg, "LeaseInfo"):
            if cs.fn.module.name != "allmydata.storage.server" or cs.fn.name == "<module>":
                continue
            n_li += 1
            a = cs.call.args
            ok = len(a) == len(fields) == 5 and not cs.call.keywords and all(
                isinstance(a[i], ast.Name) and a[i].id == fields[i] and a[i].id in cs.fn.params for i in (1, 2))
            r.require(ok, cs.fn, cs.loc, "%s builds LeaseInfo(%s): the renew and cancel secrets do not go into the fields of the same "
                      "name" % (short(cs.fn), ", ".join(src(cs.fn, x) for x in a)))
        r.site("LeaseInfo constructions in storage.server: %d" % n_li)
        if n_li < 3:
            raise AnalysisError("LeaseInfo constructions in storage.server not found (%d)" % n_li)
        st_ = idx.func("storage.server:StorageServer.slot_testv_and_readv_and_writev")
        sfn = FlowNorm(st_)
        sec = first_positional_params(st_)[1]
        for n in st_.cfg().nodes:
            for c in calls_at(n, "_make_lease_info"):
                r.require([sfn.norm(n, x) for x in c.args] == ["%s[1]" % sec, "%s[2]" % sec], st_, st_.loc(c),
                          "the slot's lease is built from %s, not (secrets[1], secrets[2]) = (renew, cancel)" % src(st_, c))
        mk = idx.func("storage.server:StorageServer._make_lease_info")
        r.require(first_positional_params(mk)[:2] == ["renew_secret", "cancel_secret"], mk, mk.loc(), "_make_lease_info parameter order changed")

    # -- 2. renew never shortens ------------------------------------------------------
    with ctx.rule("C25.2", "R1/R3/R4", "renew_lease: record write only for the matching lease and only under allow_backdate or a "
                  "later expiry; unknown secret raises IndexError; nobody passes allow_backdate", expected=4) as r:
        for (cq, kind) in CONTAINERS:
            fn = idx.func(cq + ".renew_lease")
            ps = first_positional_params(fn)
            if len(ps) < 3:
                raise AnchorVanished("%s signature changed: %s" % (short(fn), ps))
            sec, new, abd = ps[0], ps[1], ps[2]
            dfl = fn.node.args.defaults
            r.require(len(dfl) == 1 and isinstance(dfl[0], ast.Constant) and dfl[0].value is False, fn, fn.loc(),
                      "allow_backdate does not default to False")
            cfg = fn.cfg()
            fnm = FlowNorm(fn)
            heads = [n for n in cfg.nodes if n.kind == "iter" and isinstance(n.ast.target, ast.Tuple) and len(n.ast.target.elts) == 2]
            if len(heads) != 1:
                raise AnchorVanished("%s: lease enumeration loop not found" % short(fn))
            head = heads[0]
            iv, lv = [attr_path(e) for e in head.ast.target.elts]
            it = fnm.norm(head, head.ast.iter)
            r.require(it in ("enumerate(self.get_leases())", "self._enumerate_leases(f)") or re.match(r"^self\._enumerate_leases\(\w+\)$", it) is not None,
                      fn, fn.loc(head.ast), "renew_lease iterates %s, not all leases of the container" % it)
            wn = [n for n in cfg.nodes if self_calls(n, "_write_lease_record")]
            if not wn:
                raise AnchorVanished("%s: no _write_lease_record call" % short(fn))
            match = ("truth", "%s.is_renew_secret(%s)" % (lv, sec), None)
            later = {("<", "%s.get_expiration_time()" % lv, new), ("<=", "%s.get_expiration_time()" % lv, new),
                     ("truth", abd, None)}
            newiter = lambda m: m is head
            for W in wn:
                wc = self_calls(W, "_write_lease_record")[0]
                r.site(fn, wc, "record write")
                for (t, w) in find_path_avoiding(cfg, lambda x: x is W, gate_edge=lambda m, lab: fnm.edge_fact(m, lab) == match, kill=newiter):
                    r.violation(fn, fn.loc(wc), "a lease record is written although its renew secret was not matched (path: %s)" % w.brief(), w)
                for (t, w) in find_path_avoiding(cfg, lambda x: x is W, gate_edge=lambda m, lab: fnm.edge_fact(m, lab) in later, kill=newiter):
                    r.violation(fn, fn.loc(wc), "a lease can be re-written with an earlier expiration time: neither allow_backdate nor "
                                "new_expire_time > lease.get_expiration_time() guards the write (path: %s)" % w.brief(), w)
                ok = len(wc.args) == 3 and attr_path(wc.args[1]) == iv
                r.require(ok, fn, fn.loc(wc), "the record is written to slot %s, not the matched lease's own slot" % src(fn, wc.args[1] if len(wc.args) > 1 else wc))
                if len(wc.args) == 3:
                    dn, v = def_of(fnm, W, wc.args[2])
                    okv = isinstance(v, ast.Call) and call_name(v) == lv + ".renew" and len(v.args) == 1 and attr_path(v.args[0]) == new \
                        and dn is not None and fnm.rd.get(dn.id, {}).get(lv) == frozenset([head.id])
                    r.require(okv, fn, fn.loc(wc), "the record written is %s, not lease.renew(new_expire_time) of the matched lease" % src(fn, v if v is not None else wc.args[2]))
            # normal return only after a match; IndexError otherwise
            for (t, w) in find_path_avoiding(cfg, lambda n: n.kind == "exit", gate_edge=lambda m, lab: fnm.edge_fact(m, lab) == match):
                r.violation(fn, fn.loc(), "renew_lease can return normally although no lease matched the renew secret (path: %s)" % w.brief(), w)
            r.require(bool(cfg.find(raises("IndexError"))), fn, fn.loc(), "renew_lease no longer raises IndexError for an unknown secret")
            # a matched lease with a later expiry IS renewed: only 'new <= current' may skip the write
            notlater = {("<=", new, "%s.get_expiration_time()" % lv), ("<", new, "%s.get_expiration_time()" % lv)}
            for (t, w) in find_path_avoiding(cfg, lambda n: n.kind == "exit", gate_node=lambda m: m in wn,
                                             gate_edge=lambda m, lab: fnm.edge_fact(m, lab) in notlater):
                r.violation(fn, fn.loc(), "renew_lease can return without extending a matched lease whose new expiration time is "
                            "later (path: %s)" % w.brief(), w)
            r.count(len(cfg.nodes) * 3)
        # nobody passes allow_backdate
        n_calls = 0
        for cs in real_sites(cg, "renew_lease"):
            n_calls += 1
            kw = kwarg(cs.call, "allow_backdate")
            bad = (kw is not None and not (isinstance(kw, ast.Constant) and kw.value is False)) \
                or any(k.arg is None for k in cs.call.keywords) \
                or (len(cs.call.args) >= 3 and not (isinstance(cs.call.args[2], ast.Constant) and cs.call.args[2].value is False)) \
                or any(isinstance(a, ast.Starred) for a in cs.call.args)
            if bad:
                r.violation(cs.fn, cs.loc, "%s calls renew_lease with allow_backdate: a renewal may shorten a lease" % short(cs.fn))
        r.site("renew_lease call sites swept: %d" % n_calls)
        if n_calls < 4:
            raise AnalysisError("renew_lease call sites not found (%d)" % n_calls)
        sr = idx.func("storage.server:StorageServer.renew_lease")
        r.site(sr, None)
        scfg = sr.cfg()
        renews = has_call("renew_lease")

        def tr(n, lab, nxt, st):
            held, flags = st
            if lab == "exc":
                return None
            if n.kind == "test" and isinstance(n.ast, ast.Name) and isinstance(lab, tuple):
                known = dict(flags).get(n.ast.id)
                if known is not None and known != (lab[0] == "T"):
                    return None          # boolean flag with a known value: infeasible branch
            if n.kind == "stmt" and isinstance(n.ast, ast.Assign) and len(n.ast.targets) == 1 and isinstance(n.ast.targets[0], ast.Name):
                v = n.ast.value
                flags = dict(flags)
                if isinstance(v, ast.Constant) and isinstance(v.value, bool):
                    flags[n.ast.targets[0].id] = v.value
                else:
                    flags.pop(n.ast.targets[0].id, None)
                flags = tuple(sorted(flags.items()))
            if renews(n):
                held = True
            return (held, flags)
        vis, par = explore(scfg, (False, ()), tr)
        for (nid, st) in sorted(vis, key=lambda x: (x[0], str(x[1]))):
            if scfg.nodes[nid].kind == "exit" and not st[0]:
                w = witness(scfg, par, (nid, st))
                r.violation(sr, sr.loc(), "StorageServer.renew_lease can return normally without having renewed anything "
                            "(no share for the storage index must raise IndexError) (path: %s)" % w.brief(), w)
                break
        for c in calls_in_func(sr, "renew_lease"):
            r.require(len(c.args) == 2 and attr_path(c.args[0]) == first_positional_params(sr)[1], sr, sr.loc(c),
                      "StorageServer.renew_lease passes %s" % src(sr, c))

    # -- 3. hashed secrets on the newest schema -------------------------------------------
    with ctx.rule("C25.3", "R5/R1/R4", "newest container schemas serialise leases with HashedLeaseSerializer; no cleartext "
                  "LeaseInfo reaches _to_data; containers default to the newest schema and nobody overrides it", expected=13) as r:
        ls = idx.module("allmydata.storage.lease_schema")
        for (modname, cq, kind) in (("allmydata.storage.immutable_schema", SF, "immutable"),
                                    ("allmydata.storage.mutable_schema", MSF, "mutable")):
            m = idx.module(modname)
            alls = m.assigns.get("ALL_SCHEMAS")
            newest = m.assigns.get("NEWEST_SCHEMA_VERSION")
            if not alls or not newest or not isinstance(alls[-1], ast.Set):
                raise AnchorVanished("%s: ALL_SCHEMAS / NEWEST_SCHEMA_VERSION" % modname)
            nv = newest[-1]
            okmax = isinstance(nv, ast.Call) and call_name(nv) == "max" and len(nv.args) == 1 and attr_path(nv.args[0]) == "ALL_SCHEMAS" \
                and isinstance(kwarg(nv, "key"), ast.Lambda) and isinstance(kwarg(nv, "key").body, ast.Attribute) \
                and kwarg(nv, "key").body.attr == "version" and attr_path(kwarg(nv, "key").body.value) == kwarg(nv, "key").args.args[0].arg
            where = "%s:%d" % (m.relpath, nv.lineno)
            r.site("%s.NEWEST_SCHEMA_VERSION" % modname)
            r.require(okmax, modname + ":NEWEST_SCHEMA_VERSION", where, "NEWEST_SCHEMA_VERSION is not max(ALL_SCHEMAS, key=version)")
            cands = []
            for e in alls[-1].elts:
                if isinstance(e, ast.Call):
                    v, s_ = kwarg(e, "version"), kwarg(e, "lease_serializer")
                    if v is None and e.args:
                        v = e.args[0]
                    if s_ is None and len(e.args) > 1:
                        s_ = e.args[1]
                    vv = _fold(fo, v, m) if v is not None else None
                    if isinstance(vv, int) and isinstance(s_, ast.Name):
                        cands.append((vv, s_.id, e))
            if len(cands) != len(alls[-1].elts) or not cands:
                raise AnalysisError("%s.ALL_SCHEMAS is not a set of schema constructions with constant versions" % modname)
            ver, sername, e = max(cands, key=lambda x: x[0])
            tgt = m.imports.get(sername, "")
            sdef = ls.assigns.get(sername) if tgt == "allmydata.storage.lease_schema." + sername else None
            if not sdef:
                raise AnchorVanished("%s: serializer %s is not defined in lease_schema" % (modname, sername))
            sc = sdef[-1]
            r.site("%s newest schema v%d -> lease_schema.%s" % (modname, ver, sername))
            okser = isinstance(sc, ast.Call) and call_name(sc) == "HashedLeaseSerializer" and len(sc.args) == 2 \
                and attr_path(sc.args[0]) == "HashedLeaseInfo.to_%s_data" % kind and attr_path(sc.args[1]) == "LeaseInfo.from_%s_data" % kind
            r.require(okser, "allmydata.storage.lease_schema:" + sername, "%s:%d" % (ls.relpath, sc.lineno),
                      "newest %s schema (v%d) serialises leases with %s, not HashedLeaseSerializer(HashedLeaseInfo.to_%s_data, "
                      "LeaseInfo.from_%s_data): secrets would be stored in cleartext" % (kind, ver, src(None, sc), kind, kind))
            # container constructor default + storing
            init = idx.func(cq + ".__init__")
            a = init.node.args
            names = [x.arg for x in a.args]
            r.site(init, None, "schema default")
            dmap = dict(zip(names[len(names) - len(a.defaults):], a.defaults))
            d = dmap.get("schema")
            okd = isinstance(d, ast.Name) and d.id == "NEWEST_SCHEMA_VERSION" \
                and init.module.imports.get("NEWEST_SCHEMA_VERSION") == modname + ".NEWEST_SCHEMA_VERSION"
            r.require(okd, init, init.loc(), "%s(schema=...) does not default to %s.NEWEST_SCHEMA_VERSION" % (short(init), modname))
            for (f_, nd) in cg.attr_stores("_schema"):
                if f_.cls is not None and f_.cls.qual == "allmydata." + cq and f_.name != "__init__":
                    r.violation(f_, f_.loc(nd), "%s re-binds the container schema" % short(f_))
            # the lease record writer
            wl = idx.func(cq + "._write_lease_record")
            wps = first_positional_params(wl)
            writes = [c for c in calls_in_func(wl) if call_tail(c) in ("write", "writelines") and isinstance(c.func, ast.Attribute)
                      and attr_path(c.func.value) == wps[0]]
            if not writes:
                raise AnchorVanished("%s: no file write" % short(wl))
            for c in writes:
                r.site(wl, c, "record bytes")
                okw = len(c.args) == 1 and norm(c.args[0], wl) == "self._schema.lease_serializer.serialize(%s)" % wps[2]
                r.require(okw, wl, wl.loc(c), "lease record bytes are %s, not self._schema.lease_serializer.serialize(lease_info): "
                          "secrets bypass the schema's hashing" % src(wl, c.args[0] if c.args else c))
        # nobody overrides the schema
        n_ctor = 0
        for tail, pos in (("ShareFile", 4), ("MutableShareFile", 2), ("create_mutable_sharefile", 99)):
            for cs in real_sites(cg, tail):
                n_ctor += 1
                if kwarg(cs.call, "schema") is not None or len(cs.call.args) > pos or any(k.arg is None for k in cs.call.keywords):
                    r.violation(cs.fn, cs.loc, "%s constructs %s with an explicit schema: a new container could be created with "
                                "cleartext lease secrets" % (short(cs.fn), tail))
        r.site("container constructions swept: %d" % n_ctor)
        if n_ctor < 10:
            raise AnalysisError("container construction sites not found (%d)" % n_ctor)
        cm = idx.func("storage.mutable:create_mutable_sharefile")
        r.require("schema" not in cm.params, cm, cm.loc(), "create_mutable_sharefile grew a schema parameter")
        # serialize: no cleartext LeaseInfo reaches _to_data
        hz = "storage.lease_schema:HashedLeaseSerializer"
        sz = idx.func(hz + ".serialize")
        lp = first_positional_params(sz)[0]
        cfg = sz.cfg()
        fnm = FlowNorm(sz)
        tn = [n for n in cfg.nodes if calls_at(n, "_to_data")]
        if not tn:
            raise AnchorVanished("HashedLeaseSerializer.serialize no longer calls _to_data")

        def hashed(n):
            v = assign_value(n, lp)
            return isinstance(v, ast.Call) and call_tail(v) == "_hash_lease_info" and len(v.args) == 1 and attr_path(v.args[0]) == lp
        notclear = lambda n, lab: fnm.edge_fact(n, lab) == ("false", "isinstance(%s, LeaseInfo)" % lp, None)
        for T in tn:
            c = calls_at(T, "_to_data")[0]
            r.site(sz, c, "serialize")
            r.require(len(c.args) == 1 and attr_path(c.args[0]) == lp, sz, sz.loc(c), "_to_data is given %s" % src(sz, c))
            for (t, w) in find_path_avoiding(cfg, lambda x: x is T, gate_node=hashed, gate_edge=notclear,
                                             kill=lambda n: lp in node_stores(n) and not hashed(n)):
                r.violation(sz, sz.loc(c), "a LeaseInfo with cleartext secrets can reach _to_data without _hash_lease_info "
                            "(path: %s)" % w.brief(), w)
        r.count(len(cfg.nodes))
        # _hash_lease_info hashes both secrets and hands the same hash function on
        hl = idx.func(hz + "._hash_lease_info")
        r.site(hl, None)
        hp = first_positional_params(hl)[0]
        rv = only_return(hl).value
        ok = isinstance(rv, ast.Call) and call_name(rv) == "HashedLeaseInfo" and len(rv.args) == 2
        hfun = norm_plain(rv.args[1]) if ok else None
        inner = rv.args[0] if ok else None
        ok = ok and isinstance(inner, ast.Call) and call_name(inner) == "attr.assoc" and len(inner.args) == 1 and attr_path(inner.args[0]) == hp
        if ok:
            kws = {k.arg: norm_plain(k.value) for k in inner.keywords}
            ok = kws == {"renew_secret": "%s(%s.renew_secret)" % (hfun, hp), "cancel_secret": "%s(%s.cancel_secret)" % (hfun, hp)} \
                and hfun in ("cls._hash_secret", "self._hash_secret")
        r.require(ok, hl, hl.loc(), "_hash_lease_info does not return HashedLeaseInfo(attr.assoc(lease_info, renew_secret=H(renew_secret), "
                  "cancel_secret=H(cancel_secret)), H) with H = _hash_secret")
        hs = idx.func(hz + "._hash_secret")
        r.site(hs, None)
        srv_ = only_return(hs).value
        sp = first_positional_params(hs)[0]
        r.require(isinstance(srv_, ast.Call) and call_tail(srv_) == "blake2b" and srv_.args and attr_path(srv_.args[0]) == sp
                  and hs.module.imports.get("blake2b") == "nacl.hash.blake2b", hs, hs.loc(), "_hash_secret is not blake2b(secret, ..)")
        uz = idx.func(hz + ".unserialize")
        r.site(uz, None)
        urv = only_return(uz).value
        up = first_positional_params(uz)[0]
        oku = isinstance(urv, ast.Call) and call_name(urv) == "HashedLeaseInfo" and len(urv.args) == 2 \
            and norm_plain(urv.args[0]) == "self._from_data(%s)" % up and norm_plain(urv.args[1]) in ("self._hash_secret", "cls._hash_secret")
        r.require(oku, uz, uz.loc(), "unserialize does not wrap the record as HashedLeaseInfo(self._from_data(data), self._hash_secret)")
        # no bypass of the serializers
        for nm in ("to_mutable_data", "to_immutable_data"):
            for cs in real_sites(cg, nm):
                if cs.fn.name != "<module>":
                    r.violation(cs.fn, cs.loc, "%s calls %s directly: lease bytes bypass the schema's serializer" % (short(cs.fn), nm))
            for (f_, nd) in cg.refs_named(nm):
                if f_.name == "<module>" and f_.module.name == "allmydata.storage.lease_schema":
                    continue      # the serializer table itself
                if isinstance(nd, ast.Attribute):
                    r.violation(f_, f_.loc(nd), "%s takes %s as a value outside lease_schema" % (short(f_), nm))

    # -- 4. struct agreement ------------------------------------------------------------
    with ctx.rule("C25.4", "R5", "lease struct formats agree with pack argument order, unpack name lists, LeaseInfo attributes "
                  "and the containers' LEASE_SIZE", expected=8) as r:
        lm = idx.module("allmydata.storage.lease")
        li = idx.cls("storage.lease:LeaseInfo")
        attrs = [a.lstrip("_") for a in li.attrs if isinstance(li.attrs[a][-1], ast.Call) and call_name(li.attrs[a][-1]) == "attr.ib"]
        if len(attrs) < 5:
            raise AnchorVanished("LeaseInfo attr.ib fields not found: %s" % attrs)
        for (kind, const, cq) in (("immutable", "IMMUTABLE_FORMAT", SF), ("mutable", "MUTABLE_FORMAT", MSF)):
            fmt = fo.module_const("storage.lease", const)
            fields = struct_fields(fmt) if isinstance(fmt, str) else []
            where = "%s:%d" % (lm.relpath, lm.assigns[const][-1].lineno)
            r.site("lease.%s = %r" % (const, fmt))
            r.require(isinstance(fmt, str) and fmt[:1] == ">", "allmydata.storage.lease:" + const, where,
                      "%s is not a big-endian standard-size format" % const)
            # writer
            to = idx.func("storage.lease:LeaseInfo.to_%s_data" % kind)
            pk = [c for c in calls_in_func(to, "pack") if call_name(c) == "struct.pack"]
            if len(pk) != 1:
                raise AnchorVanished("%s: struct.pack not found" % short(to))
            r.site(to, pk[0], "pack")
            r.require(attr_path(pk[0].args[0]) == const, to, to.loc(pk[0]), "%s packs with %s, not %s" % (short(to), src(to, pk[0].args[0]), const))
            wnames = []
            for a in pk[0].args[1:]:
                if isinstance(a, ast.Call) and call_name(a) == "int" and len(a.args) == 1:
                    a = a.args[0]
                p_ = attr_path(a) or "?"
                wnames.append(p_.split(".", 1)[1].lstrip("_") if p_.startswith("self.") else "?")
            # reader
            frm = idx.func("storage.lease:LeaseInfo.from_%s_data" % kind)
            un = [c for c in calls_in_func(frm, "unpack") if call_name(c) == "struct.unpack"]
            lists = [n.value for n in func_own_nodes(frm) if isinstance(n, ast.Assign) and isinstance(n.value, ast.List)
                     and all(isinstance(e, ast.Constant) and isinstance(e.value, str) for e in n.value.elts)]
            if len(un) != 1 or len(lists) != 1:
                raise AnchorVanished("%s: struct.unpack / names list not found" % short(frm))
            r.site(frm, un[0], "unpack")
            r.require(attr_path(un[0].args[0]) == const and len(un[0].args) == 2 and attr_path(un[0].args[1]) == first_positional_params(frm)[0],
                      frm, frm.loc(un[0]), "%s unpacks %s" % (short(frm), src(frm, un[0])))
            rnames = [e.value for e in lists[0].elts]
            r.require(len(fields) == len(wnames) == len(rnames), to, to.loc(pk[0]), "%s has %d fields, %d values are packed, %d names "
                      "are unpacked" % (const, len(fields), len(wnames), len(rnames)))
            r.require(wnames == rnames, to, to.loc(pk[0]), "field order differs: packed %s, unpacked as %s" % (wnames, rnames))
            r.require(set(rnames) <= set(attrs), frm, frm.loc(lists[0]), "unpacked names %s are not LeaseInfo attributes %s" % (rnames, attrs))
            if len(fields) == len(rnames):
                for nm, fl in zip(rnames, fields):
                    want = {"renew_secret": ("s", 32), "cancel_secret": ("s", 32), "nodeid": ("s", 20)}.get(nm, ("L", 1))
                    r.require(fl == want, "allmydata.storage.lease:" + const, where, "field %s is %r in %s, expected %r" % (nm, fl, const, want))
            # sizes
            ci = idx.cls(cq)
            try:
                lsz = fo.class_attr(ci, "LEASE_SIZE")
            except NotConstant as ex:
                raise AnalysisError("cannot fold %s.LEASE_SIZE: %s" % (cq, ex))
            r.site("%s.LEASE_SIZE = %r" % (cq, lsz))
            r.require(isinstance(fmt, str) and lsz == _struct.calcsize(fmt), ci.qual, "%s:%d" % (ci.module.relpath, ci.node.lineno),
                      "%s.LEASE_SIZE=%r but calcsize(%s)=%r: lease records would overlap or leave gaps" % (
                          ci.name, lsz, const, _struct.calcsize(fmt) if isinstance(fmt, str) else None))
            szf = idx.func("storage.lease:LeaseInfo.%s_size" % kind)
            sv_ = only_return(szf).value
            r.require(isinstance(sv_, ast.Call) and call_name(sv_) == "struct.calcsize" and attr_path(sv_.args[0]) == const, szf, szf.loc(),
                      "%s does not return calcsize(%s)" % (short(szf), const))
        # the record reader of each container reads LEASE_SIZE bytes and hands them to the schema's unserialize
        for (cq, rd) in ((SF, "get_leases"), (MSF, "_read_lease_record")):
            g = idx.func(cq + "." + rd)
            us = calls_in_func(g, "unserialize")
            ok = len(us) == 1 and call_name(us[0]) == "self._schema.lease_serializer.unserialize" and len(us[0].args) == 1
            if ok:
                v = N(g).norm(us[0].args[0])
                ok = re.match(r"^\w+\.read\(self\.LEASE_SIZE\)$", v) is not None or isinstance(us[0].args[0], ast.Name)
                if isinstance(us[0].args[0], ast.Name):
                    dfs = [n.value for n in func_own_nodes(g) if isinstance(n, ast.Assign) and any(attr_path(t) == us[0].args[0].id for t in n.targets)]
                    ok = len(dfs) == 1 and re.match(r"^\w+\.read\(self\.LEASE_SIZE\)$", norm_plain(dfs[0])) is not None
            r.require(ok, g, g.loc(), "%s does not unserialize a LEASE_SIZE-byte record through the schema's serializer" % short(g))

    # -- 5. candidate secrets are hashed; renew keeps the wrapper --------------------------
    with ctx.rule("C25.5", "R1", "HashedLeaseInfo hashes the candidate secret before the timing-safe comparison; renew changes "
                  "only the expiration time and keeps the hashed wrapper", expected=6) as r:
        H = "storage.lease:HashedLeaseInfo"
        L = "storage.lease:LeaseInfo"
        f1 = idx.func(H + ".is_renew_secret")
        r.site(f1, None)
        cp = first_positional_params(f1)[0]
        v = only_return(f1).value
        r.require(is_super_call(v, "is_renew_secret") and len(v.args) == 1 and norm(v.args[0], f1) == "self._hash(%s)" % cp, f1, f1.loc(),
                  "HashedLeaseInfo.is_renew_secret compares %s, not self._hash(candidate_secret), with the stored hash" % src(f1, v))
        f2 = idx.func(H + ".is_cancel_secret")
        r.site(f2, None)
        cp2 = first_positional_params(f2)[0]
        cfg = f2.cfg()
        fnm = FlowNorm(f2)
        for n in cfg.find(is_return):
            v = n.ast.value
            ok = is_super_call(v, "is_cancel_secret") and len(v.args) == 1
            r.require(ok, f2, f2.loc(n.ast), "is_cancel_secret returns %s" % src(f2, v))
            if not ok:
                continue
            a = v.args[0]
            defs = fnm.rd.get(n.id, {}).get(a.id, frozenset()) if isinstance(a, ast.Name) else None
            vals = [(cfg.nodes[d], fnm._def_value(cfg.nodes[d], a.id)) for d in defs if d >= 0] if defs else [(n, a)]
            r.require(bool(vals) and (defs is None or all(d >= 0 for d in defs)), f2, f2.loc(n.ast), "compared value is not derived from the candidate")
            for (dn, val) in vals:
                s_ = norm_plain(val) if val is not None else "?"
                if s_ == "self._hash(%s)" % cp2:
                    continue
                if s_ == "%s.hashed_value" % cp2:
                    marker = lambda m, lab: fnm.edge_fact(m, lab) == ("truth", "isinstance(%s, _HashedCancelSecret)" % cp2, None)
                    for (t, w) in find_path_avoiding(cfg, lambda x: x is dn, gate_edge=marker):
                        r.violation(f2, f2.loc(dn.ast), "the pre-hashed bypass is used without isinstance(candidate, _HashedCancelSecret)", w)
                    continue
                r.violation(f2, f2.loc(dn.ast), "is_cancel_secret compares %s with the stored hash: the candidate is not hashed" % s_)
        for (q, attr_) in ((L + ".is_renew_secret", "renew_secret"), (L + ".is_cancel_secret", "cancel_secret")):
            g = idx.func(q)
            r.site(g, None)
            gp = first_positional_params(g)[0]
            v = only_return(g).value
            ok = isinstance(v, ast.Call) and call_name(v) == "timing_safe_compare" and len(v.args) == 2 \
                and {norm_plain(x) for x in v.args} == {"self." + attr_, gp} \
                and g.module.imports.get("timing_safe_compare") == "allmydata.util.hashutil.timing_safe_compare"
            r.require(ok, g, g.loc(), "%s is not timing_safe_compare(self.%s, candidate)" % (short(g), attr_))
        g = idx.func(L + ".renew")
        r.site(g, None)
        gp = first_positional_params(g)[0]
        v = only_return(g).value
        ok = isinstance(v, ast.Call) and call_name(v) == "attr.assoc" and len(v.args) == 1 and attr_path(v.args[0]) == "self" \
            and [(k.arg, attr_path(k.value)) for k in v.keywords] == [("_expiration_time", gp)]
        r.require(ok, g, g.loc(), "LeaseInfo.renew returns %s, not a copy differing only in _expiration_time=new_expire_time" % src(g, v))
        g = idx.func(H + ".renew")
        r.site(g, None)
        gp = first_positional_params(g)[0]
        v = only_return(g).value
        ok = isinstance(v, ast.Call) and call_name(v) == "attr.assoc" and len(v.args) == 1 and attr_path(v.args[0]) == "self" \
            and len(v.keywords) == 1 and v.keywords[0].arg == "_lease_info" and is_super_call(v.keywords[0].value, "renew") \
            and [attr_path(x) for x in v.keywords[0].value.args] == [gp]
        r.require(ok, g, g.loc(), "HashedLeaseInfo.renew returns %s: the renewed lease must stay wrapped (its secrets are already "
                  "hashed and would be hashed again on write)" % src(g, v))
        hc = idx.cls(H)
        r.require(any(isinstance(b, ast.Call) and call_name(b) == "proxyForInterface" and len(b.args) == 2
                      and isinstance(b.args[1], ast.Constant) and b.args[1].value == "_lease_info" for b in hc.base_exprs),
                  hc.qual, "%s:%d" % (hc.module.relpath, hc.node.lineno), "HashedLeaseInfo no longer proxies ILeaseInfo to _lease_info")

    # -- 6. lease slots: writer and reader agree on where a lease lives ----------------------
    with ctx.rule("C25.6", "R6", "lease slot layout: _write_lease_record and the lease readers compute the same slot offsets "
                  "(mutable: 4 header slots, then count + extra slots; immutable: _lease_offset + i * LEASE_SIZE); a new slot "
                  "is counted exactly when it is appended", expected=6) as r:
        ci = idx.cls(MSF)
        try:
            T = (fo.class_attr(ci, "DATA_OFFSET") - fo.class_attr(ci, "HEADER_SIZE")) // fo.class_attr(ci, "LEASE_SIZE")
        except NotConstant as ex:
            raise AnalysisError("cannot fold the mutable container layout: %s" % ex)
        rn_ = idx.func(MSF + "._read_num_extra_leases")
        un = [c for c in calls_in_func(rn_, "unpack") if call_name(c) == "struct.unpack"]
        cfmt = _fold(fo, un[0].args[0], rn_.module, rn_.cls) if len(un) == 1 else None
        if not isinstance(cfmt, str):
            raise AnchorVanished("_read_num_extra_leases: count format not found")
        C_ = _struct.calcsize(cfmt)
        wn_ = idx.func(MSF + "._write_num_extra_leases")
        pk = [c for c in calls_in_func(wn_, "pack") if call_name(c) == "struct.pack"]
        r.site(wn_, None, "extra-lease count field %r" % cfmt)
        r.require(len(pk) == 1 and _fold(fo, pk[0].args[0], wn_.module, wn_.cls) == cfmt, wn_, wn_.loc(),
                  "extra-lease count is written with a different format than it is read with (%r)" % cfmt)
        got = {}
        for name in ("_read_lease_record", "_write_lease_record"):
            g = idx.func(MSF + "." + name)
            ps = first_positional_params(g)
            gnm = FlowNorm(g, rename={ps[0]: "F", ps[1]: "N"})
            seeks = [c for c in calls_in_func(g, "seek") if isinstance(c.func, ast.Attribute) and attr_path(c.func.value) == ps[0]
                     and len(c.args) == 1 and isinstance(c.args[0], ast.Name)]
            if len(seeks) != 1:
                raise AnchorVanished("%s: f.seek(<offset variable>) not found" % short(g))
            r.site(g, seeks[0], "slot offset")
            cases, exits, nst = slot_cases(g, gnm, seeks[0].args[0].id, "_write_num_extra_leases" if name.startswith("_write") else None)
            r.count(nst)
            got[name] = (g, cases, exits)
        NUM, ELO = "self._read_num_extra_leases(F)", "self._read_extra_lease_offset(F)"
        head_case = (frozenset({("<", P("%d - N" % T))}), P("self.HEADER_SIZE + N * self.LEASE_SIZE"))
        extra_facts = frozenset({("<=", P("N - %d" % T)), ("<", P("%s - (N - %d)" % (NUM, T)))})
        extra_off = P("%s + %d + (N - %d) * self.LEASE_SIZE" % (ELO, C_, T))
        append_facts = frozenset({("<=", P("N - %d" % T)), ("<=", P("(N - %d) - %s" % (T, NUM)))})
        g, cases, exits = got["_read_lease_record"]
        r.require(cases == {head_case, (extra_facts, extra_off)}, g, g.loc(),
                  "_read_lease_record does not locate lease N at HEADER_SIZE + N*LEASE_SIZE for N < %d and at extra_lease_offset + %d + "
                  "(N-%d)*LEASE_SIZE for N-%d < num_extra_leases; found %s" % (T, C_, T, T, sorted((sorted(f), o) for (f, o) in cases)))
        g, cases, exits = got["_write_lease_record"]
        r.require(cases == {head_case, (extra_facts, extra_off), (append_facts, extra_off)}, g, g.loc(),
                  "_write_lease_record does not write lease N where _read_lease_record looks for it (plus the append slot); found %s" % (
                      sorted((sorted(f), o) for (f, o) in cases)))
        for (case, bumped) in exits:
            if case is None:
                continue
            is_append = case[0] == append_facts
            r.require(bumped == is_append, g, g.loc(), "the extra-lease count is %s when a record is written %s" % (
                "not incremented" if is_append else "incremented", "to a new slot" if is_append else "to an existing slot"))
        for c in calls_in_func(g, "_write_num_extra_leases"):
            r.require(len(c.args) == 2 and str(FlowNorm(g, rename={first_positional_params(g)[0]: "F"}).at(
                [n for n in g.cfg().nodes if c in node_calls(n)][0]).poly(c.args[1])) == P(NUM + " + 1"), g, g.loc(c),
                "the extra-lease count is set to %s, not num_extra_leases + 1" % src(g, c.args[-1]))
        gs = idx.func(MSF + "._get_num_lease_slots")
        r.site(gs, None)
        v = only_return(gs).value
        r.require(str(N(gs).poly(v)) == P("%d + self._read_num_extra_leases(%s)" % (T, first_positional_params(gs)[0])), gs, gs.loc(),
                  "_get_num_lease_slots returns %s, not %d + num_extra_leases" % (src(gs, v), T))
        # immutable container
        wl = idx.func(SF + "._write_lease_record")
        ps = first_positional_params(wl)
        wnm = FlowNorm(wl, rename={ps[0]: "F", ps[1]: "N"})
        seeks = [c for c in calls_in_func(wl, "seek") if len(c.args) == 1 and isinstance(c.args[0], ast.Name)]
        if len(seeks) != 1:
            raise AnchorVanished("ShareFile._write_lease_record: f.seek(<offset variable>) not found")
        r.site(wl, seeks[0], "slot offset")
        cases, exits, nst = slot_cases(wl, wnm, seeks[0].args[0].id)
        r.require(cases == {(frozenset(), P("self._lease_offset + N * self.LEASE_SIZE"))}, wl, wl.loc(),
                  "ShareFile._write_lease_record does not write lease N at _lease_offset + N*LEASE_SIZE; found %s" % sorted(o for (f, o) in cases))
        gl = idx.func(SF + ".get_leases")
        r.site(gl, None, "sequential reader")
        sk = [norm_plain(c.args[0]) for c in calls_in_func(gl, "seek") if len(c.args) == 1]
        rdz = [norm_plain(c.args[0]) for c in calls_in_func(gl, "read") if len(c.args) == 1]
        r.require(sk == ["self._lease_offset"] and "self.LEASE_SIZE" in rdz, gl, gl.loc(),
                  "ShareFile.get_leases does not read LEASE_SIZE-byte records sequentially from _lease_offset")
        al = idx.func(SF + ".add_lease")
        anm = N(al)
        wc = calls_in_func(al, "_write_lease_record")
        ok = len(wc) == 1 and len(wc[0].args) == 3 and re.match(r"^self\._read_num_leases\(\w+\)$", anm.norm(wc[0].args[1])) is not None
        r.require(ok, al, al.loc(), "ShareFile.add_lease does not append the record at index num_leases")
        pk = [c for c in calls_in_func(al, "pack") if call_name(c) == "struct.pack" and len(c.args) == 2]
        okc = len(pk) == 1 and re.match(r"^\(1 \+ self\._read_num_leases\(\w+\)\)$", str(anm.poly(pk[0].args[1]))) is not None
        r.require(okc, al, al.loc(), "ShareFile.add_lease does not record num_leases + 1 as the new lease count")
