"""C25 Lease semantics.

Decided: renew-or-add structure, the no-backdating guard and its call sites,
hashed lease secrets on the newest container schemas, agreement of the lease
struct formats with their pack/unpack sites and the hash width, hashing of candidate secrets, the lease
slot layout and its count/offset field accessors, renewal independent of available space, slot-numbered
lease enumeration, mutable slot occupancy (empty marker, where a new lease may go), the intact move of the
extra-lease block by whichever function relocates it (container growth and any sibling), that a matched renew secret never ends in 'no such lease', and that
a stored (hashed) lease never reaches the serializer again as a plain lease (no second hashing of its secrets).
DESIGN.md section 5, C25.  (Lease isolation from data writes is C23.2/C23.6.)"""
from sa.h import *

EXPLANATION = (
    "Decided (structural, all paths): (1) ShareFile/MutableShareFile.add_or_renew_lease call add_lease only from the "
    "IndexError handler of renew_lease(lease_info.renew_secret, lease_info.get_expiration_time()), and that handler "
    "always reaches add_lease (or raises); container-level add_lease is called from nowhere else except the creation "
    "of a fresh immutable share; the server builds LeaseInfo with renew/cancel secrets in the fields of the same name "
    "(slot writes: secrets[1], secrets[2]); (2) renew_lease writes a record only for the lease whose is_renew_secret(renew_secret) "
    "holds, only under allow_backdate or new_expire_time > lease.get_expiration_time(), writes lease.renew(new) to that "
    "lease's own slot, skips the write of a matched lease only under new <= current expiry, returns normally only after "
    "a secret matched and raises IndexError otherwise (StorageServer.renew_lease: also when no share exists, and never after "
    "the shares were renewed); allow_backdate defaults to False and no call site in the package passes it; (3) the schema with the highest version in "
    "mutable_schema/immutable_schema.ALL_SCHEMAS (= NEWEST_SCHEMA_VERSION, the default of both container "
    "constructors, never overridden by a caller) uses HashedLeaseSerializer; its serialize never hands a LeaseInfo "
    "to _to_data without _hash_lease_info, which hashes both secrets with the function also given to unserialize; "
    "_write_lease_record writes only lease_serializer.serialize(lease_info); no function bypasses the serializers by "
    "calling to_mutable_data/to_immutable_data; (4) IMMUTABLE_FORMAT/MUTABLE_FORMAT agree with the pack argument "
    "order, the unpack name lists, the LeaseInfo attributes, the secret field widths and the containers' LEASE_SIZE, and _hash_secret produces a raw digest "
    "of exactly the secret field width (struct.pack would cut or pad it silently and no candidate would ever match again); "
    "(5) HashedLeaseInfo.is_renew_secret/is_cancel_secret hash the candidate before the timing-safe comparison "
    "(the pre-hashed bypass only for _HashedCancelSecret), and renew keeps the hashed wrapper and changes only the "
    "expiration time; (6) lease slot layout: MutableShareFile._read_lease_record/_write_lease_record compute identical "
    "slot offsets under identical conditions (N < 4: HEADER_SIZE + N*LEASE_SIZE; else extra_lease_offset + 4 + "
    "(N-4)*LEASE_SIZE), the extra-lease count is incremented exactly when a record is appended, ShareFile writes lease N "
    "at _lease_offset + N*LEASE_SIZE, reads sequentially from there and appends at index num_leases with count+1, which reaches "
    "the file on every path after the record write; _read_extra_lease_offset / _read_num_extra_leases / _write_num_extra_leases and "
    "ShareFile._read_num_leases / _write_encoded_num_leases position the file (EXTRA_LEASE_OFFSET, the extra-lease offset, the header "
    "offset at which get_leases finds the count) immediately before their read / write; "
    "(7) a renewal needs no space: add_or_renew_lease (both containers) reaches the renew attempt on every path - no return, "
    "raise (NoSpace) or space-dependent precondition before it; StorageServer._add_or_renew_leases offers every share to "
    "add_or_renew_lease, and add_lease / allocate_buckets / slot_testv_and_readv_and_writev skip it only under renew_leases=False, "
    "failed test vectors or an empty share collection, and the collection they hand over is derived from the shares of the "
    "storage index; (8) the number handed out with a lease is the slot it lives in: "
    "MutableShareFile._enumerate_leases pairs each lease with the very slot argument of the _read_lease_record call that produced it "
    "(not a position among the live leases), visits range(_get_num_lease_slots(f)) and hands out every slot that is not None; "
    "ShareFile.get_leases yields every non-empty LEASE_SIZE record with one file access per iteration, so enumerate() in renew_lease "
    "counts slots; MutableShareFile.cancel_lease blanks only the enumerated slot of a lease whose is_cancel_secret matched; "
    "(9) mutable slot occupancy: _read_lease_record returns None only past a test that found the unserialized record's owner_num "
    "== 0 and otherwise returns that record; _get_first_empty_lease_slot returns only a slot whose _read_lease_record(f, slot) is None "
    "held in the same iteration; MutableShareFile.add_lease writes the given lease, on every normal path, to the slot "
    "_get_first_empty_lease_slot found (checked is not None) or to slot _get_num_lease_slots(f); "
    "(10) leases survive a container resize: every function that relocates the extra-lease block - found by role: whoever calls "
    "_write_extra_lease_offset, i.e. MutableShareFile._change_container_size (growth) and any sibling (a shrinking or compacting path), "
    "whatever its name and whatever it calls the file object; a method that stores that header field without the helper is reported as "
    "not decided - reads count-field-width + num_extra_leases * LEASE_SIZE "
    "bytes immediately after seek(_read_extra_lease_offset(f)) and before any modification of the file, writes exactly those bytes at the "
    "position it hands to _write_extra_lease_offset, writes nothing afterwards that may overlap the copy (only the fixed header fields, a "
    "fill of at most new - position bytes in front of it, a write positioned at max(.., new + block size, ..) behind it, or a truncate at "
    "exactly new + block size: old and new block overlap when the offset moves by less than the block size, in either direction), and no "
    "call that modified the file returns without the copy and the header update; "
    "(11) renew_lease (both containers) reaches no raise statement once some lease's is_renew_secret(renew_secret) held (boolean flag locals "
    "are followed), whether or not the expiry had to move - otherwise add_or_renew_lease would add a duplicate for a known secret; "
    "(12) the hashed representation is closed - a stored lease never returns to the serializer as a plain LeaseInfo, whose already-hashed "
    "secrets would be hashed a second time so that the record stops answering to its secret: HashedLeaseSerializer.serialize reaches "
    "_hash_lease_info only past a type test that no object of the wrapper class (what unserialize / _hash_lease_info construct) can pass; the "
    "wrapper class is not a subclass of the plain lease class (what the record readers given to the serializer build); every method that the "
    "wrapper's proxyForInterface base forwards to the wrapped lease, that returns a lease object there (self, a copy of self, a construction of "
    "the class) and that some code outside the two classes calls (today: renew) is overridden by the wrapper with wrapper-typed returns only "
    "(a deleted override is reported as a violation, by C25.5 as well, not as a vanished anchor); the containers hand _write_lease_record only a "
    "lease they were given, a stored lease as enumerated, a plain lease not built from a stored one, or <lease>.m(..) with such a closed m - never "
    "the wrapped object taken out of its wrapper.  "
    "Undecided: hash strength, clock values, byte-level file effects; whether MutableShareFile.add_lease may refuse for lack of "
    "space when an empty slot could be reused, and the NoSpace comparison of ShareFile.add_or_renew_lease (resource questions, not "
    "part of the stated property); the values of EXTRA_LEASE_OFFSET / ShareFile._lease_offset and which schema an existing container "
    "is opened with (edits there crash on first use in the sweep, no structural rule); what cancel_lease reports, returns, unlinks "
    "and the content of its blank record (cancellation is not part of the stated property); which shares get_shares / "
    "_iter_share_files enumerate for a storage index; whether the offset a relocator moves the extra-lease block to lies behind the "
    "share data (only that the block arrives intact where the header points).")
TECHNIQUE = "static analysis: CFG gate rules, keyword-argument sweep, constant folding of struct formats, schema tables"

SF = "storage.immutable:ShareFile"
MSF = "storage.mutable:MutableShareFile"
CONTAINERS = ((SF, "immutable"), (MSF, "mutable"))


# ---------------------------------------------------------------- helpers
def def_of(fnm, n, e):
    if not isinstance(e, ast.Name):
        return None, e
    ds = fnm.rd.get(n.id, {}).get(e.id)
    if not ds or len(ds) != 1:
        return None, None
    (d,) = tuple(ds)
    if d < 0:
        return None, None
    dn = fnm.cfg.nodes[d]
    return dn, fnm._def_value(dn, e.id)


def self_calls(n, name):
    return [c for c in node_calls(n) if call_name(c) == "self." + name]


def real_sites(cg, tail):
    """Call sites of `tail`; the engine lists calls inside top-level functions a second time under the
    module pseudo-function - those duplicates are dropped."""
    sites = cg.calls_named(tail)
    real = {id(cs.call) for cs in sites if cs.fn.name != "<module>"}
    return [cs for cs in sites if cs.fn.name != "<module>" or id(cs.call) not in real]


def is_super_call(e, meth):
    """super(...).meth(...)"""
    return isinstance(e, ast.Call) and isinstance(e.func, ast.Attribute) and e.func.attr == meth \
        and isinstance(e.func.value, ast.Call) and isinstance(e.func.value.func, ast.Name) and e.func.value.func.id == "super"


def deref(fn, e):
    """Follow a local name to its single defining expression."""
    for _i in range(4):
        if not isinstance(e, ast.Name):
            break
        ds = all_defs(fn).get(e.id)
        if not ds or len(ds) != 1 or ds[0] is None:
            break
        e = ds[0]
    return e


def only_return(fn):
    rets = [n for n in func_own_nodes(fn) if isinstance(n, ast.Return)]
    if len(rets) != 1:
        raise AnchorVanished("%s: expected a single return, found %d" % (short(fn), len(rets)))
    return rets[0]


def _fold(fo, e, m, cls=None):
    try:
        return fo.fold(e, m, cls)
    except NotConstant:
        return None


def exc_names(h):
    t = h.ast.type
    if t is None:
        return [None]
    return [attr_path(x) for x in (t.elts if isinstance(t, ast.Tuple) else [t])]


def P(src_: str) -> str:
    return str(Normaliser(Env(None, depth=0)).poly(parse_expr(src_)))


_NEGOP = {ast.Eq: ast.NotEq, ast.NotEq: ast.Eq, ast.Lt: ast.GtE, ast.LtE: ast.Gt, ast.Gt: ast.LtE, ast.GtE: ast.Lt}
_SYM = {ast.Eq: "==", ast.NotEq: "!=", ast.Lt: "<", ast.LtE: "<="}


def lin_fact(fnm, n, lab):
    """(op, poly): ``0 op poly`` holds on the edge; None for non-comparisons and assert/precondition edges."""
    if n.kind != "test" or not isinstance(lab, tuple) or n.assume:
        return None
    e, pol = n.ast, lab[0] == "T"
    while isinstance(e, ast.UnaryOp) and isinstance(e.op, ast.Not):
        e, pol = e.operand, not pol
    if not isinstance(e, ast.Compare) or len(e.ops) != 1 or type(e.ops[0]) not in _NEGOP:
        return None
    op = type(e.ops[0])
    if not pol:
        op = _NEGOP[op]
    l, r_ = e.left, e.comparators[0]
    if op in (ast.Gt, ast.GtE):
        op = {ast.Gt: ast.Lt, ast.GtE: ast.LtE}[op]
        l, r_ = r_, l
    nz = fnm.at(n)
    try:
        d = nz.poly(r_) - nz.poly(l)
    except Exception:
        return None
    if op in (ast.Eq, ast.NotEq):
        return (_SYM[op], min(str(d), str(-d)))
    return (_SYM[op], str(d))


def slot_cases(fn, fnm, var, bump_tail=None):
    """Per path: (facts established before `var` is assigned, polynomial assigned).  Boolean flag locals are
    tracked so that flag-guarded statements keep their case.  Also returns, for every normal exit, the pair
    (facts, bumped) where bumped = a call of `bump_tail` was passed."""
    cfg = fn.cfg()

    def transfer(n, lab, nxt, st):
        facts, flags, case, bumped = st
        if lab == "exc":
            return None
        if n.kind == "test" and isinstance(n.ast, ast.Name) and isinstance(lab, tuple):
            known = dict(flags).get(n.ast.id)
            if known is not None and known != (lab[0] == "T"):
                return None
        f_ = lin_fact(fnm, n, lab)
        if f_:
            facts = facts | {f_}
        if n.kind == "stmt" and isinstance(n.ast, ast.Assign) and len(n.ast.targets) == 1 and isinstance(n.ast.targets[0], ast.Name):
            nm, v = n.ast.targets[0].id, n.ast.value
            if isinstance(v, ast.Constant) and isinstance(v.value, bool):
                flags = tuple(sorted(dict(flags, **{nm: v.value}).items()))
            if nm == var:
                try:
                    case = (facts, str(fnm.at(n).poly(v)))
                except Exception:
                    case = (facts, "?")
        if bump_tail and calls_at(n, bump_tail):
            bumped = True
        return (facts, flags, case, bumped)
    visited, parent = explore(cfg, (frozenset(), (), None, False), transfer)
    cases, exits = set(), set()
    for (nid, st) in visited:
        if st[2] is not None:
            cases.add(st[2])
        if cfg.nodes[nid].kind == "exit":
            exits.add((st[2], st[3]))
    return cases, exits, len(visited)


def unpositioned_accesses(fn, fp, want, kinds):
    """File-field accessor `fn` working on the file parameter `fp`: every fp.<kind>(..) call (kind in `kinds`) must happen
    right after fp.seek(E) with want(normal form of E, E); nothing else may use the file in between (a method call on it, or a
    call it is handed to - both move the file position).  Returns (access nodes, [(node, witness)] of unpositioned ones, states)."""
    cfg = fn.cfg()
    fnm = FlowNorm(fn)

    def file_calls(n):
        return [c for c in node_calls(n) if (isinstance(c.func, ast.Attribute) and attr_path(c.func.value) == fp)
                or any(attr_path(a) == fp for a in c.args) or any(attr_path(k.value) == fp for k in c.keywords)]

    def is_access(c):
        return isinstance(c.func, ast.Attribute) and attr_path(c.func.value) == fp and c.func.attr in kinds

    def is_gate(n):
        fc = file_calls(n)
        sk = [c for c in fc if isinstance(c.func, ast.Attribute) and attr_path(c.func.value) == fp and c.func.attr == "seek"
              and len(c.args) == 1 and not c.keywords]
        if len(sk) != 1:
            return False
        inner = {id(x) for x in ast.walk(sk[0].args[0])}      # evaluated before the seek itself
        return all(c is sk[0] or id(c) in inner for c in fc) and want(fnm.norm(n, sk[0].args[0]), sk[0].args[0])

    def transfer(n, lab, nxt, st):
        if lab == "exc":
            return None
        if not file_calls(n):
            return st
        return is_gate(n)
    visited, parent = explore(cfg, False, transfer)
    acc = [n for n in cfg.nodes if any(is_access(c) for c in file_calls(n))]
    bad = []
    for n in acc:
        if len(file_calls(n)) != 1:
            bad.append((n, None))
        elif (n.id, False) in visited:
            bad.append((n, witness(cfg, parent, (n.id, False))))
    return acc, bad, len(visited)


def match_flow(cfg, mset, gate=None):
    """Explore with the state (a match edge of `mset` {(node id, 'T'/'F')} - or an edge with gate(node, label) - was passed,
    known boolean flag locals).  Branches on a
    flag local whose constant value is known are followed only in the feasible direction, so that `found = True; break` ...
    `if not found: raise` is understood.  Exceptional edges are followed only out of explicit raise statements."""
    def tr(n, lab, nxt, st):
        matched, flags = st
        if lab == "exc" and not (n.kind == "stmt" and isinstance(n.ast, ast.Raise)):
            return None          # I/O failures are not the question; explicit raise statements are
        if n.kind == "test" and isinstance(n.ast, ast.Name) and isinstance(lab, tuple):
            known = dict(flags).get(n.ast.id)
            if known is not None and known != (lab[0] == "T"):
                return None      # boolean flag with a known value: infeasible branch
        if n.kind == "stmt" and isinstance(n.ast, ast.Assign) and len(n.ast.targets) == 1 and isinstance(n.ast.targets[0], ast.Name):
            v = n.ast.value
            fl = dict(flags)
            if isinstance(v, ast.Constant) and isinstance(v.value, bool):
                fl[n.ast.targets[0].id] = v.value
            else:
                fl.pop(n.ast.targets[0].id, None)
            flags = tuple(sorted(fl.items()))
        if (isinstance(lab, tuple) and (n.id, lab[0]) in mset) or (gate is not None and lab != "exc" and gate(n, lab)):
            matched = True
        return (matched, flags)
    return explore(cfg, (False, ()), tr)


# -------------------------------------------------------------------- rules
# --------------------------------------------------- the hashed lease representation is closed (C25.12, also C29.9)
_COPIES = {"attr.assoc", "attr.evolve", "attrs.evolve", "copy.copy", "copy.deepcopy", "copy.replace", "dataclasses.replace"}


def _cls_loc(ci):
    return "%s:%d" % (ci.module.relpath, ci.node.lineno)


def _is_sub(ci, other):
    return any(c.qual == other.qual for c in ci.mro())


def _imported_name(fn, call):
    nm = call_name(call) or ""
    head, _, rest = nm.partition(".")
    return fn.module.imports.get(head, head) + ("." + rest if rest else "")


def proxied_interface(idx, wc):
    """(names the proxyForInterface base of `wc` forwards, attribute they are forwarded to); (None, None) when `wc` is
    not such a proxy."""
    px = [b for b in wc.base_exprs if isinstance(b, ast.Call) and call_tail(b) == "proxyForInterface"]
    if not px:
        return None, None
    if len(px) != 1 or not px[0].args:
        raise AnalysisError("%s: cannot read its proxyForInterface base" % wc.qual)
    ic = idx.resolve_expr_to_class(wc.module, px[0].args[0])
    if ic is None:
        raise AnalysisError("%s: the proxied interface %s is not a class of the package" % (wc.qual, norm_plain(px[0].args[0])))
    pa = arg(px[0], 1, "originalAttribute")
    pattr = pa.value if isinstance(pa, ast.Constant) and isinstance(pa.value, str) else ("original" if pa is None else None)
    names = set()
    for c in ic.mro():
        names |= set(c.methods)
    return names, pattr


class _Rep:
    """Which values of a method are objects of the method's own representation: instances of `root` or a subclass
    (self, copies of self, constructions of the class, calls of own methods that return such values).  quant=any:
    'may return one'; quant=all: 'returns nothing else'."""
    def __init__(self, idx, root):
        self.idx, self.root = idx, root

    def expr(self, fn, e, quant, seen, depth=0):
        if depth > 6:
            return False
        decs = {attr_path(d.func) if isinstance(d, ast.Call) else attr_path(d) for d in fn.node.decorator_list}
        ps = [a.arg for a in list(fn.node.args.posonlyargs) + list(fn.node.args.args)]
        is_cm = "classmethod" in decs
        me = ps[0] if ps and "staticmethod" not in decs else None
        defs = all_defs(fn)
        if me in defs:
            me = None                   # self is re-bound: do not guess
        rec = lambda x: self.expr(fn, x, quant, seen, depth + 1)
        if isinstance(e, ast.Name):
            if e.id == me:
                return not is_cm
            ds = defs.get(e.id)
            if not ds or any(d is None for d in ds):
                return False
            return quant([rec(d) for d in ds])
        if isinstance(e, ast.IfExp):
            return quant([rec(e.body), rec(e.orelse)])
        if not isinstance(e, ast.Call):
            return False
        f = e.func
        if _imported_name(fn, e) in _COPIES and e.args:
            return rec(e.args[0])
        if me is not None and not is_cm:
            if isinstance(f, ast.Call) and attr_path(f.func) == "type" and len(f.args) == 1 and attr_path(f.args[0]) == me:
                return True
            if attr_path(f) == me + ".__class__":
                return True
        if is_cm and me is not None and attr_path(f) == me:
            return True
        if isinstance(f, (ast.Name, ast.Attribute)):
            k = self.idx.resolve_expr_to_class(fn.module, f)
            if k is not None:
                return _is_sub(k, self.root)
        if isinstance(f, ast.Attribute) and me is not None and not is_cm and attr_path(f.value) == me and fn.cls is not None:
            g = fn.cls.lookup(f.attr)
            if g is not None and g.qual not in seen:
                return self.method(g, quant, seen | {g.qual})
        return False

    def method(self, fn, quant, seen=frozenset()):
        if any(isinstance(n, (ast.Yield, ast.YieldFrom)) for n in func_own_nodes(fn)):
            return False
        rets = [n.value for n in func_own_nodes(fn) if isinstance(n, ast.Return) and n.value is not None]
        return bool(rets) and quant([self.expr(fn, v, quant, seen | {fn.qual}) for v in rets])


def hashed_representation_closed(idx, cg, r, consequence):
    """The newest lease schema keeps two representations apart by type: a plain lease (cleartext secrets; the serializer
    hashes them on the way to the file) and the wrapper the serializer hands out for a stored record (secrets already
    hashed; written as they are).  A stored lease must never come back to the serializer in the plain type - its secrets
    would be hashed a second time and the record would stop answering to its secret.  Decided here:
      (a) serialize hashes only under a type test that no wrapper object can pass;
      (b) the wrapper class is not a subclass of the plain class;
      (c) every method the wrapper's proxyForInterface base would forward to the wrapped plain lease, that returns a
          lease object there and that some code calls, is overridden by the wrapper and returns wrapper objects only;
      (d) what the containers hand to _write_lease_record is a lease they were given, a stored lease as enumerated, a
          fresh plain lease not built from a stored one, or <lease>.m(..) with m closed as in (c) - never the wrapped
          object taken out of its wrapper.
    Sites: the hashing call, each lease-producing interface method, each derived lease written back."""
    hzq = "storage.lease_schema:HashedLeaseSerializer"
    hz = idx.cls(hzq)

    def made_class(fn):
        v = only_return(fn).value
        k = idx.resolve_expr_to_class(fn.module, v.func) if isinstance(v, ast.Call) and isinstance(v.func, (ast.Name, ast.Attribute)) else None
        if k is None:
            raise AnchorVanished("%s does not return a constructed lease wrapper" % short(fn))
        return k
    Ws = {}
    for nm in ("unserialize", "_hash_lease_info"):
        k = made_class(idx.func(hzq + "." + nm))
        Ws[k.qual] = k
    Ws = list(Ws.values())
    # the plain class: what the record readers given to the hashed serializer build
    Ks = {}
    for cs in real_sites(cg, hz.name):
        fd = arg(cs.call, 1, "from_data")
        t = idx.resolve_expr(cs.fn.module, fd) if fd is not None else None
        if not isinstance(t, FuncInfo) or t.cls is None:
            raise AnalysisError("cannot resolve the record reader given to %s at %s" % (hz.name, cs.loc))
        Ks[t.cls.qual] = t.cls
    if not Ks:
        raise AnchorVanished("no construction of %s found" % hz.name)
    Ks = list(Ks.values())
    wnames = "/".join(w.name for w in Ws)

    # (a) the serializer hashes only what provably is not hashed yet
    sz = idx.func(hzq + ".serialize")
    lp = first_positional_params(sz)[0]
    cfg = sz.cfg()
    fnm = FlowNorm(sz)
    hn = [n for n in cfg.nodes if calls_at(n, "_hash_lease_info")]
    if not hn:
        raise AnchorVanished("HashedLeaseSerializer.serialize no longer calls _hash_lease_info")
    others = [cs for cs in real_sites(cg, "_hash_lease_info") if cs.fn.qual != sz.qual]
    if others:
        raise AnalysisError("_hash_lease_info is also called from %s: cannot decide what it is given" % short(others[0].fn))

    def classes_of(e):
        out = [idx.resolve_expr_to_class(sz.module, x) for x in (e.elts if isinstance(e, ast.Tuple) else [e])]
        return None if any(k is None for k in out) else out

    def unhashed_edge(n, lab):
        if n.kind != "test" or not isinstance(lab, tuple):
            return False
        e, pol = n.ast, lab[0] == "T"
        while isinstance(e, ast.UnaryOp) and isinstance(e.op, ast.Not):
            e, pol = e.operand, not pol
        ks = None
        if isinstance(e, ast.Call) and attr_path(e.func) == "isinstance" and len(e.args) == 2 and attr_path(e.args[0]) == lp:
            ks = classes_of(e.args[1])
            exact = False
        elif isinstance(e, ast.Compare) and len(e.ops) == 1 and isinstance(e.ops[0], (ast.Is, ast.IsNot, ast.Eq, ast.NotEq)):
            sides = [e.left, e.comparators[0]]
            ty = [x for x in sides if isinstance(x, ast.Call) and attr_path(x.func) == "type" and len(x.args) == 1 and attr_path(x.args[0]) == lp]
            if len(ty) == 1:
                ks = classes_of([x for x in sides if x is not ty[0]][0])
                exact = True
                if isinstance(e.ops[0], (ast.IsNot, ast.NotEq)):
                    pol = not pol
        if not ks:
            return False
        if pol:       # the lease is one of ks: no wrapper object may be
            return not any((w.qual == k.qual) if exact else _is_sub(w, k) for w in Ws for k in ks)
        # the lease is none of ks, and every wrapper object is one of them
        return not exact and all(any(_is_sub(w, k) for k in ks) for w in Ws)
    for T in hn:
        c = calls_at(T, "_hash_lease_info")[0]
        r.site(sz, c, "hashing")
        r.require(len(c.args) == 1 and not c.keywords and attr_path(c.args[0]) == lp, sz, sz.loc(c),
                  "_hash_lease_info is given %s, not the lease whose type was tested" % src(sz, c))
        for (t, w) in find_path_avoiding(cfg, lambda x: x is T, gate_edge=unhashed_edge,
                                         kill=lambda n: lp in node_stores(n) and n is not T):
            r.violation(sz, sz.loc(c), "serialize can hash the secrets of a lease that is not known to be un-hashed: no type test that "
                        "excludes %s guards %s, so a stored (already hashed) lease is hashed again when it is written back; %s "
                        "(path: %s)" % (wnames, src(sz, c), consequence, w.brief()), w)
    r.count(len(cfg.nodes))

    # (b) the type test can tell the two representations apart
    for W in Ws:
        for K in Ks:
            r.require(not _is_sub(W, K), W.qual, _cls_loc(W), "%s is a subclass of %s: isinstance(lease, %s) holds for stored leases too, "
                      "serialize hashes their already-hashed secrets again; %s" % (W.name, K.name, K.name, consequence))

    # (c) lease-producing methods keep the wrapper
    closed, reported = set(), set()
    pattrs = set()
    for W in Ws:
        names, pattr = proxied_interface(idx, W)
        if names is None:
            continue          # nothing is forwarded: a missing method is an AttributeError, not a silent unwrapping
        pattrs.add(pattr)
        wrep = _Rep(idx, W)
        for K in Ks:
            krep = _Rep(idx, K)
            for m in sorted(names):
                f = K.lookup(m)
                if f is None or not krep.method(f, any):
                    continue
                users = [cs for cs in real_sites(cg, m) if cs.fn.cls is None or cs.fn.cls.qual not in (K.qual, W.qual)]
                if not users:
                    continue      # nobody asks a lease for it
                r.site(f, None, "lease-producing interface method, used by %s" % short(users[0].fn))
                g = W.lookup(m)
                if g is None:
                    reported.add(m)
                    r.violation(W.qual, _cls_loc(W), "%s does not override %s: proxyForInterface forwards it to the wrapped %s, which "
                                "returns a bare %s holding the already-hashed secrets; %s.serialize takes that for a cleartext lease and "
                                "hashes the secrets a second time when %s writes it back; %s"
                                % (W.name, m, short(f), K.name, hz.name, short(users[0].fn), consequence))
                elif not wrep.method(g, all):
                    reported.add(m)
                    r.violation(g, g.loc(), "%s can return something that is not a %s (%s): a lease produced from a stored one must stay "
                                "in the hashed wrapper, otherwise %s.serialize hashes its already-hashed secrets again; %s"
                                % (short(g), W.name, "; ".join(src(g, n) for n in func_own_nodes(g) if isinstance(n, ast.Return))[:160],
                                   hz.name, consequence))
                else:
                    closed.add(m)

    # (d) what is written back
    wreps = [_Rep(idx, W) for W in Ws]
    for (cq, kind) in CONTAINERS:
        ci = idx.cls(cq)
        n_w = 0
        for top in ci.methods.values():
            for fn in [top] + list(top.nested.values()):
                defs = all_defs(fn)
                opaque = {nm for nm, ds in defs.items() if any(d is None for d in ds)}
                seen_defs = set()

                def classify(e, depth=0):
                    if depth > 6:
                        raise AnalysisError("%s: cannot follow the lease written back" % short(fn))
                    if isinstance(e, ast.Name):
                        ds = defs.get(e.id)
                        if not ds:
                            if e.id not in fn.params:
                                raise AnalysisError("%s: cannot tell where the written lease %s comes from" % (short(fn), e.id))
                            return
                        for d in ds:
                            if d is not None and id(d) not in seen_defs:
                                seen_defs.add(id(d))
                                classify(d, depth + 1)
                        return
                    if isinstance(e, ast.Attribute) and e.attr in pattrs and attr_path(e.value) != "self":
                        r.violation(fn, fn.loc(e), "%s writes back %s, the plain lease taken out of its hashed wrapper: the v2 serializer "
                                    "hashes its already-hashed secrets again; %s" % (short(fn), src(fn, e), consequence))
                        return
                    if isinstance(e, ast.Call):
                        f = e.func
                        if any(isinstance(x, ast.Attribute) and x.attr in pattrs and attr_path(x.value) != "self" for x in ast.walk(e)):
                            r.violation(fn, fn.loc(e), "%s writes back %s, built from the plain lease inside the hashed wrapper: the v2 "
                                        "serializer hashes its already-hashed secrets again; %s" % (short(fn), src(fn, e), consequence))
                            return
                        if _imported_name(fn, e) in _COPIES and e.args:
                            return classify(e.args[0], depth + 1)
                        k = idx.resolve_expr_to_class(fn.module, f) if isinstance(f, (ast.Name, ast.Attribute)) else None
                        if k is not None and any(_is_sub(k, K) for K in Ks):
                            used = {x.id for a in list(e.args) + [kw.value for kw in e.keywords] for x in ast.walk(a) if isinstance(x, ast.Name)}
                            if used & opaque:
                                r.violation(fn, fn.loc(e), "%s writes back a new %s built from the stored lease (%s): on a v2 container its "
                                            "secrets are already hashed and the serializer hashes them again; %s"
                                            % (short(fn), k.name, ", ".join(sorted(used & opaque)), consequence))
                            return
                        if isinstance(f, ast.Attribute) and isinstance(f.value, ast.Name) and f.value.id != "self":
                            classify(f.value, depth + 1)
                            if f.attr in closed:
                                r.site(fn, e, "derived lease written back")
                            elif f.attr not in reported:
                                g = [W.lookup(f.attr) for W in Ws]
                                if not all(g_ is not None and wr.method(g_, all) for (g_, wr) in zip(g, wreps)):
                                    r.violation(fn, fn.loc(e), "%s writes back %s, but %s does not keep the result of %s in the hashed "
                                                "wrapper; %s" % (short(fn), src(fn, e), wnames, f.attr, consequence))
                            return
                    raise AnalysisError("%s: cannot classify the lease written back (%s)" % (short(fn), src(fn, e)))
                for c in calls_in_func(fn, "_write_lease_record"):
                    if attr_path(c.func) != "self._write_lease_record" or len(c.args) != 3 or c.keywords:
                        raise AnalysisError("%s: unexpected _write_lease_record call %s" % (short(fn), src(fn, c)))
                    n_w += 1
                    classify(c.args[2])
        if n_w < 3:
            raise AnchorVanished("%s: lease record writes not found (%d)" % (cq, n_w))


def run(ctx: Context):
    idx = ctx.idx
    cg = get_callgraph(idx)
    fo = get_folder(idx)
    import struct as _struct

    # -- 1. renew, else add ----------------------------------------------------------
    with ctx.rule("C25.1", "R1/R2/R4", "add_or_renew_lease: add_lease only in the IndexError handler of the renew attempt, "
                  "which always adds; nobody else adds leases to existing containers", expected=7) as r:
        for (cq, kind) in CONTAINERS:
            fn = idx.func(cq + ".add_or_renew_lease")
            li = first_positional_params(fn)[-1]
            cfg = fn.cfg()
            fnm = FlowNorm(fn)
            rn = [n for n in cfg.nodes if self_calls(n, "renew_lease")]
            an = [n for n in cfg.nodes if self_calls(n, "add_lease")]
            if len(rn) != 1 or not an:
                raise AnchorVanished("%s: renew_lease / add_lease calls not found" % short(fn))
            R = rn[0]
            rc = self_calls(R, "renew_lease")[0]
            r.site(fn, rc, "renew attempt")
            got = [fnm.norm(R, a) for a in rc.args] + ["%s=%s" % (k.arg, fnm.norm(R, k.value)) for k in rc.keywords]
            r.require(got == ["%s.renew_secret" % li, "%s.get_expiration_time()" % li], fn, fn.loc(rc),
                      "renew attempt is renew_lease(%s), not (lease_info.renew_secret, lease_info.get_expiration_time())" % ", ".join(got))
            hs = [cfg.nodes[d] for (d, l) in cfg.succ[R.id] if l == "exc" and cfg.nodes[d].kind == "except"
                  and "IndexError" in exc_names(cfg.nodes[d])]
            r.require(bool(hs), fn, fn.loc(rc), "the renew attempt is not inside a try with an IndexError handler")
            for h in hs:
                r.require(exc_names(h) == ["IndexError"], fn, fn.loc(h.ast), "handler also catches %s: other failures of renew_lease "
                          "would add a duplicate lease" % [x for x in exc_names(h) if x != "IndexError"])
                guarded = [m for m in cfg.nodes if any(d == h.id and l == "exc" for (d, l) in cfg.succ[m.id])]
                r.require(all(m is R for m in guarded), fn, fn.loc(h.ast), "the try around the renew attempt contains other statements")
            for A in an:
                ac = self_calls(A, "add_lease")[0]
                r.site(fn, ac, "add")
                r.require(ac.args and attr_path(ac.args[-1]) == li, fn, fn.loc(ac), "add_lease is given %s, not the lease_info "
                          "whose secret was tried" % src(fn, ac))
                for (t, w) in find_path_avoiding(cfg, lambda x: x is A, gate_node=lambda m: m in hs):
                    r.violation(fn, fn.loc(ac), "add_lease is reachable without a failed renew attempt: a lease whose renew secret "
                                "already exists would be duplicated (path: %s)" % w.brief(), w)
            for h in hs:
                for (s_, w) in find_path_from_to_avoiding(cfg, lambda x: x is h, gate_node=lambda m: m in an):
                    r.violation(fn, fn.loc(h.ast), "an unknown renew secret can end add_or_renew_lease normally without adding "
                                "the lease (path: %s)" % w.brief(), w)
            r.count(len(cfg.nodes))
        # who may call container-level add_lease
        allowed = {"allmydata." + SF + ".add_or_renew_lease", "allmydata." + MSF + ".add_or_renew_lease",
                   "allmydata.storage.immutable:BucketWriter.__init__"}
        total = 0
        for cs in real_sites(cg, "add_lease"):
            if not cs.fn.module.name.startswith("allmydata.storage."):
                continue
            recv = attr_path(cs.call.func.value) if isinstance(cs.call.func, ast.Attribute) else ""
            if recv and recv.split(".")[-1] in ("_server", "_storage_server", "ss", "server"):
                continue      # StorageServer.add_lease(storage_index, ..): goes through _add_or_renew_leases
            total += 1
            if cs.fn.qual not in allowed:
                r.violation(cs.fn, cs.loc, "%s calls add_lease directly: an existing lease with the same renew secret would be "
                            "duplicated" % short(cs.fn))
        r.site("container-level add_lease callers: %d" % total)
        if total < 3:
            raise AnalysisError("add_lease call sites not found (%d)" % total)
        # a fresh immutable share gets its first lease in BucketWriter.__init__ on a file it just created
        bw = idx.func("storage.immutable:BucketWriter.__init__")
        ok = any(isinstance(n, ast.Assign) and isinstance(n.value, ast.Call) and call_tail(n.value) == "ShareFile"
                 and isinstance(kwarg(n.value, "create"), ast.Constant) and kwarg(n.value, "create").value is True
                 for n in func_own_nodes(bw))
        r.require(ok, bw, bw.loc(), "BucketWriter.__init__ adds a lease to a share it did not just create")
        # the server puts leases on shares only through add_or_renew_lease
        sv = idx.func("storage.server:StorageServer._add_or_renew_leases")
        r.site(sv, None)
        cs_ = calls_in_func(sv, "add_or_renew_lease")
        r.require(len(cs_) == 1 and len(cs_[0].args) == 2 and attr_path(cs_[0].args[1]) == first_positional_params(sv)[1],
                  sv, sv.loc(), "_add_or_renew_leases does not call share.add_or_renew_lease(space, lease_info)")

        # the server builds leases with the secrets in the order LeaseInfo stores them
        lic = idx.cls("storage.lease:LeaseInfo")
        fields = [a.lstrip("_") for a in lic.attrs if isinstance(lic.attrs[a][-1], ast.Call) and call_name(lic.attrs[a][-1]) == "attr.ib"]
        n_li = 0
        for cs in real_sites(cg, "LeaseInfo"):
            if cs.fn.module.name != "allmydata.storage.server" or cs.fn.name == "<module>":
                continue
            n_li += 1
            a = cs.call.args
            ok = len(a) == len(fields) == 5 and not cs.call.keywords and all(
                isinstance(a[i], ast.Name) and a[i].id == fields[i] and a[i].id in cs.fn.params for i in (1, 2))
            r.require(ok, cs.fn, cs.loc, "%s builds LeaseInfo(%s): the renew and cancel secrets do not go into the fields of the same "
                      "name" % (short(cs.fn), ", ".join(src(cs.fn, x) for x in a)))
        r.site("LeaseInfo constructions in storage.server: %d" % n_li)
        if n_li < 3:
            raise AnalysisError("LeaseInfo constructions in storage.server not found (%d)" % n_li)
        st_ = idx.func("storage.server:StorageServer.slot_testv_and_readv_and_writev")
        sfn = FlowNorm(st_)
        sec = first_positional_params(st_)[1]
        for n in st_.cfg().nodes:
            for c in calls_at(n, "_make_lease_info"):
                r.require([sfn.norm(n, x) for x in c.args] == ["%s[1]" % sec, "%s[2]" % sec], st_, st_.loc(c),
                          "the slot's lease is built from %s, not (secrets[1], secrets[2]) = (renew, cancel)" % src(st_, c))
        mk = idx.func("storage.server:StorageServer._make_lease_info")
        r.require(first_positional_params(mk)[:2] == ["renew_secret", "cancel_secret"], mk, mk.loc(), "_make_lease_info parameter order changed")

    # -- 2. renew never shortens ------------------------------------------------------
    with ctx.rule("C25.2", "R1/R3/R4", "renew_lease: record write only for the matching lease and only under allow_backdate or a "
                  "later expiry; unknown secret raises IndexError; nobody passes allow_backdate", expected=4) as r:
        for (cq, kind) in CONTAINERS:
            fn = idx.func(cq + ".renew_lease")
            ps = first_positional_params(fn)
            if len(ps) < 3:
                raise AnchorVanished("%s signature changed: %s" % (short(fn), ps))
            sec, new, abd = ps[0], ps[1], ps[2]
            dfl = fn.node.args.defaults
            r.require(len(dfl) == 1 and isinstance(dfl[0], ast.Constant) and dfl[0].value is False, fn, fn.loc(),
                      "allow_backdate does not default to False")
            cfg = fn.cfg()
            fnm = FlowNorm(fn)
            heads = [n for n in cfg.nodes if n.kind == "iter" and isinstance(n.ast.target, ast.Tuple) and len(n.ast.target.elts) == 2]
            if len(heads) != 1:
                raise AnchorVanished("%s: lease enumeration loop not found" % short(fn))
            head = heads[0]
            iv, lv = [attr_path(e) for e in head.ast.target.elts]
            it = fnm.norm(head, head.ast.iter)
            r.require(it in ("enumerate(self.get_leases())", "self._enumerate_leases(f)") or re.match(r"^self\._enumerate_leases\(\w+\)$", it) is not None,
                      fn, fn.loc(head.ast), "renew_lease iterates %s, not all leases of the container" % it)
            wn = [n for n in cfg.nodes if self_calls(n, "_write_lease_record")]
            if not wn:
                raise AnchorVanished("%s: no _write_lease_record call" % short(fn))
            match = ("truth", "%s.is_renew_secret(%s)" % (lv, sec), None)
            later = {("<", "%s.get_expiration_time()" % lv, new), ("<=", "%s.get_expiration_time()" % lv, new),
                     ("truth", abd, None)}
            newiter = lambda m: m is head
            for W in wn:
                wc = self_calls(W, "_write_lease_record")[0]
                r.site(fn, wc, "record write")
                for (t, w) in find_path_avoiding(cfg, lambda x: x is W, gate_edge=lambda m, lab: fnm.edge_fact(m, lab) == match, kill=newiter):
                    r.violation(fn, fn.loc(wc), "a lease record is written although its renew secret was not matched (path: %s)" % w.brief(), w)
                for (t, w) in find_path_avoiding(cfg, lambda x: x is W, gate_edge=lambda m, lab: fnm.edge_fact(m, lab) in later, kill=newiter):
                    r.violation(fn, fn.loc(wc), "a lease can be re-written with an earlier expiration time: neither allow_backdate nor "
                                "new_expire_time > lease.get_expiration_time() guards the write (path: %s)" % w.brief(), w)
                ok = len(wc.args) == 3 and attr_path(wc.args[1]) == iv
                r.require(ok, fn, fn.loc(wc), "the record is written to slot %s, not the matched lease's own slot" % src(fn, wc.args[1] if len(wc.args) > 1 else wc))
                if len(wc.args) == 3:
                    dn, v = def_of(fnm, W, wc.args[2])
                    okv = isinstance(v, ast.Call) and call_name(v) == lv + ".renew" and len(v.args) == 1 and attr_path(v.args[0]) == new \
                        and dn is not None and fnm.rd.get(dn.id, {}).get(lv) == frozenset([head.id])
                    r.require(okv, fn, fn.loc(wc), "the record written is %s, not lease.renew(new_expire_time) of the matched lease" % src(fn, v if v is not None else wc.args[2]))
            # normal return only after a match; IndexError otherwise
            mset = {(m.id, lab[0]) for m in cfg.nodes for (_d, lab) in cfg.succ[m.id] if isinstance(lab, tuple) and fnm.edge_fact(m, lab) == match}
            mvis, mpar = match_flow(cfg, mset)
            for (nid, st) in sorted(mvis, key=lambda x: (x[0], str(x[1]))):
                if cfg.nodes[nid].kind == "exit" and not st[0]:
                    w = witness(cfg, mpar, (nid, st))
                    r.violation(fn, fn.loc(), "renew_lease can return normally although no lease matched the renew secret (path: %s)" % w.brief(), w)
                    break
            r.require(bool(cfg.find(raises("IndexError"))), fn, fn.loc(), "renew_lease no longer raises IndexError for an unknown secret")
            # a matched lease with a later expiry IS renewed: only 'new <= current' may skip the write
            notlater = {("<=", new, "%s.get_expiration_time()" % lv), ("<", new, "%s.get_expiration_time()" % lv)}
            evis, epar = match_flow(cfg, (), gate=lambda m, lab: m in wn or fnm.edge_fact(m, lab) in notlater)
            for (nid, st) in sorted(evis, key=lambda x: (x[0], str(x[1]))):
                if cfg.nodes[nid].kind == "exit" and not st[0]:
                    w = witness(cfg, epar, (nid, st))
                    r.violation(fn, fn.loc(), "renew_lease can return without extending a matched lease whose new expiration time is "
                                "later (path: %s)" % w.brief(), w)
                    break
            r.count(len(cfg.nodes) * 3)
        # nobody passes allow_backdate
        n_calls = 0
        for cs in real_sites(cg, "renew_lease"):
            n_calls += 1
            kw = kwarg(cs.call, "allow_backdate")
            bad = (kw is not None and not (isinstance(kw, ast.Constant) and kw.value is False)) \
                or any(k.arg is None for k in cs.call.keywords) \
                or (len(cs.call.args) >= 3 and not (isinstance(cs.call.args[2], ast.Constant) and cs.call.args[2].value is False)) \
                or any(isinstance(a, ast.Starred) for a in cs.call.args)
            if bad:
                r.violation(cs.fn, cs.loc, "%s calls renew_lease with allow_backdate: a renewal may shorten a lease" % short(cs.fn))
        r.site("renew_lease call sites swept: %d" % n_calls)
        if n_calls < 4:
            raise AnalysisError("renew_lease call sites not found (%d)" % n_calls)
        sr = idx.func("storage.server:StorageServer.renew_lease")
        r.site(sr, None)
        scfg = sr.cfg()
        renews = has_call("renew_lease")

        def tr(n, lab, nxt, st):
            held, flags = st
            if lab == "exc":
                return None
            if n.kind == "test" and isinstance(n.ast, ast.Name) and isinstance(lab, tuple):
                known = dict(flags).get(n.ast.id)
                if known is not None and known != (lab[0] == "T"):
                    return None          # boolean flag with a known value: infeasible branch
            if n.kind == "stmt" and isinstance(n.ast, ast.Assign) and len(n.ast.targets) == 1 and isinstance(n.ast.targets[0], ast.Name):
                v = n.ast.value
                flags = dict(flags)
                if isinstance(v, ast.Constant) and isinstance(v.value, bool):
                    flags[n.ast.targets[0].id] = v.value
                else:
                    flags.pop(n.ast.targets[0].id, None)
                flags = tuple(sorted(flags.items()))
            if renews(n):
                held = True
            return (held, flags)
        vis, par = explore(scfg, (False, ()), tr)
        for (nid, st) in sorted(vis, key=lambda x: (x[0], str(x[1]))):
            if scfg.nodes[nid].kind == "exit" and not st[0]:
                w = witness(scfg, par, (nid, st))
                r.violation(sr, sr.loc(), "StorageServer.renew_lease can return normally without having renewed anything "
                            "(no share for the storage index must raise IndexError) (path: %s)" % w.brief(), w)
                break
        # ... and a renewal that went through is not reported as a failure afterwards
        for (nid, st) in sorted(vis, key=lambda x: (x[0], str(x[1]))):
            m = scfg.nodes[nid]
            if m.kind == "stmt" and isinstance(m.ast, ast.Raise) and st[0]:
                w = witness(scfg, par, (nid, st))
                r.violation(sr, sr.loc(m.ast), "StorageServer.renew_lease raises (%s) after every share's lease was renewed: a renewal with a "
                            "known secret is reported as an error (path: %s)" % (src(sr, m.ast), w.brief()), w)
                break
        for c in calls_in_func(sr, "renew_lease"):
            r.require(len(c.args) == 2 and attr_path(c.args[0]) == first_positional_params(sr)[1], sr, sr.loc(c),
                      "StorageServer.renew_lease passes %s" % src(sr, c))

    # -- 3. hashed secrets on the newest schema -------------------------------------------
    with ctx.rule("C25.3", "R5/R1/R4", "newest container schemas serialise leases with HashedLeaseSerializer; no cleartext "
                  "LeaseInfo reaches _to_data; containers default to the newest schema and nobody overrides it", expected=13) as r:
        ls = idx.module("allmydata.storage.lease_schema")
        for (modname, cq, kind) in (("allmydata.storage.immutable_schema", SF, "immutable"),
                                    ("allmydata.storage.mutable_schema", MSF, "mutable")):
            m = idx.module(modname)
            alls = m.assigns.get("ALL_SCHEMAS")
            newest = m.assigns.get("NEWEST_SCHEMA_VERSION")
            if not alls or not newest or not isinstance(alls[-1], ast.Set):
                raise AnchorVanished("%s: ALL_SCHEMAS / NEWEST_SCHEMA_VERSION" % modname)
            nv = newest[-1]
            okmax = isinstance(nv, ast.Call) and call_name(nv) == "max" and len(nv.args) == 1 and attr_path(nv.args[0]) == "ALL_SCHEMAS" \
                and isinstance(kwarg(nv, "key"), ast.Lambda) and isinstance(kwarg(nv, "key").body, ast.Attribute) \
                and kwarg(nv, "key").body.attr == "version" and attr_path(kwarg(nv, "key").body.value) == kwarg(nv, "key").args.args[0].arg
            where = "%s:%d" % (m.relpath, nv.lineno)
            r.site("%s.NEWEST_SCHEMA_VERSION" % modname)
            r.require(okmax, modname + ":NEWEST_SCHEMA_VERSION", where, "NEWEST_SCHEMA_VERSION is not max(ALL_SCHEMAS, key=version)")
            cands = []
            for e in alls[-1].elts:
                if isinstance(e, ast.Call):
                    v, s_ = kwarg(e, "version"), kwarg(e, "lease_serializer")
                    if v is None and e.args:
                        v = e.args[0]
                    if s_ is None and len(e.args) > 1:
                        s_ = e.args[1]
                    vv = _fold(fo, v, m) if v is not None else None
                    if isinstance(vv, int) and isinstance(s_, ast.Name):
                        cands.append((vv, s_.id, e))
            if len(cands) != len(alls[-1].elts) or not cands:
                raise AnalysisError("%s.ALL_SCHEMAS is not a set of schema constructions with constant versions" % modname)
            ver, sername, e = max(cands, key=lambda x: x[0])
            tgt = m.imports.get(sername, "")
            sdef = ls.assigns.get(sername) if tgt == "allmydata.storage.lease_schema." + sername else None
            if not sdef:
                raise AnchorVanished("%s: serializer %s is not defined in lease_schema" % (modname, sername))
            sc = sdef[-1]
            r.site("%s newest schema v%d -> lease_schema.%s" % (modname, ver, sername))
            okser = isinstance(sc, ast.Call) and call_name(sc) == "HashedLeaseSerializer" and len(sc.args) == 2 \
                and attr_path(sc.args[0]) == "HashedLeaseInfo.to_%s_data" % kind and attr_path(sc.args[1]) == "LeaseInfo.from_%s_data" % kind
            r.require(okser, "allmydata.storage.lease_schema:" + sername, "%s:%d" % (ls.relpath, sc.lineno),
                      "newest %s schema (v%d) serialises leases with %s, not HashedLeaseSerializer(HashedLeaseInfo.to_%s_data, "
                      "LeaseInfo.from_%s_data): secrets would be stored in cleartext" % (kind, ver, src(None, sc), kind, kind))
            # container constructor default + storing
            init = idx.func(cq + ".__init__")
            a = init.node.args
            names = [x.arg for x in a.args]
            r.site(init, None, "schema default")
            dmap = dict(zip(names[len(names) - len(a.defaults):], a.defaults))
            d = dmap.get("schema")
            okd = isinstance(d, ast.Name) and d.id == "NEWEST_SCHEMA_VERSION" \
                and init.module.imports.get("NEWEST_SCHEMA_VERSION") == modname + ".NEWEST_SCHEMA_VERSION"
            r.require(okd, init, init.loc(), "%s(schema=...) does not default to %s.NEWEST_SCHEMA_VERSION" % (short(init), modname))
            for (f_, nd) in cg.attr_stores("_schema"):
                if f_.cls is not None and f_.cls.qual == "allmydata." + cq and f_.name != "__init__":
                    r.violation(f_, f_.loc(nd), "%s re-binds the container schema" % short(f_))
            # the lease record writer
            wl = idx.func(cq + "._write_lease_record")
            wps = first_positional_params(wl)
            writes = [c for c in calls_in_func(wl) if call_tail(c) in ("write", "writelines") and isinstance(c.func, ast.Attribute)
                      and attr_path(c.func.value) == wps[0]]
            if not writes:
                raise AnchorVanished("%s: no file write" % short(wl))
            for c in writes:
                r.site(wl, c, "record bytes")
                okw = len(c.args) == 1 and norm(c.args[0], wl) == "self._schema.lease_serializer.serialize(%s)" % wps[2]
                r.require(okw, wl, wl.loc(c), "lease record bytes are %s, not self._schema.lease_serializer.serialize(lease_info): "
                          "secrets bypass the schema's hashing" % src(wl, c.args[0] if c.args else c))
        # nobody overrides the schema
        n_ctor = 0
        for tail, pos in (("ShareFile", 4), ("MutableShareFile", 2), ("create_mutable_sharefile", 99)):
            for cs in real_sites(cg, tail):
                n_ctor += 1
                if kwarg(cs.call, "schema") is not None or len(cs.call.args) > pos or any(k.arg is None for k in cs.call.keywords):
                    r.violation(cs.fn, cs.loc, "%s constructs %s with an explicit schema: a new container could be created with "
                                "cleartext lease secrets" % (short(cs.fn), tail))
        r.site("container constructions swept: %d" % n_ctor)
        if n_ctor < 10:
            raise AnalysisError("container construction sites not found (%d)" % n_ctor)
        cm = idx.func("storage.mutable:create_mutable_sharefile")
        r.require("schema" not in cm.params, cm, cm.loc(), "create_mutable_sharefile grew a schema parameter")
        # serialize: no cleartext LeaseInfo reaches _to_data
        hz = "storage.lease_schema:HashedLeaseSerializer"
        sz = idx.func(hz + ".serialize")
        lp = first_positional_params(sz)[0]
        cfg = sz.cfg()
        fnm = FlowNorm(sz)
        tn = [n for n in cfg.nodes if calls_at(n, "_to_data")]
        if not tn:
            raise AnchorVanished("HashedLeaseSerializer.serialize no longer calls _to_data")

        def hashed(n):
            v = assign_value(n, lp)
            return isinstance(v, ast.Call) and call_tail(v) == "_hash_lease_info" and len(v.args) == 1 and attr_path(v.args[0]) == lp
        # (a lease that passed isinstance(lease, HashedLeaseInfo) is not a cleartext lease either - as long as the name is
        # not re-bound to a wrapper this function made itself without hashing)
        rebound = any(lp in node_stores(n) and not hashed(n) for n in cfg.nodes)
        notclear = lambda n, lab: fnm.edge_fact(n, lab) == ("false", "isinstance(%s, LeaseInfo)" % lp, None) or (
            not rebound and fnm.edge_fact(n, lab) == ("truth", "isinstance(%s, HashedLeaseInfo)" % lp, None))
        for T in tn:
            c = calls_at(T, "_to_data")[0]
            r.site(sz, c, "serialize")
            r.require(len(c.args) == 1 and attr_path(c.args[0]) == lp, sz, sz.loc(c), "_to_data is given %s" % src(sz, c))
            for (t, w) in find_path_avoiding(cfg, lambda x: x is T, gate_node=hashed, gate_edge=notclear,
                                             kill=lambda n: lp in node_stores(n) and not hashed(n)):
                r.violation(sz, sz.loc(c), "a LeaseInfo with cleartext secrets can reach _to_data without _hash_lease_info "
                            "(path: %s)" % w.brief(), w)
        r.count(len(cfg.nodes))
        # _hash_lease_info hashes both secrets and hands the same hash function on
        hl = idx.func(hz + "._hash_lease_info")
        r.site(hl, None)
        hp = first_positional_params(hl)[0]
        rv = only_return(hl).value
        ok = isinstance(rv, ast.Call) and call_name(rv) == "HashedLeaseInfo" and len(rv.args) == 2
        hfun = norm_plain(rv.args[1]) if ok else None
        inner = rv.args[0] if ok else None
        ok = ok and isinstance(inner, ast.Call) and call_name(inner) == "attr.assoc" and len(inner.args) == 1 and attr_path(inner.args[0]) == hp
        if ok:
            kws = {k.arg: norm_plain(k.value) for k in inner.keywords}
            ok = kws == {"renew_secret": "%s(%s.renew_secret)" % (hfun, hp), "cancel_secret": "%s(%s.cancel_secret)" % (hfun, hp)} \
                and hfun in ("cls._hash_secret", "self._hash_secret")
        r.require(ok, hl, hl.loc(), "_hash_lease_info does not return HashedLeaseInfo(attr.assoc(lease_info, renew_secret=H(renew_secret), "
                  "cancel_secret=H(cancel_secret)), H) with H = _hash_secret")
        hs = idx.func(hz + "._hash_secret")
        r.site(hs, None)
        srv_ = only_return(hs).value
        sp = first_positional_params(hs)[0]
        r.require(isinstance(srv_, ast.Call) and call_tail(srv_) == "blake2b" and srv_.args and attr_path(srv_.args[0]) == sp
                  and hs.module.imports.get("blake2b") == "nacl.hash.blake2b", hs, hs.loc(), "_hash_secret is not blake2b(secret, ..)")
        uz = idx.func(hz + ".unserialize")
        r.site(uz, None)
        urv = only_return(uz).value
        up = first_positional_params(uz)[0]
        oku = isinstance(urv, ast.Call) and call_name(urv) == "HashedLeaseInfo" and len(urv.args) == 2 \
            and norm_plain(urv.args[0]) == "self._from_data(%s)" % up and norm_plain(urv.args[1]) in ("self._hash_secret", "cls._hash_secret")
        r.require(oku, uz, uz.loc(), "unserialize does not wrap the record as HashedLeaseInfo(self._from_data(data), self._hash_secret)")
        # no bypass of the serializers
        for nm in ("to_mutable_data", "to_immutable_data"):
            for cs in real_sites(cg, nm):
                if cs.fn.name != "<module>":
                    r.violation(cs.fn, cs.loc, "%s calls %s directly: lease bytes bypass the schema's serializer" % (short(cs.fn), nm))
            for (f_, nd) in cg.refs_named(nm):
                if f_.name == "<module>" and f_.module.name == "allmydata.storage.lease_schema":
                    continue      # the serializer table itself
                if isinstance(nd, ast.Attribute):
                    r.violation(f_, f_.loc(nd), "%s takes %s as a value outside lease_schema" % (short(f_), nm))

    # -- 4. struct agreement ------------------------------------------------------------
    with ctx.rule("C25.4", "R5", "lease struct formats agree with pack argument order, unpack name lists, LeaseInfo attributes "
                  "and the containers' LEASE_SIZE; the secret hash fills the secret field exactly", expected=9) as r:
        lm = idx.module("allmydata.storage.lease")
        li = idx.cls("storage.lease:LeaseInfo")
        attrs = [a.lstrip("_") for a in li.attrs if isinstance(li.attrs[a][-1], ast.Call) and call_name(li.attrs[a][-1]) == "attr.ib"]
        if len(attrs) < 5:
            raise AnchorVanished("LeaseInfo attr.ib fields not found: %s" % attrs)
        secret_widths = set()
        for (kind, const, cq) in (("immutable", "IMMUTABLE_FORMAT", SF), ("mutable", "MUTABLE_FORMAT", MSF)):
            fmt = fo.module_const("storage.lease", const)
            fields = struct_fields(fmt) if isinstance(fmt, str) else []
            where = "%s:%d" % (lm.relpath, lm.assigns[const][-1].lineno)
            r.site("lease.%s = %r" % (const, fmt))
            r.require(isinstance(fmt, str) and fmt[:1] == ">", "allmydata.storage.lease:" + const, where,
                      "%s is not a big-endian standard-size format" % const)
            # writer
            to = idx.func("storage.lease:LeaseInfo.to_%s_data" % kind)
            pk = [c for c in calls_in_func(to, "pack") if call_name(c) == "struct.pack"]
            if len(pk) != 1:
                raise AnchorVanished("%s: struct.pack not found" % short(to))
            r.site(to, pk[0], "pack")
            r.require(attr_path(pk[0].args[0]) == const, to, to.loc(pk[0]), "%s packs with %s, not %s" % (short(to), src(to, pk[0].args[0]), const))
            wnames = []
            for a in pk[0].args[1:]:
                if isinstance(a, ast.Call) and call_name(a) == "int" and len(a.args) == 1:
                    a = a.args[0]
                p_ = attr_path(a) or "?"
                wnames.append(p_.split(".", 1)[1].lstrip("_") if p_.startswith("self.") else "?")
            # reader
            frm = idx.func("storage.lease:LeaseInfo.from_%s_data" % kind)
            un = [c for c in calls_in_func(frm, "unpack") if call_name(c) == "struct.unpack"]
            lists = [n.value for n in func_own_nodes(frm) if isinstance(n, ast.Assign) and isinstance(n.value, ast.List)
                     and all(isinstance(e, ast.Constant) and isinstance(e.value, str) for e in n.value.elts)]
            if len(un) != 1 or len(lists) != 1:
                raise AnchorVanished("%s: struct.unpack / names list not found" % short(frm))
            r.site(frm, un[0], "unpack")
            r.require(attr_path(un[0].args[0]) == const and len(un[0].args) == 2 and attr_path(un[0].args[1]) == first_positional_params(frm)[0],
                      frm, frm.loc(un[0]), "%s unpacks %s" % (short(frm), src(frm, un[0])))
            rnames = [e.value for e in lists[0].elts]
            r.require(len(fields) == len(wnames) == len(rnames), to, to.loc(pk[0]), "%s has %d fields, %d values are packed, %d names "
                      "are unpacked" % (const, len(fields), len(wnames), len(rnames)))
            r.require(wnames == rnames, to, to.loc(pk[0]), "field order differs: packed %s, unpacked as %s" % (wnames, rnames))
            r.require(set(rnames) <= set(attrs), frm, frm.loc(lists[0]), "unpacked names %s are not LeaseInfo attributes %s" % (rnames, attrs))
            if len(fields) == len(rnames):
                for nm, fl in zip(rnames, fields):
                    want = {"renew_secret": ("s", 32), "cancel_secret": ("s", 32), "nodeid": ("s", 20)}.get(nm, ("L", 1))
                    r.require(fl == want, "allmydata.storage.lease:" + const, where, "field %s is %r in %s, expected %r" % (nm, fl, const, want))
                    if nm in ("renew_secret", "cancel_secret"):
                        secret_widths.add(fl)
            # sizes
            ci = idx.cls(cq)
            try:
                lsz = fo.class_attr(ci, "LEASE_SIZE")
            except NotConstant as ex:
                raise AnalysisError("cannot fold %s.LEASE_SIZE: %s" % (cq, ex))
            r.site("%s.LEASE_SIZE = %r" % (cq, lsz))
            r.require(isinstance(fmt, str) and lsz == _struct.calcsize(fmt), ci.qual, "%s:%d" % (ci.module.relpath, ci.node.lineno),
                      "%s.LEASE_SIZE=%r but calcsize(%s)=%r: lease records would overlap or leave gaps" % (
                          ci.name, lsz, const, _struct.calcsize(fmt) if isinstance(fmt, str) else None))
            szf = idx.func("storage.lease:LeaseInfo.%s_size" % kind)
            sv_ = only_return(szf).value
            r.require(isinstance(sv_, ast.Call) and call_name(sv_) == "struct.calcsize" and attr_path(sv_.args[0]) == const, szf, szf.loc(),
                      "%s does not return calcsize(%s)" % (short(szf), const))
        # the stored hash fills the secret field exactly: struct.pack truncates / zero-pads a value of another length
        # without complaint, and the re-hashed candidate would then never equal the stored bytes
        hsf = idx.func("storage.lease_schema:HashedLeaseSerializer._hash_secret")
        r.site(hsf, None, "digest size")
        hv = only_return(hsf).value
        if not (isinstance(hv, ast.Call) and call_tail(hv) == "blake2b"):
            raise AnchorVanished("HashedLeaseSerializer._hash_secret: blake2b call not found")
        dsz = arg(hv, 1, "digest_size")
        dszv = _fold(fo, dsz, hsf.module, hsf.cls) if dsz is not None else None
        r.require(isinstance(dszv, int) and not isinstance(dszv, bool) and secret_widths == {("s", dszv)}, hsf, hsf.loc(hv),
                  "_hash_secret produces a %s-byte digest but the lease formats store secrets as %s: struct.pack cuts or pads the hash "
                  "silently and is_renew_secret(re-hashed candidate) never matches the stored bytes, so every add duplicates the lease"
                  % (dszv if dsz is not None else "default-size", sorted(secret_widths)))
        enc = arg(hv, 5, "encoder")
        encp = attr_path(enc) if enc is not None else None
        if encp is not None:
            head_, _, rest_ = encp.partition(".")
            full = hsf.module.imports.get(head_, head_) + ("." + rest_ if rest_ else "")
        okenc = encp is not None and full == "nacl.encoding.RawEncoder"
        r.require(okenc, hsf, hsf.loc(hv), "_hash_secret encodes the digest with %s, not nacl.encoding.RawEncoder: the encoded hash is "
                  "longer than the secret field and is cut by struct.pack" % (encp or "the default HexEncoder"))
        # the record reader of each container reads LEASE_SIZE bytes and hands them to the schema's unserialize
        for (cq, rd) in ((SF, "get_leases"), (MSF, "_read_lease_record")):
            g = idx.func(cq + "." + rd)
            us = calls_in_func(g, "unserialize")
            ok = len(us) == 1 and call_name(us[0]) == "self._schema.lease_serializer.unserialize" and len(us[0].args) == 1
            if ok:
                v = N(g).norm(us[0].args[0])
                ok = re.match(r"^\w+\.read\(self\.LEASE_SIZE\)$", v) is not None or isinstance(us[0].args[0], ast.Name)
                if isinstance(us[0].args[0], ast.Name):
                    dfs = [n.value for n in func_own_nodes(g) if isinstance(n, ast.Assign) and any(attr_path(t) == us[0].args[0].id for t in n.targets)]
                    ok = len(dfs) == 1 and re.match(r"^\w+\.read\(self\.LEASE_SIZE\)$", norm_plain(dfs[0])) is not None
            r.require(ok, g, g.loc(), "%s does not unserialize a LEASE_SIZE-byte record through the schema's serializer" % short(g))

    # -- 5. candidate secrets are hashed; renew keeps the wrapper --------------------------
    with ctx.rule("C25.5", "R1", "HashedLeaseInfo hashes the candidate secret before the timing-safe comparison; renew changes "
                  "only the expiration time and keeps the hashed wrapper", expected=6) as r:
        H = "storage.lease:HashedLeaseInfo"
        L = "storage.lease:LeaseInfo"
        hc = idx.cls(H)

        def wrapper_method(name, consequence):
            """The wrapper's own `name`.  When it is absent although the wrapped class still has it and the proxied interface
            still declares it, proxyForInterface forwards the call to the wrapped LeaseInfo: the override was removed, which is
            the defect itself (not a vanished anchor)."""
            g_ = hc.lookup(name)
            if g_ is not None:
                return g_
            iface, pattr = proxied_interface(idx, hc)
            inner = idx.cls(L).lookup(name)
            if iface is None or inner is None or name not in iface:
                raise AnchorVanished("function allmydata.%s.%s" % (H, name))
            r.violation(hc.qual, "%s:%d" % (hc.module.relpath, hc.node.lineno),
                        "HashedLeaseInfo does not override %s: proxyForInterface forwards it to the wrapped %s, %s"
                        % (name, short(inner), consequence))
            return None
        f1 = wrapper_method("is_renew_secret", "which compares the un-hashed candidate with the stored hash: no secret ever matches "
                            "on a v2 container, renewals fail and every add_lease appends a duplicate")
        if f1 is not None:
            r.site(f1, None)
            cp = first_positional_params(f1)[0]
            v = only_return(f1).value
            r.require(is_super_call(v, "is_renew_secret") and len(v.args) == 1 and norm(v.args[0], f1) == "self._hash(%s)" % cp, f1, f1.loc(),
                      "HashedLeaseInfo.is_renew_secret compares %s, not self._hash(candidate_secret), with the stored hash" % src(f1, v))
        f2 = wrapper_method("is_cancel_secret", "which compares the un-hashed candidate with the stored hash")
        if f2 is not None:
            r.site(f2, None)
            cp2 = first_positional_params(f2)[0]
            cfg = f2.cfg()
            fnm = FlowNorm(f2)
        for n in (cfg.find(is_return) if f2 is not None else []):
            v = n.ast.value
            ok = is_super_call(v, "is_cancel_secret") and len(v.args) == 1
            r.require(ok, f2, f2.loc(n.ast), "is_cancel_secret returns %s" % src(f2, v))
            if not ok:
                continue
            a = v.args[0]
            defs = fnm.rd.get(n.id, {}).get(a.id, frozenset()) if isinstance(a, ast.Name) else None
            vals = [(cfg.nodes[d], fnm._def_value(cfg.nodes[d], a.id)) for d in defs if d >= 0] if defs else [(n, a)]
            r.require(bool(vals) and (defs is None or all(d >= 0 for d in defs)), f2, f2.loc(n.ast), "compared value is not derived from the candidate")
            for (dn, val) in vals:
                s_ = norm_plain(val) if val is not None else "?"
                if s_ == "self._hash(%s)" % cp2:
                    continue
                if s_ == "%s.hashed_value" % cp2:
                    marker = lambda m, lab: fnm.edge_fact(m, lab) == ("truth", "isinstance(%s, _HashedCancelSecret)" % cp2, None)
                    for (t, w) in find_path_avoiding(cfg, lambda x: x is dn, gate_edge=marker):
                        r.violation(f2, f2.loc(dn.ast), "the pre-hashed bypass is used without isinstance(candidate, _HashedCancelSecret)", w)
                    continue
                r.violation(f2, f2.loc(dn.ast), "is_cancel_secret compares %s with the stored hash: the candidate is not hashed" % s_)
        for (q, attr_) in ((L + ".is_renew_secret", "renew_secret"), (L + ".is_cancel_secret", "cancel_secret")):
            g = idx.func(q)
            r.site(g, None)
            gp = first_positional_params(g)[0]
            v = only_return(g).value
            ok = isinstance(v, ast.Call) and call_name(v) == "timing_safe_compare" and len(v.args) == 2 \
                and {norm_plain(x) for x in v.args} == {"self." + attr_, gp} \
                and g.module.imports.get("timing_safe_compare") == "allmydata.util.hashutil.timing_safe_compare"
            r.require(ok, g, g.loc(), "%s is not timing_safe_compare(self.%s, candidate)" % (short(g), attr_))
        g = idx.func(L + ".renew")
        r.site(g, None)
        gp = first_positional_params(g)[0]
        v = only_return(g).value
        ok = isinstance(v, ast.Call) and call_name(v) == "attr.assoc" and len(v.args) == 1 and attr_path(v.args[0]) == "self" \
            and [(k.arg, attr_path(k.value)) for k in v.keywords] == [("_expiration_time", gp)]
        r.require(ok, g, g.loc(), "LeaseInfo.renew returns %s, not a copy differing only in _expiration_time=new_expire_time" % src(g, v))
        g = wrapper_method("renew", "which returns a bare LeaseInfo holding the already-hashed secrets: HashedLeaseSerializer.serialize "
                           "takes it for a cleartext lease and hashes the secrets a second time when the renewed record is written "
                           "back, so the lease no longer answers to its secret (renewals fail, add_lease appends duplicates)")
        if g is not None:
            r.site(g, None)
            gp = first_positional_params(g)[0]
            v = deref(g, only_return(g).value)

            def renewed_inner(x):
                """the wrapped lease's own renew(new_expire_time)"""
                x = deref(g, x)
                return isinstance(x, ast.Call) and not x.keywords and [attr_path(deref(g, a)) for a in x.args] == [gp] \
                    and (is_super_call(x, "renew") or attr_path(x.func) == "self._lease_info.renew")
            ok = False
            if isinstance(v, ast.Call):
                kws = {k.arg: k.value for k in v.keywords}
                full = _imported_name(g, v)
                if full in ("attr.assoc", "attr.evolve", "attrs.evolve"):
                    # a copy of the wrapper in which only the wrapped lease is replaced by its renewed copy
                    field = "_lease_info" if full == "attr.assoc" else "lease_info"
                    ok = [attr_path(a) for a in v.args] == ["self"] and set(kws) == {field} and renewed_inner(kws[field])
                elif idx.resolve_expr_to_class(g.module, v.func) is hc or attr_path(v.func) == "self.__class__" or (
                        isinstance(v.func, ast.Call) and norm_plain(v.func) == "type(self)"):
                    # a new wrapper around the renewed copy, with the same hash function
                    a_ = list(v.args)
                    li_ = a_[0] if a_ else kws.get("lease_info")
                    hf_ = a_[1] if len(a_) > 1 else kws.get("hash")
                    ok = len(a_) + len(kws) == 2 and li_ is not None and hf_ is not None and renewed_inner(li_) \
                        and attr_path(deref(g, hf_)) == "self._hash"
            r.require(ok, g, g.loc(), "HashedLeaseInfo.renew returns %s: the renewed lease must stay wrapped (its secrets are already "
                      "hashed and would be hashed again on write)" % src(g, v))
        r.require(any(isinstance(b, ast.Call) and call_name(b) == "proxyForInterface" and len(b.args) == 2
                      and isinstance(b.args[1], ast.Constant) and b.args[1].value == "_lease_info" for b in hc.base_exprs),
                  hc.qual, "%s:%d" % (hc.module.relpath, hc.node.lineno), "HashedLeaseInfo no longer proxies ILeaseInfo to _lease_info")

    # -- 6. lease slots: writer and reader agree on where a lease lives ----------------------
    with ctx.rule("C25.6", "R6", "lease slot layout: _write_lease_record and the lease readers compute the same slot offsets "
                  "(mutable: 4 header slots, then count + extra slots; immutable: _lease_offset + i * LEASE_SIZE); a new slot "
                  "is counted exactly when it is appended; the count / offset fields are accessed at their own positions", expected=11) as r:
        ci = idx.cls(MSF)
        try:
            T = (fo.class_attr(ci, "DATA_OFFSET") - fo.class_attr(ci, "HEADER_SIZE")) // fo.class_attr(ci, "LEASE_SIZE")
        except NotConstant as ex:
            raise AnalysisError("cannot fold the mutable container layout: %s" % ex)
        rn_ = idx.func(MSF + "._read_num_extra_leases")
        un = [c for c in calls_in_func(rn_, "unpack") if call_name(c) == "struct.unpack"]
        cfmt = _fold(fo, un[0].args[0], rn_.module, rn_.cls) if len(un) == 1 else None
        if not isinstance(cfmt, str):
            raise AnchorVanished("_read_num_extra_leases: count format not found")
        C_ = _struct.calcsize(cfmt)
        wn_ = idx.func(MSF + "._write_num_extra_leases")
        pk = [c for c in calls_in_func(wn_, "pack") if call_name(c) == "struct.pack"]
        r.site(wn_, None, "extra-lease count field %r" % cfmt)
        r.require(len(pk) == 1 and _fold(fo, pk[0].args[0], wn_.module, wn_.cls) == cfmt, wn_, wn_.loc(),
                  "extra-lease count is written with a different format than it is read with (%r)" % cfmt)
        r.require(len(pk) == 1 and len(pk[0].args) == 2 and attr_path(pk[0].args[1]) == first_positional_params(wn_)[1], wn_, wn_.loc(),
                  "_write_num_extra_leases does not store the count it is given")
        # the count field lives at the extra-lease offset, the offset field at EXTRA_LEASE_OFFSET: each accessor positions the
        # file there immediately before it reads / writes (reading the offset field itself moves the file into the header slots)
        ro_ = idx.func(MSF + "._read_extra_lease_offset")
        for (g, kinds, what) in ((ro_, ("read",), None), (rn_, ("read",), ro_), (wn_, ("write",), ro_)):
            gp = first_positional_params(g)[0]
            if what is None:
                elo_ = fo.class_attr(ci, "EXTRA_LEASE_OFFSET")
                want = lambda v, e, g=g, elo_=elo_: v == "self.EXTRA_LEASE_OFFSET" or (
                    isinstance(elo_, int) and _fold(fo, e, g.module, g.cls) == elo_)
                where_ = "EXTRA_LEASE_OFFSET"
            else:
                want = lambda v, e, gp=gp: v == "self._read_extra_lease_offset(%s)" % gp
                where_ = "the extra-lease offset"
            acc, bad, nst = unpositioned_accesses(g, gp, want, kinds)
            if not acc:
                raise AnchorVanished("%s: no %s.%s(..)" % (short(g), gp, kinds[0]))
            r.count(nst)
            for a_ in acc:
                r.site(g, a_.ast, "positioned %s" % kinds[0])
            for (bn, w) in bad:
                r.violation(g, g.loc(bn.ast), "%s %ss %s without having positioned the file at %s immediately before: the "
                            "extra-lease %s is taken from / put into some other bytes of the container (lease slots are lost or "
                            "overwritten)" % (short(g), kinds[0], src(g, bn.ast), where_, "offset" if what is None else "count"), w)
        got = {}
        for name in ("_read_lease_record", "_write_lease_record"):
            g = idx.func(MSF + "." + name)
            ps = first_positional_params(g)
            gnm = FlowNorm(g, rename={ps[0]: "F", ps[1]: "N"})
            seeks = [c for c in calls_in_func(g, "seek") if isinstance(c.func, ast.Attribute) and attr_path(c.func.value) == ps[0]
                     and len(c.args) == 1 and isinstance(c.args[0], ast.Name)]
            if len(seeks) != 1:
                raise AnchorVanished("%s: f.seek(<offset variable>) not found" % short(g))
            r.site(g, seeks[0], "slot offset")
            cases, exits, nst = slot_cases(g, gnm, seeks[0].args[0].id, "_write_num_extra_leases" if name.startswith("_write") else None)
            r.count(nst)
            got[name] = (g, cases, exits)
        NUM, ELO = "self._read_num_extra_leases(F)", "self._read_extra_lease_offset(F)"
        head_case = (frozenset({("<", P("%d - N" % T))}), P("self.HEADER_SIZE + N * self.LEASE_SIZE"))
        extra_facts = frozenset({("<=", P("N - %d" % T)), ("<", P("%s - (N - %d)" % (NUM, T)))})
        extra_off = P("%s + %d + (N - %d) * self.LEASE_SIZE" % (ELO, C_, T))
        append_facts = frozenset({("<=", P("N - %d" % T)), ("<=", P("(N - %d) - %s" % (T, NUM)))})
        g, cases, exits = got["_read_lease_record"]
        r.require(cases == {head_case, (extra_facts, extra_off)}, g, g.loc(),
                  "_read_lease_record does not locate lease N at HEADER_SIZE + N*LEASE_SIZE for N < %d and at extra_lease_offset + %d + "
                  "(N-%d)*LEASE_SIZE for N-%d < num_extra_leases; found %s" % (T, C_, T, T, sorted((sorted(f), o) for (f, o) in cases)))
        g, cases, exits = got["_write_lease_record"]
        r.require(cases == {head_case, (extra_facts, extra_off), (append_facts, extra_off)}, g, g.loc(),
                  "_write_lease_record does not write lease N where _read_lease_record looks for it (plus the append slot); found %s" % (
                      sorted((sorted(f), o) for (f, o) in cases)))
        for (case, bumped) in exits:
            if case is None:
                continue
            is_append = case[0] == append_facts
            r.require(bumped == is_append, g, g.loc(), "the extra-lease count is %s when a record is written %s" % (
                "not incremented" if is_append else "incremented", "to a new slot" if is_append else "to an existing slot"))
        for c in calls_in_func(g, "_write_num_extra_leases"):
            r.require(len(c.args) == 2 and str(FlowNorm(g, rename={first_positional_params(g)[0]: "F"}).at(
                [n for n in g.cfg().nodes if c in node_calls(n)][0]).poly(c.args[1])) == P(NUM + " + 1"), g, g.loc(c),
                "the extra-lease count is set to %s, not num_extra_leases + 1" % src(g, c.args[-1]))
        gs = idx.func(MSF + "._get_num_lease_slots")
        r.site(gs, None)
        v = only_return(gs).value
        r.require(str(N(gs).poly(v)) == P("%d + self._read_num_extra_leases(%s)" % (T, first_positional_params(gs)[0])), gs, gs.loc(),
                  "_get_num_lease_slots returns %s, not %d + num_extra_leases" % (src(gs, v), T))
        # immutable container
        wl = idx.func(SF + "._write_lease_record")
        ps = first_positional_params(wl)
        wnm = FlowNorm(wl, rename={ps[0]: "F", ps[1]: "N"})
        seeks = [c for c in calls_in_func(wl, "seek") if len(c.args) == 1 and isinstance(c.args[0], ast.Name)]
        if len(seeks) != 1:
            raise AnchorVanished("ShareFile._write_lease_record: f.seek(<offset variable>) not found")
        r.site(wl, seeks[0], "slot offset")
        cases, exits, nst = slot_cases(wl, wnm, seeks[0].args[0].id)
        r.require(cases == {(frozenset(), P("self._lease_offset + N * self.LEASE_SIZE"))}, wl, wl.loc(),
                  "ShareFile._write_lease_record does not write lease N at _lease_offset + N*LEASE_SIZE; found %s" % sorted(o for (f, o) in cases))
        gl = idx.func(SF + ".get_leases")
        r.site(gl, None, "sequential reader")
        sk = [norm_plain(c.args[0]) for c in calls_in_func(gl, "seek") if len(c.args) == 1]
        rdz = [norm_plain(c.args[0]) for c in calls_in_func(gl, "read") if len(c.args) == 1]
        r.require(sk == ["self._lease_offset"] and "self.LEASE_SIZE" in rdz, gl, gl.loc(),
                  "ShareFile.get_leases does not read LEASE_SIZE-byte records sequentially from _lease_offset")
        al = idx.func(SF + ".add_lease")
        anm = N(al)
        wc = calls_in_func(al, "_write_lease_record")
        ok = len(wc) == 1 and len(wc[0].args) == 3 and re.match(r"^self\._read_num_leases\(\w+\)$", anm.norm(wc[0].args[1])) is not None
        r.require(ok, al, al.loc(), "ShareFile.add_lease does not append the record at index num_leases")
        pk = [c for c in calls_in_func(al, "pack") if call_name(c) == "struct.pack" and len(c.args) == 2]
        okc = len(pk) == 1 and re.match(r"^\(1 \+ self\._read_num_leases\(\w+\)\)$", str(anm.poly(pk[0].args[1]))) is not None
        r.require(okc, al, al.loc(), "ShareFile.add_lease does not record num_leases + 1 as the new lease count")
        # ... and that count reaches the file on every path that wrote the record
        acfg = al.cfg()
        afn = FlowNorm(al)
        cw = []
        for n in acfg.nodes:
            for c in node_calls(n):
                if call_name(c) == "self._write_encoded_num_leases" and len(c.args) == 2 and okc:
                    v = c.args[1]
                    if isinstance(v, ast.Name):
                        _dn, v = def_of(afn, n, v)
                    if v is pk[0]:
                        cw.append(n)
        recw = [n for n in acfg.nodes if self_calls(n, "_write_lease_record")]
        for (s_, w) in find_path_from_to_avoiding(acfg, lambda x: x in recw, gate_node=lambda m: m in cw):
            r.violation(al, al.loc(s_.ast), "ShareFile.add_lease can return after writing the record without storing the new lease count "
                        "(self._write_encoded_num_leases(f, <packed num_leases + 1>)): get_leases never sees the lease, so it cannot be "
                        "renewed and the next add overwrites it (path: %s)" % w.brief(), w)
        # the count field is read and written at the position where get_leases finds it in the header
        rl_ = idx.func(SF + "._read_num_leases")
        we_ = idx.func(SF + "._write_encoded_num_leases")
        ks = {}
        for (g, kinds) in ((rl_, ("read",)), (we_, ("write",))):
            gp = first_positional_params(g)[0]
            seen_k = []

            def want(v, e, seen_k=seen_k, g=g):
                k = _fold(fo, e, g.module, g.cls)
                if isinstance(k, int) and not isinstance(k, bool):
                    seen_k.append(k)
                    return True
                return False
            acc, bad, nst = unpositioned_accesses(g, gp, want, kinds)
            if not acc:
                raise AnchorVanished("%s: no %s.%s(..)" % (short(g), gp, kinds[0]))
            r.count(nst)
            for a_ in acc:
                r.site(g, a_.ast, "positioned %s" % kinds[0])
            for (bn, w) in bad:
                r.violation(g, g.loc(bn.ast), "%s %ss %s without having positioned the file at the (constant) lease-count offset "
                            "immediately before" % (short(g), kinds[0], src(g, bn.ast)), w)
            ks[g.name] = set(seen_k)
        hdr = None
        for n in func_own_nodes(gl):
            if isinstance(n, ast.Assign) and len(n.targets) == 1 and isinstance(n.targets[0], ast.Tuple) and isinstance(n.value, ast.Call) \
                    and call_name(n.value) == "struct.unpack" and len(n.value.args) == 2:
                hdr = n
        loops = [n for n in func_own_nodes(gl) if isinstance(n, ast.For)]
        cnt = None
        if hdr is not None and len(loops) == 1 and isinstance(loops[0].iter, ast.Call) and call_name(loops[0].iter) == "range" \
                and len(loops[0].iter.args) == 1 and isinstance(loops[0].iter.args[0], ast.Name):
            names_ = [attr_path(e) for e in hdr.targets[0].elts]
            hf = _fold(fo, hdr.value.args[0], gl.module, gl.cls)
            if isinstance(hf, str) and loops[0].iter.args[0].id in names_ and len(struct_fields(hf)) == len(names_):
                j = names_.index(loops[0].iter.args[0].id)
                pre = (hf[0] if hf[0] in "@=<>!" else "") + "".join(("%d%s" % (c_, k_)) if k_ in "sp" else k_ for (k_, c_) in struct_fields(hf)[:j])
                cnt = _struct.calcsize(pre)
        if cnt is None:
            raise AnchorVanished("ShareFile.get_leases: the header unpack that yields the lease count was not found")
        r.require(ks["_read_num_leases"] == ks["_write_encoded_num_leases"] == {cnt}, we_, we_.loc(),
                  "the lease count is read at %s by _read_num_leases and written at %s by _write_encoded_num_leases, but get_leases takes it "
                  "from header offset %d: a new lease is not seen by the reader" % (
                      sorted(ks["_read_num_leases"]), sorted(ks["_write_encoded_num_leases"]), cnt))

    # -- 7. a renewal needs no space: nothing may refuse or skip it before it was tried ------------------
    with ctx.rule("C25.7", "R1/R3", "add_or_renew_lease reaches the renew attempt on every path (no exit or refusal, e.g. NoSpace, "
                  "before it); the server offers every share to add_or_renew_lease and skips the renewal only under "
                  "renew_leases=False / failed test vectors / no shares", expected=6) as r:
        for (cq, kind) in CONTAINERS:
            fn = idx.func(cq + ".add_or_renew_lease")
            ps = first_positional_params(fn)
            if len(ps) != 2:
                raise AnchorVanished("%s signature changed: %s" % (short(fn), ps))
            space = ps[0]
            cfg = fn.cfg()
            rn = [n for n in cfg.nodes if self_calls(n, "renew_lease")]
            if len(rn) != 1:
                raise AnchorVanished("%s: renew_lease call not found" % short(fn))
            R = rn[0]
            r.site(fn, self_calls(R, "renew_lease")[0], "renew attempt is unconditional")

            def tr(n, lab, nxt, st, R=R, fn=fn, space=space):
                if n is R:
                    return None          # whatever happens from here on happens after the renew attempt
                if n.kind == "test" and n.assume and nxt.kind in ("raise", "except") and space not in depends_on(fn, n.ast):
                    return None          # argument precondition that has nothing to do with the space limit
                return 0
            vis, par = explore(cfg, 0, tr)
            r.count(len(vis))
            for (nid, st) in sorted(vis):
                n = cfg.nodes[nid]
                if n.kind not in ("exit", "raise"):
                    continue
                w = witness(cfg, par, (nid, st))
                real = [m for (m, _l) in w.path if m.kind not in ("entry", "exit", "raise")]
                last = real[-1] if real else None
                what = "be refused (%s)" % src(fn, last.ast) if n.kind == "raise" and last is not None else "return"
                r.violation(fn, fn.loc(last.ast if last is not None else None),
                            "add_or_renew_lease can %s before the renew attempt was made: a lease whose renew secret already exists "
                            "is not renewed although renewing needs no space (path: %s)" % (what, w.brief()), w)
        # server: every share is offered to add_or_renew_lease ...
        sv = idx.func("storage.server:StorageServer._add_or_renew_leases")
        scfg = sv.cfg()
        shares_p = first_positional_params(sv)[0]
        heads = [n for n in scfg.nodes if n.kind == "iter" and attr_path(n.ast.iter) == shares_p]
        if len(heads) != 1:
            raise AnchorVanished("_add_or_renew_leases: loop over %s not found" % shares_p)
        head = heads[0]
        r.site(sv, head.ast, "every share")
        offers = has_call("add_or_renew_lease")
        for (t, w) in find_path_avoiding(scfg, lambda n: n.kind == "exit", gate_node=lambda m: m is head, skip_exc_edges=True):
            r.violation(sv, sv.loc(), "_add_or_renew_leases can return without looking at the shares (path: %s)" % w.brief(), w)

        def tr2(n, lab, nxt, st):
            if lab == "exc" or (n is head and lab != "iter") or offers(n):
                return None
            return 1
        vis, par = explore(scfg, 0, tr2, start=head)
        for (nid, st) in sorted(vis):
            if st == 1 and (scfg.nodes[nid] is head or scfg.nodes[nid].kind == "exit"):
                w = witness(scfg, par, (nid, st))
                r.violation(sv, sv.loc(head.ast), "_add_or_renew_leases can skip a share without calling its add_or_renew_lease: an "
                            "existing lease on it is not renewed (path: %s)" % w.brief(), w)
                break
        # ... and the entry points skip _add_or_renew_leases only for the documented reasons
        for (q, flags) in (("add_lease", False), ("allocate_buckets", True), ("slot_testv_and_readv_and_writev", True)):
            g = idx.func("storage.server:StorageServer." + q)
            gcfg = g.cfg()
            gnm = FlowNorm(g)
            cn = [n for n in gcfg.nodes if any(call_name(c) == "self._add_or_renew_leases" for c in node_calls(n))]
            if len(cn) != 1:
                raise AnchorVanished("%s: expected one self._add_or_renew_leases call, found %d" % (short(g), len(cn)))
            C = cn[0]
            call = [c for c in node_calls(C) if call_name(c) == "self._add_or_renew_leases"][0]
            r.site(g, call, "renewal not skipped")
            a0 = arg(call, 0)
            if isinstance(a0, ast.Call) and call_tail(a0) in ("values", "items", "keys") and isinstance(a0.func, ast.Attribute):
                a0 = a0.func.value
            root = a0.id if isinstance(a0, ast.Name) else None
            sip = first_positional_params(g)[0]
            r.require(a0 is not None and sip in depends_on(g, a0), g, g.loc(call), "the shares %s hands to _add_or_renew_leases (%s) are not "
                      "derived from the shares stored for %s: existing shares are neither renewed nor given the lease" % (
                          short(g), src(g, arg(call, 0)) if arg(call, 0) is not None else "?", sip))

            def may_skip(n, lab, g=g, gnm=gnm, flags=flags, root=root):
                ft = gnm.edge_fact(n, lab)
                if not ft or ft[0] != "false":
                    return False
                if flags and "renew_leases" in g.params and ft[1] == "renew_leases":
                    return True
                if flags and isinstance(ft[1], str) and ft[1].startswith("self._evaluate_test_vectors("):
                    return True
                return root is not None and ft[1] == gnm.norm(n, ast.Name(id=root, ctx=ast.Load()))

            def tr3(n, lab, nxt, st, C=C, may_skip=may_skip):
                if lab == "exc" or n is C or may_skip(n, lab):
                    return None
                return 0
            vis, par = explore(gcfg, 0, tr3)
            r.count(len(vis))
            for (nid, st) in sorted(vis):
                if gcfg.nodes[nid].kind == "exit":
                    w = witness(gcfg, par, (nid, st))
                    r.violation(g, g.loc(call), "%s can complete without putting the lease on the existing shares although nothing "
                                "but renew_leases=False / failed test vectors / no shares may skip it (path: %s)" % (short(g), w.brief()), w)
                    break

    # -- 8. the index handed out with a lease is the slot the lease lives in ---------------------------------
    with ctx.rule("C25.8", "R6/R1", "lease enumeration: MutableShareFile._enumerate_leases pairs every lease with the slot number it "
                  "was read from and hands out every non-empty slot; ShareFile.get_leases yields one lease per record so that "
                  "enumerate() counts slots; cancel_lease blanks only the matched lease's own slot", expected=4) as r:
        en = idx.func(MSF + "._enumerate_leases")
        fp = first_positional_params(en)[0]
        cfg = en.cfg()
        fnm = FlowNorm(en)
        # what the function hands out: yielded 2-tuples, or 2-tuples appended to the list it returns
        ret_lists, bad_returns = set(), []
        for n in cfg.find(is_return):
            v = n.ast.value
            if v is None or (isinstance(v, ast.Constant) and v.value is None):
                continue
            while isinstance(v, ast.Call) and call_name(v) in ("iter", "list", "tuple") and len(v.args) == 1 and not v.keywords:
                v = v.args[0]
            v2 = v
            if isinstance(v, ast.Name):
                dn_, dv_ = def_of(fnm, n, v)
                if isinstance(dv_, ast.Call):
                    v2 = dv_
            if isinstance(v2, ast.Call) and call_name(v2) == "enumerate":
                r.violation(en, en.loc(n.ast), "_enumerate_leases returns %s: the number handed out with each lease is its position "
                            "among the leases found, not the slot it was read from, so renew_lease/cancel_lease rewrite another "
                            "lease's slot once an earlier slot is empty" % src(en, n.ast.value))
                bad_returns.append(n)
            elif isinstance(v, ast.Name):
                ret_lists.add(v.id)
            else:
                raise AnalysisError("_enumerate_leases returns %s: cannot relate the indices to lease slots" % src(en, n.ast.value))
        pairs = []
        for n in cfg.nodes:
            if n.kind != "stmt":
                continue
            for x in own_nodes(n.ast):
                t = None
                if isinstance(x, ast.Yield):
                    t = x.value
                elif isinstance(x, ast.Call) and call_tail(x) == "append" and isinstance(x.func, ast.Attribute) \
                        and attr_path(x.func.value) in ret_lists and len(x.args) == 1:
                    t = x.args[0]
                else:
                    continue
                if isinstance(t, ast.Tuple) and len(t.elts) == 2:
                    pairs.append((n, t.elts[0], t.elts[1], x))
                else:
                    r.violation(en, en.loc(x), "_enumerate_leases hands out %s, not a (slot number, lease) pair" % src(en, x))
        if not pairs and not bad_returns:
            raise AnchorVanished("_enumerate_leases: no (slot, lease) pair is yielded or collected")
        readers = [n for n in cfg.nodes if self_calls(n, "_read_lease_record")]
        if not readers and not bad_returns:
            raise AnchorVanished("_enumerate_leases no longer calls _read_lease_record")
        loopvars = set()
        for (n, ie, le, x) in pairs:
            r.site(en, x, "(slot, lease) pair")
            dn, v = def_of(fnm, n, le)
            if dn is None:
                dn = n
            ok = isinstance(v, ast.Call) and call_name(v) == "self._read_lease_record" and len(v.args) == 2 and not v.keywords \
                and attr_path(v.args[0]) == fp
            if ok:
                slot = v.args[1]
                ok = fnm.norm(n, ie) == fnm.norm(dn, slot) and all(
                    fnm.rd.get(n.id, {}).get(nm.id) == fnm.rd.get(dn.id, {}).get(nm.id)
                    for e_ in (ie, slot) for nm in own_nodes(e_) if isinstance(nm, ast.Name))
                if isinstance(slot, ast.Name):
                    loopvars.add((slot.id, tuple(sorted(fnm.rd.get(dn.id, {}).get(slot.id, ())))))
            r.require(ok, en, en.loc(x), "_enumerate_leases hands out %s: the number that accompanies the lease is not the slot "
                      "number the lease was read from (self._read_lease_record(%s, <slot>)); renew_lease/cancel_lease pass it to "
                      "_write_lease_record and would overwrite another lease" % (src(en, x), fp))
        # every slot is visited, and a non-empty one is always handed out
        pair_nodes = [p_[0] for p_ in pairs]
        for Rn in readers:
            tgt = [t.id for t in getattr(Rn.ast, "targets", []) if isinstance(t, ast.Name)] if isinstance(Rn.ast, ast.Assign) else []
            hd = [h for h in cfg.nodes if h.kind == "iter" and any((attr_path(h.ast.target), (h.id,)) == lv_ for lv_ in loopvars)]
            if len(hd) != 1:
                if not bad_returns:
                    raise AnalysisError("_enumerate_leases: the slot loop was not found")
                continue
            H_ = hd[0]
            r.site(en, H_.ast, "slot loop")
            it = H_.ast.iter
            if isinstance(it, ast.Call) and call_name(it) == "range" and len(it.args) == 1 and isinstance(it.args[0], ast.Name):
                _d, dv_ = def_of(fnm, H_, it.args[0])
                itn = "range(%s)" % (norm_plain(dv_) if dv_ is not None else "?")
            else:
                itn = fnm.norm(H_, it)
            r.require(itn in ("range(self._get_num_lease_slots(%s))" % fp, "count()", "itertools.count()"), en, en.loc(H_.ast),
                      "_enumerate_leases visits slots %s, not every slot 0 .. _get_num_lease_slots(%s)-1: leases in the other slots "
                      "cannot be renewed and are added a second time" % (itn, fp))

            def empty_edge(m, lab, tgt=tgt):
                ft = fnm.edge_fact(m, lab)
                if not ft or ft[0] != "is" or "None" not in ft[1:]:
                    return False
                other = ft[2] if ft[1] == "None" else ft[1]
                return any(other == fnm.norm(m, ast.Name(id=t_, ctx=ast.Load())) for t_ in tgt)

            def tr4(m, lab, nxt, st, Rn=Rn, H_=H_):
                if lab == "exc" or (m is not Rn and m in pair_nodes) or empty_edge(m, lab) or (st == 1 and m is H_):
                    return None
                return 1
            vis, par = explore(cfg, 0, tr4, start=Rn)
            r.count(len(vis))
            for (nid, st) in sorted(vis):
                m = cfg.nodes[nid]
                if st == 1 and (m is H_ or m.kind == "exit") and Rn not in pair_nodes:
                    w = witness(cfg, par, (nid, st))
                    r.violation(en, en.loc(Rn.ast), "_enumerate_leases can pass over a slot that holds a lease without handing it out: "
                                "that lease cannot be renewed and is added a second time (path: %s)" % w.brief(), w)
                    break
        # immutable: renew_lease counts slots with enumerate(self.get_leases()) - get_leases must yield one lease per record
        gl = idx.func(SF + ".get_leases")
        gcfg = gl.cfg()
        gnm = FlowNorm(gl)
        yn = [n for n in gcfg.nodes if n.kind == "stmt" and any(isinstance(x, ast.Yield) for x in own_nodes(n.ast))]
        rd_ = [n for n in gcfg.nodes if any(call_tail(c) == "read" and len(c.args) == 1 and norm_plain(c.args[0]) == "self.LEASE_SIZE"
                                            for c in node_calls(n))]
        if not yn or len(rd_) != 1:
            raise AnchorVanished("ShareFile.get_leases: the record read / yield were not found")
        Rn = rd_[0]
        r.site(gl, Rn.ast, "one lease per record")
        tgt = [t.id for t in Rn.ast.targets if isinstance(t, ast.Name)] if isinstance(Rn.ast, ast.Assign) else []
        heads = [h for h in gcfg.nodes if h.kind == "iter"]
        if len(heads) != 1:
            raise AnchorVanished("ShareFile.get_leases: record loop not found")
        H_ = heads[0]

        def short_read(m, lab):
            ft = gnm.edge_fact(m, lab)
            return bool(ft) and ft[0] == "false" and any(ft[1] == gnm.norm(m, ast.Name(id=t_, ctx=ast.Load())) for t_ in tgt)

        def tr5(m, lab, nxt, st):
            if lab == "exc" or (m is not Rn and m in yn) or short_read(m, lab) or (st == 1 and m is H_):
                return None
            return 1
        vis, par = explore(gcfg, 0, tr5, start=Rn)
        r.count(len(vis))
        for (nid, st) in sorted(vis):
            m = gcfg.nodes[nid]
            if st == 1 and (m is H_ or m.kind == "exit") and Rn not in yn:
                w = witness(gcfg, par, (nid, st))
                r.violation(gl, gl.loc(Rn.ast), "ShareFile.get_leases can pass over a lease record without yielding it: the positions "
                            "renew_lease counts with enumerate() are then no longer slot numbers and the renewed record overwrites "
                            "another lease (path: %s)" % w.brief(), w)
                break
        # nodes of the record loop: exactly one file access per iteration
        def tr6(m, lab, nxt, st):
            if lab == "exc" or (m is H_ and lab != "iter") or (st == 1 and m is H_):
                return None
            return 1
        vis, par = explore(gcfg, 0, tr6, start=H_)
        body = {gcfg.nodes[nid] for (nid, st) in vis if st == 1 and gcfg.nodes[nid] is not H_}
        moves = [c for m in body for c in node_calls(m) if call_tail(c) in ("read", "seek", "readline", "readlines")]
        r.require(len(moves) == 1, gl, gl.loc(H_.ast), "ShareFile.get_leases moves the file position %d times per record (%s): records "
                  "are no longer read one per slot" % (len(moves), ", ".join(src(gl, c) for c in moves)))
        # mutable cancel_lease: the blank record goes to the matched lease's own slot
        cl = idx.func(MSF + ".cancel_lease")
        ccfg = cl.cfg()
        cnm = FlowNorm(cl)
        csec = first_positional_params(cl)[0]
        heads = [n for n in ccfg.nodes if n.kind == "iter" and isinstance(n.ast.target, ast.Tuple) and len(n.ast.target.elts) == 2
                 and re.match(r"^self\._enumerate_leases\(\w+\)$", cnm.norm(n, n.ast.iter))]
        wn = [n for n in ccfg.nodes if self_calls(n, "_write_lease_record")]
        if len(heads) != 1 or not wn:
            raise AnchorVanished("MutableShareFile.cancel_lease: loop over _enumerate_leases / _write_lease_record not found")
        head = heads[0]
        iv, lv = [attr_path(e) for e in head.ast.target.elts]
        cmatch = ("truth", "%s.is_cancel_secret(%s)" % (lv, csec), None)
        for W in wn:
            wc = self_calls(W, "_write_lease_record")[0]
            r.site(cl, wc, "blank record")
            ok = len(wc.args) == 3 and attr_path(wc.args[1]) == iv and cnm.rd.get(W.id, {}).get(iv) == frozenset([head.id])
            r.require(ok, cl, cl.loc(wc), "cancel_lease writes the blank record to slot %s, not the slot %s the matched lease was "
                      "enumerated with" % (src(cl, wc.args[1] if len(wc.args) > 1 else wc), iv))
            for (t, w) in find_path_avoiding(ccfg, lambda x: x is W, gate_edge=lambda m, lab: cnm.edge_fact(m, lab) == cmatch,
                                             kill=lambda m: m is head):
                r.violation(cl, cl.loc(wc), "cancel_lease overwrites a lease whose cancel secret was not matched (path: %s)" % w.brief(), w)

    # -- 9. mutable slots: which slots are empty, and where a new lease may go -----------------------------------
    with ctx.rule("C25.9", "R6/R1", "mutable slot occupancy: _read_lease_record reports a slot as empty (None) only for a record with "
                  "owner_num == 0 and returns the unserialized record otherwise; _get_first_empty_lease_slot returns only a slot it "
                  "read as empty; add_lease writes the new lease to such a slot or to the slot after the last one, and always writes it",
                  expected=4) as r:
        rl = idx.func(MSF + "._read_lease_record")
        cfg = rl.cfg()
        fnm = FlowNorm(rl)
        REC = r"self\._schema\.lease_serializer\.unserialize\(.*\)"

        def empty_rec(m, lab):
            ft = fnm.edge_fact(m, lab)
            if not ft:
                return False
            if ft[0] == "false":
                return re.match("^%s\\.owner_num$" % REC, str(ft[1])) is not None
            if ft[0] == "==" and "0" in ft[1:]:
                other = ft[2] if ft[1] == "0" else ft[1]
                return re.match("^%s\\.owner_num$" % REC, str(other)) is not None
            return False

        def is_none(v):
            return v is None or (isinstance(v, ast.Constant) and v.value is None)
        n_ret = 0
        for n in cfg.find(is_return):
            if is_none(n.ast.value):
                continue
            n_ret += 1
            r.site(rl, n.ast, "occupied slot")
            r.require(re.match("^%s$" % REC, fnm.norm(n, n.ast.value)) is not None, rl, rl.loc(n.ast),
                      "_read_lease_record returns %s, not the record it unserialized from the slot" % src(rl, n.ast.value))

        def tr9(m, lab, nxt, st):
            if lab == "exc":
                return None
            if empty_rec(m, lab):
                return 1
            if m.kind == "stmt" and isinstance(m.ast, ast.Return) and not is_none(m.ast.value):
                return 2
            return st
        vis, par = explore(cfg, 0, tr9)
        r.count(len(vis))
        for (nid, st) in sorted(vis):
            if cfg.nodes[nid].kind == "exit" and st == 0:
                w = witness(cfg, par, (nid, st))
                real = [m for (m, _l) in w.path if m.kind not in ("entry", "exit", "raise")]
                r.violation(rl, rl.loc(real[-1].ast if real else None), "_read_lease_record can report a slot as empty (return None) "
                            "although the record's owner_num was not found to be 0: the lease in it can no longer be renewed, is added "
                            "a second time, and its slot is handed out for another lease (path: %s)" % w.brief(), w)
                break
        if not n_ret and not r.violations:
            raise AnchorVanished("_read_lease_record returns no lease")
        # _get_first_empty_lease_slot
        ge = idx.func(MSF + "._get_first_empty_lease_slot")
        gcfg = ge.cfg()
        gnm = FlowNorm(ge)
        gfp = first_positional_params(ge)[0]
        heads = [h for h in gcfg.nodes if h.kind == "iter"]
        n_slot = 0
        for n in gcfg.find(is_return):
            v = n.ast.value
            if is_none(v):
                continue
            n_slot += 1
            r.site(ge, n.ast, "empty slot")
            want = "self._read_lease_record(%s, %s)" % (gfp, gnm.norm(n, v))

            def read_empty(m, lab, want=want):
                ft = gnm.edge_fact(m, lab)
                return bool(ft) and ft[0] == "is" and "None" in ft[1:] and want in ft[1:]
            for (t, w) in find_path_avoiding(gcfg, lambda x, n=n: x is n, gate_edge=read_empty, kill=lambda m: m in heads):
                r.violation(ge, ge.loc(n.ast), "_get_first_empty_lease_slot returns slot %s without having read it as empty "
                            "(self._read_lease_record(%s, %s) is None): add_lease overwrites the lease that lives there (path: %s)" % (
                                src(ge, v), gfp, src(ge, v), w.brief()), w)
        if not n_slot:
            raise AnchorVanished("_get_first_empty_lease_slot returns no slot")
        # add_lease
        ad = idx.func(MSF + ".add_lease")
        acfg = ad.cfg()
        anm_ = FlowNorm(ad)
        lip = first_positional_params(ad)[-1]
        wn = [n for n in acfg.nodes if self_calls(n, "_write_lease_record")]
        if not wn:
            raise AnchorVanished("MutableShareFile.add_lease: no _write_lease_record call")
        for W in wn:
            wc = self_calls(W, "_write_lease_record")[0]
            r.site(ad, wc, "new lease")
            if len(wc.args) != 3 or wc.keywords:
                r.violation(ad, ad.loc(wc), "add_lease calls %s" % src(ad, wc))
                continue
            r.require(attr_path(wc.args[2]) == lip, ad, ad.loc(wc), "add_lease writes %s, not the lease it was given" % src(ad, wc.args[2]))
            fv = attr_path(wc.args[0])
            slot = anm_.norm(W, wc.args[1])
            if slot == "self._get_num_lease_slots(%s)" % fv:
                continue          # the slot after the last one: _write_lease_record appends
            if slot == "self._get_first_empty_lease_slot(%s)" % fv:
                found = lambda m, lab, slot=slot: anm_.edge_fact(m, lab) in (("is not", "None", slot), ("is not", slot, "None"))
                for (t, w) in find_path_avoiding(acfg, lambda x, W=W: x is W, gate_edge=found):
                    r.violation(ad, ad.loc(wc), "add_lease writes to the slot _get_first_empty_lease_slot returned without having "
                                "checked that one was found (is not None) (path: %s)" % w.brief(), w)
                continue
            r.violation(ad, ad.loc(wc), "add_lease writes the new lease to slot %s, which is neither an empty slot "
                        "(_get_first_empty_lease_slot) nor the slot after the last one (_get_num_lease_slots): a live lease "
                        "can be overwritten" % src(ad, wc.args[1]))
        for (t, w) in find_path_avoiding(acfg, lambda x: x.kind == "exit", gate_node=lambda m: m in wn, skip_exc_edges=True):
            r.violation(ad, ad.loc(), "MutableShareFile.add_lease can return normally without having written the lease "
                        "(path: %s)" % w.brief(), w)

    # -- 10. container resizing: the extra-lease block is moved intact ------------------------------------------------
    # The functions held to this are found by their ROLE, not by name: every function of the package that repoints the
    # header's extra-lease offset (calls _write_extra_lease_offset) relocates the block - _change_container_size (growth) and
    # any sibling (a shrinking / compacting path) alike.
    with ctx.rule("C25.10", "R6/R1", "leases survive a container resize: every function that repoints the header's extra-lease "
                  "offset (MutableShareFile._change_container_size and any sibling that calls _write_extra_lease_offset) reads the whole "
                  "extra-lease block (count field + num_extra_leases records) at the old extra-lease offset before it modifies the "
                  "file, writes those bytes where it points the header to, and nothing that may overlap the new block is written "
                  "or cut off after the copy (the old and new blocks overlap whenever the offset moves by less than the block size)",
                  expected=3) as r:
        ccs = idx.func(MSF + "._change_container_size")
        msf = idx.cls(MSF)
        rn_ = idx.func(MSF + "._read_num_extra_leases")
        un = [c for c in calls_in_func(rn_, "unpack") if call_name(c) == "struct.unpack"]
        cfmt = _fold(fo, un[0].args[0], rn_.module, rn_.cls) if len(un) == 1 else None
        if not isinstance(cfmt, str):
            raise AnchorVanished("_read_num_extra_leases: count format not found")
        CW = _struct.calcsize(cfmt)
        NEUTRAL = ("flush", "tell", "fileno")
        HEADER_WRITERS = ("_write_extra_lease_offset", "_write_data_length")
        helper = idx.func(MSF + "._write_extra_lease_offset")

        # who relocates: the callers of the header-offset writer ...
        relocators = []
        for site in real_sites(cg, "_write_extra_lease_offset"):
            f_ = site.fn
            if f_.module.name.startswith("allmydata.test") or f_ is helper:
                continue
            if len(site.call.args) != 2 or not attr_path(site.call.args[0]):
                raise AnalysisError("%s calls _write_extra_lease_offset in a form that is not decided: %s" % (short(f_), src(f_, site.call)))
            fp_ = attr_path(site.call.args[0])
            hit = [x for x in relocators if x[0] is f_]
            if hit and hit[0][1] != fp_:
                raise AnalysisError("%s repoints the extra-lease offset of two different files" % short(f_))
            if not hit:
                relocators.append((f_, fp_))
        if not any(f_ is ccs for (f_, _p) in relocators):
            raise AnchorVanished("_change_container_size: no self._write_extra_lease_offset(<file>, ..)")
        # ... and nobody stores that header field on his own
        ELO = norm_src("self.EXTRA_LEASE_OFFSET")
        for m in msf.methods.values():
            if m is helper:
                continue
            mn = FlowNorm(m)
            for n in m.cfg().nodes:
                for c in node_calls(n):
                    if isinstance(c.func, ast.Attribute) and c.func.attr == "seek" and len(c.args) == 1 \
                            and mn.norm(n, c.args[0]) == ELO:
                        who = attr_path(c.func.value)
                        if any(isinstance(c2.func, ast.Attribute) and c2.func.attr in ("write", "writelines")
                               and attr_path(c2.func.value) == who for c2 in calls_in_func(m)):
                            raise AnalysisError("%s positions the file at EXTRA_LEASE_OFFSET and writes: it stores the "
                                                "extra-lease offset without _write_extra_lease_offset, the relocation it "
                                                "performs is not decided" % short(m))

        def relocation(cs, fp):
            nm = cs.name
            cfg = cs.cfg()
            fnm = FlowNorm(cs)

            def file_calls(n):
                return [c for c in node_calls(n) if (isinstance(c.func, ast.Attribute) and attr_path(c.func.value) == fp)
                        or any(attr_path(a) == fp for a in c.args) or any(attr_path(k.value) == fp for k in c.keywords)]

            def direct(n, kinds):
                return [c for c in file_calls(n) if isinstance(c.func, ast.Attribute) and attr_path(c.func.value) == fp and c.func.attr in kinds]

            def handed(n):
                """self.<helper>(f, ..) calls that are given the file"""
                return [c for c in file_calls(n) if not (isinstance(c.func, ast.Attribute) and attr_path(c.func.value) == fp)]

            def mutates(n):
                return bool(direct(n, ("write", "writelines", "truncate"))) or any(not call_tail(c).startswith("_read") for c in handed(n))

            # file position on entry to each node: id of the fp.seek(E) node that set it and was not disturbed since, else -1
            def tr_pos(n, lab, nxt, st):
                if lab == "exc":
                    return None
                fc = file_calls(n)
                if not fc or all(c in direct(n, NEUTRAL) for c in fc):
                    return st
                sk = [c for c in direct(n, ("seek",)) if len(c.args) == 1 and not c.keywords]
                if len(sk) == 1:
                    inner = {id(x) for x in ast.walk(sk[0].args[0])}
                    if all(c is sk[0] or id(c) in inner for c in fc):
                        return n.id
                return -1
            pvis, ppar = explore(cfg, -1, tr_pos)
            r.count(len(pvis))

            def poly_at(n, e):
                try:
                    return fnm.at(n).poly(e)
                except Exception:
                    return None

            def seeks(n):
                """[(seek node, seek argument)] (None = unknown) that may have positioned the file on entry to n"""
                out = []
                for (nid, st) in sorted(pvis):
                    if nid == n.id:
                        out.append(None if st < 0 else (cfg.nodes[st], direct(cfg.nodes[st], ("seek",))[0].args[0]))
                return out

            def positions(n):
                """set of polynomials (None = unknown) the file may be positioned at on entry to n"""
                return {None if sk is None else poly_at(sk[0], sk[1]) for sk in seeks(n)}

            def show(ps):
                return ", ".join(sorted("an unknown position" if p is None else str(p) for p in ps)) or "nowhere"

            # the copy: a write of bytes that an fp.read(..) of this function produced
            copies, foreign = [], []
            for n in cfg.nodes:
                for c in direct(n, ("write", "writelines", "truncate")):
                    a = c.args[0] if (c.func.attr == "write" and len(c.args) == 1 and not c.keywords) else None
                    dn, v = def_of(fnm, n, a) if a is not None else (None, None)
                    if isinstance(v, ast.Call) and isinstance(v.func, ast.Attribute) and v.func.attr == "read" and attr_path(v.func.value) == fp:
                        rnode = dn if dn is not None else n
                        copies.append((n, c, rnode, v))
                    else:
                        foreign.append((n, c))
            upd = [(n, c) for n in cfg.nodes for c in self_calls(n, "_write_extra_lease_offset") if len(c.args) == 2 and attr_path(c.args[0]) == fp]
            if not upd:
                raise AnchorVanished("%s: no self._write_extra_lease_offset(%s, ..)" % (nm, fp))
            for (U, uc) in upd:
                r.site(cs, uc, "header update")
            if not copies:
                if cs is ccs:
                    raise AnchorVanished("%s: no %s.write(<bytes read from %s>) - the extra-lease block is not copied" % (nm, fp, fp))
                r.violation(cs, cs.loc(upd[0][1]), "%s repoints the header's extra-lease offset (%s) but copies no block there (no "
                            "%s.write(<bytes read from %s>)): every lease beyond the fourth is looked for among other bytes" % (
                                short(cs), src(cs, upd[0][1]), fp, fp))
                return
            OLD = P("self._read_extra_lease_offset(%s)" % fp)
            SIZE = P("%d + self._read_num_extra_leases(%s) * self.LEASE_SIZE" % (CW, fp))
            SIZE_POLY = Normaliser(Env(None, depth=0)).poly(parse_expr("%d + self._read_num_extra_leases(%s) * self.LEASE_SIZE" % (CW, fp)))
            muts = [n for n in cfg.nodes if mutates(n)]
            for (W, wc, Rn, rc) in copies:
                r.site(cs, rc, "block read")
                r.site(cs, wc, "block copy")
                # (a) the block that is saved is the whole block, taken from where the header says it is
                multi = len(file_calls(Rn)) != 1 or len(file_calls(W)) != 1
                r.require(not multi, cs, cs.loc(rc), "the block read / copy is combined with other file accesses in one statement")
                if multi:
                    continue
                try:
                    got = str(fnm.at(Rn).poly(rc.args[0])) if len(rc.args) == 1 and not rc.keywords else "?"
                except Exception:
                    got = "?"
                r.require(got == SIZE, cs, cs.loc(rc), "the saved extra-lease block is %s bytes long, not the count field plus every record "
                          "(%d + num_extra_leases * LEASE_SIZE): the leases beyond it do not survive the move" % (
                              src(cs, rc.args[0]) if rc.args else "all remaining", CW))
                rp = positions(Rn)
                r.require(bool(rp) and all(q is not None and str(q) == OLD for q in rp), cs, cs.loc(rc),
                          "the extra-lease block is read at %s, not at the extra-lease offset recorded in the header "
                          "(seek(self._read_extra_lease_offset(%s)) immediately before): other bytes are moved in place of the leases" % (show(rp), fp))
                # (b) ... before anything in the file is modified
                for (t, w) in find_path_avoiding(cfg, lambda x: x in muts, gate_node=lambda m: m is Rn, skip_exc_edges=True):
                    r.violation(cs, cs.loc(t.ast), "%s modifies the file (%s) before the extra-lease block was read: "
                                "the leases that are moved are no longer the stored ones (path: %s)" % (nm, src(cs, t.ast), w.brief()), w)
                # (c) the header points to where the copy went
                wp = positions(W)
                for (U, uc) in upd:
                    tgt = poly_at(U, uc.args[1])
                    r.require(tgt is not None and wp == {tgt}, cs, cs.loc(uc), "the header's extra-lease offset is set to %s but the lease block "
                              "was written at %s: every lease beyond the fourth is looked for in the wrong place" % (src(cs, uc.args[1]), show(wp)))
                # (d) nothing that may overlap the new block [new, new + size) is written (or cut off) after the copy
                avis, apar = explore(cfg, 0, lambda a_, l_, b_, s_: None if l_ == "exc" else 0, start=W)
                after = {nid for (nid, _s) in avis if nid != W.id}
                newp = next(iter(wp)) if len(wp) == 1 and None not in wp else None
                endp = newp + SIZE_POLY if newp is not None else None
                for (Z, zc) in foreign:
                    if Z.id not in after:
                        continue
                    zp = positions(Z)
                    ok = False
                    if endp is not None and zc.func.attr == "truncate" and len(zc.args) == 1 and not zc.keywords:
                        # the file is cut exactly at the end of the new block (a shrinking container)
                        ok = poly_at(Z, zc.args[0]) == endp
                    if newp is not None and len(zp) == 1 and None not in zp and zc.func.attr == "write" and len(zc.args) == 1:
                        # provably disjoint, before the block: at position p at most (new position - p) bytes are written
                        _d, zv = def_of(fnm, Z, zc.args[0])
                        if isinstance(zv, ast.BinOp) and isinstance(zv.op, ast.Mult):
                            sides = [zv.left, zv.right]
                            lit = [s_ for s_ in sides if isinstance(s_, ast.Constant) and isinstance(s_.value, bytes) and len(s_.value) == 1]
                            cnt = [s_ for s_ in sides if s_ not in lit]
                            if len(lit) == 1 and len(cnt) == 1:
                                cv = cnt[0]
                                if isinstance(cv, ast.Name):
                                    _d2, cv = def_of(fnm, Z, cv)
                                room = newp - next(iter(zp))
                                bounds = cv.args if isinstance(cv, ast.Call) and call_name(cv) == "min" and not cv.keywords else [cv] if cv is not None else []
                                for b_ in bounds:
                                    try:
                                        if fnm.at(Z).poly(b_) == room:
                                            ok = True
                                    except Exception:
                                        pass
                    if not ok and endp is not None and zc.func.attr == "write":
                        # provably disjoint, behind the block: written at max(.., new position + block size, ..) or later
                        sks = seeks(Z)
                        if sks and None not in sks:
                            behind = []
                            for (sn, se) in sks:
                                dn_, sv = def_of(fnm, sn, se)
                                at_ = dn_ if dn_ is not None else sn
                                lows = sv.args if isinstance(sv, ast.Call) and call_name(sv) == "max" and not sv.keywords else [sv] if sv is not None else []
                                behind.append(any(poly_at(at_, l_) == endp for l_ in lows))
                            ok = all(behind)
                    if not ok:
                        w = witness(cfg, apar, (Z.id, 0))
                        if zc.func.attr == "truncate":
                            r.violation(cs, cs.loc(zc), "%s cuts the file at %s after the extra-lease block was copied to its new place, "
                                        "which is not the end of that block (new offset + %d + num_extra_leases * LEASE_SIZE): "
                                        "leases at the end of the block are cut off (path: %s)" % (
                                            nm, src(cs, zc.args[0]) if zc.args else "the current position", CW, w.brief()), w)
                            continue
                        r.violation(cs, cs.loc(zc), "%s writes %s at %s after the extra-lease block was copied to its new "
                                    "place: when the extra-lease offset moves by less than the block size the old and the new block "
                                    "overlap and this write destroys part of the copy (the extra-lease count and / or lease records) "
                                    "- leases beyond the fourth are lost (path: %s)" % (
                                        nm, src(cs, zc.args[0] if zc.args else zc), show(zp), w.brief()), w)
                for Z in cfg.nodes:
                    if Z.id in after:
                        for c in handed(Z):
                            if call_tail(c).startswith("_read") or (call_name(c).startswith("self.") and call_tail(c) in HEADER_WRITERS):
                                continue
                            r.violation(cs, cs.loc(c), "%s hands the file to %s after the extra-lease block was copied: "
                                        "it may overwrite the copy" % (nm, src(cs, c)), witness(cfg, apar, (Z.id, 0)))
            # (e) a call that modified the file completes only with the block copied and the header pointing at it
            cn = {W.id for (W, _c, _r, _v) in copies}
            un_ = {U.id for (U, _c) in upd}

            def tr_done(n, lab, nxt, st):
                if lab == "exc":
                    return None
                m_, c_, u_ = st
                return (m_ or n in muts, c_ or n.id in cn, u_ or n.id in un_)
            dvis, dpar = explore(cfg, (False, False, False), tr_done)
            r.count(len(dvis))
            for (nid, st) in sorted(dvis):
                if cfg.nodes[nid].kind == "exit" and st[0] and not (st[1] and st[2]):
                    w = witness(cfg, dpar, (nid, st))
                    r.violation(cs, cs.loc(), "%s can return after modifying the file without %s: the extra leases are "
                                "lost (path: %s)" % (nm, "having copied the extra-lease block" if not st[1] else "pointing the header at the copy", w.brief()), w)
                    break

        for (f_, fp_) in relocators:
            relocation(f_, fp_)

    # -- 11. a known renew secret is never reported as unknown --------------------------------------------------------
    with ctx.rule("C25.11", "R1/R3", "renew_lease (both containers) raises (IndexError: no such lease) only when no lease matched the "
                  "renew secret: once lease.is_renew_secret(renew_secret) held - whether or not the expiry had to move - no raise "
                  "statement is reachable, otherwise add_or_renew_lease takes the secret for unknown and adds a duplicate", expected=2) as r:
        for (cq, kind) in CONTAINERS:
            fn = idx.func(cq + ".renew_lease")
            sec = first_positional_params(fn)[0]
            cfg = fn.cfg()
            fnm = FlowNorm(fn)
            medges = [(n, lab) for n in cfg.nodes for (d, lab) in cfg.succ[n.id] if isinstance(lab, tuple)
                      and (fnm.edge_fact(n, lab) or (None, ""))[0] == "truth"
                      and re.match(r"^\w+\.is_renew_secret\(%s\)$" % re.escape(sec), str(fnm.edge_fact(n, lab)[1]))]
            if not medges:
                raise AnchorVanished("%s: no test of <lease>.is_renew_secret(%s)" % (short(fn), sec))
            r.site(fn, medges[0][0].ast, "secret match")
            mset = {(n.id, lab[0]) for (n, lab) in medges}

            vis, par = match_flow(cfg, mset)
            r.count(len(vis))
            for (nid, st) in sorted(vis, key=lambda x: (x[0], str(x[1]))):
                m = cfg.nodes[nid]
                if st[0] and m.kind == "stmt" and isinstance(m.ast, ast.Raise):
                    w = witness(cfg, par, (nid, st))
                    r.violation(fn, fn.loc(m.ast), "%s can reach %s after a lease matched the renew secret (e.g. when its expiry does not "
                                "need to move): a renewal with a known secret is reported as 'no such lease', and add_or_renew_lease "
                                "answers that by adding a duplicate lease (path: %s)" % (short(fn), src(fn, m.ast), w.brief()), w)
                    break

    # -- 12. a stored (hashed) lease never comes back to the serializer as a plain lease ---------------------------------------
    with ctx.rule("C25.12", "R1/R5", "the hashed lease representation is closed: HashedLeaseSerializer.serialize hashes only under a type "
                  "test no wrapper object passes, the wrapper is not a plain lease, every lease-producing ILeaseInfo method that is "
                  "used is overridden by the wrapper and returns wrappers, and the containers write back only given / stored / "
                  "wrapper-derived leases", expected=4) as r:
        hashed_representation_closed(idx, cg, r, "the rewritten lease no longer answers to its renew secret: renew_lease reports an "
                                     "unknown secret and add_lease appends a duplicate instead of renewing")
